"""Small expression utilities: linear normal forms (a dataflow value domain, not symbolic execution of
paths), argument binding, boolean-context detection."""
from __future__ import annotations

import ast
from typing import Dict, List, Optional, Tuple

from .model import norm, FuncInfo, ClassInfo, parent

Lin = Dict[str, int]     # atom text -> coefficient; '' is the constant term


def lin_add(a: Lin, b: Lin, sign: int = 1) -> Lin:
    out = dict(a)
    for k, v in b.items():
        out[k] = out.get(k, 0) + sign * v
        if out[k] == 0:
            del out[k]
    return out


def linear(e: ast.AST, subst: Optional[Dict[str, Lin]] = None) -> Lin:
    """Linear normal form of an integer expression.  Non-arithmetic sub-expressions are atoms keyed by
    their normalised text; `subst` maps atom text to a linear form to substitute (def-use chase)."""
    subst = subst or {}
    if isinstance(e, ast.Constant) and isinstance(e.value, int) and not isinstance(e.value, bool):
        return {'': e.value} if e.value else {}
    if isinstance(e, ast.BinOp) and isinstance(e.op, (ast.Add, ast.Sub)):
        return lin_add(linear(e.left, subst), linear(e.right, subst), 1 if isinstance(e.op, ast.Add) else -1)
    if isinstance(e, ast.UnaryOp) and isinstance(e.op, ast.USub):
        return lin_add({}, linear(e.operand, subst), -1)
    if isinstance(e, ast.UnaryOp) and isinstance(e.op, ast.UAdd):
        return linear(e.operand, subst)
    if isinstance(e, ast.BinOp) and isinstance(e.op, ast.Mult):
        l, r = linear(e.left, subst), linear(e.right, subst)
        if set(l) <= {''}:
            c = l.get('', 0)
            return {k: v * c for k, v in r.items() if v * c}
        if set(r) <= {''}:
            c = r.get('', 0)
            return {k: v * c for k, v in l.items() if v * c}
    key = norm(e)
    if key in subst:
        return dict(subst[key])
    return {key: 1}


def lin_str(l: Lin) -> str:
    if not l:
        return '0'
    parts = []
    for k in sorted(l, key=lambda x: (x == '', x)):
        v = l[k]
        if k == '':
            parts.append('%+d' % v)
        elif v == 1:
            parts.append('+' + k)
        elif v == -1:
            parts.append('-' + k)
        else:
            parts.append('%+d*%s' % (v, k))
    return ' '.join(parts).lstrip('+')


def dataclass_fields(k: ClassInfo) -> List[str]:
    out: List[str] = []
    for c in reversed(k.mro()):
        for n in c.node.body:
            if isinstance(n, ast.AnnAssign) and isinstance(n.target, ast.Name):
                ann = norm(n.annotation)
                if ann.startswith('ClassVar'):
                    continue
                if n.target.id not in out:
                    out.append(n.target.id)
    return out


def is_dataclass(k: ClassInfo) -> bool:
    for c in k.mro():
        for d in c.node.decorator_list:
            if 'dataclass' in norm(d):
                return True
    return False


def bind_call(call: ast.Call, names: List[str]) -> Tuple[Dict[str, ast.AST], bool]:
    """Bind the arguments of `call` to the positional parameter names `names`.
    Returns (param -> arg node, exact) where exact is False when *args / **kwargs prevent binding."""
    out: Dict[str, ast.AST] = {}
    exact = True
    for i, a in enumerate(call.args):
        if isinstance(a, ast.Starred):
            exact = False
            break
        if i < len(names):
            out[names[i]] = a
        else:
            exact = False
    for kw in call.keywords:
        if kw.arg is None:
            exact = False
        else:
            out[kw.arg] = kw.value
    return out, exact


def in_bool_context(n: ast.AST) -> bool:
    """Is expression node n evaluated for its truth value?"""
    p = parent(n)
    if isinstance(p, (ast.If, ast.While, ast.IfExp)) and p.test is n:
        return True
    if isinstance(p, ast.Assert) and p.test is n:
        return True
    if isinstance(p, ast.UnaryOp) and isinstance(p.op, ast.Not):
        return True
    if isinstance(p, ast.BoolOp):
        # every operand but the last is tested; the last is tested when the BoolOp itself is
        if p.values[-1] is not n:
            return True
        return in_bool_context(p)
    if isinstance(p, ast.comprehension) and n in p.ifs:
        return True
    if isinstance(p, ast.Call) and isinstance(p.func, ast.Name) and p.func.id == 'bool' and p.args and p.args[0] is n:
        return True
    return False


# ------------------------------------------------------------------------------------------------
# Structural patterns with name wildcards: rules must not depend on how locals are called.
#   $x     matches any plain Name (local, parameter, global); the same $x must match the same name
#   $$x    matches any expression; the same $$x must match the same expression (by normalised text)
#   $_ / $$_   anonymous forms (no consistency)
# Everything else is compared structurally (node types and fields; ctx, positions and type comments ignored).
import re as _re

_MIRROR = {ast.Lt: ast.Gt, ast.Gt: ast.Lt, ast.LtE: ast.GtE, ast.GtE: ast.LtE}
_WILD = _re.compile(r'\$\$?[A-Za-z_][A-Za-z0-9_]*')
_pat_cache: Dict[str, ast.AST] = {}


def pat(src: str) -> ast.AST:
    p = _pat_cache.get(src)
    if p is None:
        def repl(m):
            t = m.group(0)
            return ('__E_' + t[2:]) if t.startswith('$$') else ('__V_' + t[1:])
        code = _WILD.sub(repl, src)
        mod = ast.parse(code)
        if len(mod.body) != 1:
            raise ValueError('pattern must be one statement or expression: %r' % src)
        st = mod.body[0]
        p = st.value if isinstance(st, ast.Expr) else st
        _pat_cache[src] = p
    return p


def unify(p: ast.AST, n: ast.AST, b: Optional[Dict[str, str]] = None) -> Optional[Dict[str, str]]:
    """Bindings if pattern p matches node n (extending b), else None."""
    b = dict(b) if b is not None else {}
    return b if _unify(p, n, b) else None


def _unify(p, n, b) -> bool:
    if isinstance(p, ast.Name):
        if p.id.startswith('__V_'):
            if not isinstance(n, ast.Name):
                return False
            key = p.id[4:]
            if key == '_':
                return True
            if key in b:
                return b[key] == n.id
            b[key] = n.id
            return True
        if p.id.startswith('__E_'):
            if not isinstance(n, ast.AST):
                return False
            key = p.id[4:]
            if key == '_':
                return True
            t = norm(n)
            if ('$$' + key) in b:
                return b['$$' + key] == t
            b['$$' + key] = t
            return True
    if isinstance(p, ast.arg) and p.arg.startswith('__V_'):
        if not isinstance(n, ast.arg):
            return False
        key = p.arg[4:]
        if key != '_':
            if key in b and b[key] != n.arg:
                return False
            b[key] = n.arg
        return True
    if type(p) is not type(n):
        return False
    if isinstance(p, ast.Compare) and len(p.ops) == 1 and isinstance(p.ops[0], (ast.Eq, ast.NotEq, ast.Is, ast.IsNot)) \
            and isinstance(n, ast.Compare) and len(n.ops) == 1 and type(n.ops[0]) is type(p.ops[0]):
        # symmetric comparison: either operand order
        for nl, nr in ((n.left, n.comparators[0]), (n.comparators[0], n.left)):
            b2 = dict(b)
            if _unify(p.left, nl, b2) and _unify(p.comparators[0], nr, b2):
                b.clear()
                b.update(b2)
                return True
        return False
    if isinstance(p, ast.Compare) and len(p.ops) == 1 and type(p.ops[0]) in _MIRROR and isinstance(n, ast.Compare) and len(n.ops) == 1 \
            and type(n.ops[0]) is _MIRROR[type(p.ops[0])]:
        # a < b matches b > a
        b2 = dict(b)
        if _unify(p.left, n.comparators[0], b2) and _unify(p.comparators[0], n.left, b2):
            b.clear()
            b.update(b2)
            return True
        return False
    for field in p._fields:
        if field in ('ctx', 'type_comment', 'kind'):
            continue
        pv, nv = getattr(p, field, None), getattr(n, field, None)
        if isinstance(pv, list):
            if not isinstance(nv, list) or len(pv) != len(nv):
                return False
            for a, c in zip(pv, nv):
                if isinstance(a, ast.AST):
                    if not _unify(a, c, b):
                        return False
                elif a != c:
                    return False
        elif isinstance(pv, ast.AST):
            if not isinstance(nv, ast.AST) or not _unify(pv, nv, b):
                return False
        else:
            if isinstance(pv, str) and field in ('name', 'id', 'attr') and pv.startswith('__V_'):
                key = pv[4:]
                if key != '_':
                    if key in b and b[key] != nv:
                        return False
                    b[key] = nv
                continue
            if pv != nv:
                return False
    return True


def find_pat(nodes, src: str, b: Optional[Dict[str, str]] = None) -> List[Tuple[ast.AST, Dict[str, str]]]:
    """All nodes (from an iterable of AST nodes, e.g. FuncInfo.body_nodes()) matching the pattern."""
    p = pat(src)
    out = []
    for n in nodes:
        if type(n) is type(p) or (isinstance(p, ast.Name) and p.id.startswith('__E_')):
            r = unify(p, n, b)
            if r is not None:
                out.append((n, r))
    return out


def has_pat(nodes, src: str, b: Optional[Dict[str, str]] = None) -> bool:
    return bool(find_pat(nodes, src, b))


# ------------------------------------------------------------------------------------------------
# Flow-insensitive data + control dependence inside one function: which attribute reads can influence a value?
# (spelling-independent: a conditional expression, an if statement around the assignment and a temporary all give
# the same answer)
def influences(f: FuncInfo, e: ast.AST, _seen: Optional[set] = None) -> List[ast.Attribute]:
    """Attribute-read nodes that the value of expression/statement `e` depends on: those inside it, those in the tests
    of the if/while statements (and conditional expressions) enclosing it, and -- through local names -- those that the
    assignments to these names depend on."""
    from .model import ancestors
    seen = _seen if _seen is not None else set()
    out: List[ast.Attribute] = []
    if id(e) in seen:
        return out
    seen.add(id(e))
    names = set()
    for x in ast.walk(e):
        if isinstance(x, ast.Attribute) and isinstance(x.ctx, ast.Load):
            out.append(x)
        elif isinstance(x, ast.Name) and isinstance(x.ctx, ast.Load):
            names.add(x.id)
    prev = e
    for a in ancestors(e):
        if isinstance(a, (ast.FunctionDef, ast.AsyncFunctionDef, ast.Lambda)):
            break
        if isinstance(a, (ast.If, ast.While)) and prev is not a.test:
            out += influences(f, a.test, seen)
        if isinstance(a, ast.IfExp) and prev is not a.test:
            out += influences(f, a.test, seen)
        prev = a
    params = set(f.positional_names())
    for n in f.body_nodes():
        tg = []
        if isinstance(n, ast.Assign):
            tg = [(t, n) for t in n.targets]
        elif isinstance(n, (ast.AnnAssign, ast.AugAssign)) and getattr(n, 'value', None) is not None:
            tg = [(n.target, n)]
        for t, st in tg:
            for x in ast.walk(t):
                if isinstance(x, ast.Name) and x.id in names and x.id not in params and isinstance(x.ctx, ast.Store):
                    out += influences(f, st.value, seen)
    return out


# ------------------------------------------------------------------------------------------------
# "target = A if C else B" in whichever spelling: conditional expression, or an if statement whose two arms each
# assign the same target / each return.
def cond_values(nodes) -> List[Tuple[str, ast.AST, ast.AST, ast.AST, ast.AST]]:
    """(target text or 'return', test, value-if-true, value-if-false, node) for every two-armed conditional value."""
    out = []
    for n in nodes:
        if isinstance(n, ast.If) and len(n.body) == 1 and len(n.orelse) == 1:
            a, b = n.body[0], n.orelse[0]
            if isinstance(a, ast.Assign) and isinstance(b, ast.Assign) and len(a.targets) == 1 and len(b.targets) == 1 \
                    and norm(a.targets[0]) == norm(b.targets[0]):
                out.append((norm(a.targets[0]), n.test, a.value, b.value, n))
            elif isinstance(a, ast.Return) and isinstance(b, ast.Return) and a.value is not None and b.value is not None:
                out.append(('return', n.test, a.value, b.value, n))
            elif isinstance(a, ast.Expr) and isinstance(b, ast.Expr) and isinstance(a.value, ast.Call) and isinstance(b.value, ast.Call) \
                    and norm(a.value.func) == norm(b.value.func) and len(a.value.args) == len(b.value.args) and not a.value.keywords and not b.value.keywords:
                # the same call in both arms, differing in one argument: f(A if C else B)
                diff = [k for k, (x, y) in enumerate(zip(a.value.args, b.value.args)) if norm(x) != norm(y)]
                if len(diff) == 1:
                    out.append(('<expr>', n.test, a.value.args[diff[0]], b.value.args[diff[0]], n))
        elif isinstance(n, ast.IfExp):
            from .model import parent as _parent
            p = _parent(n)
            tgt = norm(p.targets[0]) if isinstance(p, ast.Assign) and len(p.targets) == 1 and p.value is n else \
                ('return' if isinstance(p, ast.Return) else '<expr>')
            out.append((tgt, n.test, n.body, n.orelse, n))
    return out


def match_cond(nodes, test_src: str, true_src: str, false_src: str, b: Optional[Dict[str, str]] = None,
               target_src: Optional[str] = None) -> List[Tuple[ast.AST, Dict[str, str]]]:
    """Two-armed conditional values matching `true_src if test_src else false_src` (patterns with wildcards); the
    negated orientation (`false_src if not test_src else true_src`) matches too."""
    out = []
    pt, pa, pb = pat(test_src), pat(true_src), pat(false_src)
    for tgt, test, va, vb, node in cond_values(nodes):
        for t_, a_, b_ in ((test, va, vb), (_negated(test), vb, va)):
            if t_ is None:
                continue
            r = unify(pt, t_, b)
            if r is None:
                continue
            r = unify(pa, a_, r)
            if r is None:
                continue
            r = unify(pb, b_, r)
            if r is None:
                continue
            if target_src is not None:
                r2 = unify(pat(target_src), ast.parse(tgt).body[0].value, r) if tgt not in ('return', '<expr>') else None
                if r2 is None:
                    continue
                r = r2
            out.append((node, r))
            break
    return out


def _negated(test: ast.AST) -> Optional[ast.AST]:
    if isinstance(test, ast.UnaryOp) and isinstance(test.op, ast.Not):
        return test.operand
    neg = {ast.Eq: ast.NotEq, ast.NotEq: ast.Eq, ast.Is: ast.IsNot, ast.IsNot: ast.Is, ast.In: ast.NotIn, ast.NotIn: ast.In}
    if isinstance(test, ast.Compare) and len(test.ops) == 1 and type(test.ops[0]) in neg:
        return ast.Compare(left=test.left, ops=[neg[type(test.ops[0])]()], comparators=test.comparators)
    return None


# ------------------------------------------------------------------------------------------------
# Propositional view of a test: atoms are the maximal sub-expressions that are not not/and/or; negative comparison
# operators are the negation of the positive atom.  Two tests are equivalent when their truth tables agree -- the
# comparison is blind to De Morgan rewrites, double negation, operand order of and/or and != versus not ==.
# (Python's and/or return operands, not booleans; the equivalence is about truthiness, which is what an `if` sees.)
_POS = {ast.NotEq: ast.Eq, ast.IsNot: ast.Is, ast.NotIn: ast.In}


def _prop(e: ast.AST, atoms: Dict[str, int]):
    if isinstance(e, ast.UnaryOp) and isinstance(e.op, ast.Not):
        return ('not', _prop(e.operand, atoms))
    if isinstance(e, ast.BoolOp):
        return ('and' if isinstance(e.op, ast.And) else 'or', [_prop(v, atoms) for v in e.values])
    if isinstance(e, ast.Compare) and len(e.ops) == 1 and type(e.ops[0]) in _POS:
        pos = ast.Compare(left=e.left, ops=[_POS[type(e.ops[0])]()], comparators=e.comparators)
        return ('not', _prop(pos, atoms))
    if isinstance(e, ast.Compare) and len(e.ops) == 1 and isinstance(e.ops[0], (ast.Eq, ast.Is)):
        a, b = sorted([norm(e.left), norm(e.comparators[0])])
        key = '%s %s %s' % (a, '==' if isinstance(e.ops[0], ast.Eq) else 'is', b)
    elif isinstance(e, ast.Constant) and isinstance(e.value, bool):
        return ('const', e.value)
    else:
        key = norm(e)
    if key not in atoms:
        atoms[key] = len(atoms)
    return ('atom', atoms[key])


def _eval(p, env) -> bool:
    k = p[0]
    if k == 'atom':
        return env[p[1]]
    if k == 'const':
        return p[1]
    if k == 'not':
        return not _eval(p[1], env)
    if k == 'and':
        return all(_eval(x, env) for x in p[1])
    return any(_eval(x, env) for x in p[1])


def bool_relation(a: ast.AST, b: ast.AST) -> Optional[str]:
    """'same' if the two tests are truth-equivalent, 'negated' if one is the negation of the other, else None
    (None also when they have more than 10 atoms together)."""
    import itertools
    atoms: Dict[str, int] = {}
    pa, pb = _prop(a, atoms), _prop(b, atoms)
    n = len(atoms)
    if n > 10:
        return None
    same = neg = True
    for vals in itertools.product([False, True], repeat=n):
        x, y = _eval(pa, vals), _eval(pb, vals)
        if x != y:
            same = False
        if x == y:
            neg = False
        if not same and not neg:
            return None
    return 'same' if same else ('negated' if neg else None)


def satisfiable(lits: List[Tuple[ast.AST, bool]]) -> Optional[bool]:
    """Is the conjunction of the literals (test, polarity) propositionally satisfiable?  None with more than 12 atoms."""
    import itertools
    atoms: Dict[str, int] = {}
    ps = [(_prop(t, atoms), pol) for t, pol in lits]
    if len(atoms) > 12:
        return None
    for vals in itertools.product([False, True], repeat=len(atoms)):
        if all(_eval(p_, vals) == pol for p_, pol in ps):
            return True
    return False


def cond_value_of(nodes, target: Optional[str] = None):
    """Like cond_values, restricted to one target text ('return' for returns)."""
    return [c for c in cond_values(nodes) if target is None or c[0] == target]


def as_less(c: ast.AST) -> Optional[Tuple[ast.AST, str, ast.AST]]:
    """(lo, '<' or '<=', hi) for a single ordering comparison in either spelling (a < b, b > a)."""
    if not (isinstance(c, ast.Compare) and len(c.ops) == 1):
        return None
    op = c.ops[0]
    l, r = c.left, c.comparators[0]
    if isinstance(op, ast.Lt):
        return l, '<', r
    if isinstance(op, ast.LtE):
        return l, '<=', r
    if isinstance(op, ast.Gt):
        return r, '<', l
    if isinstance(op, ast.GtE):
        return r, '<=', l
    return None



def call_args_by_name(repo, call: ast.Call, callee_qual: str) -> Dict[str, ast.AST]:
    """Arguments of `call` keyed by the parameter names of the package function / class `callee_qual`
    ('module:func' or 'module:Class' -> its __init__ without self), whether passed by position or by keyword."""
    f = repo.functions.get(callee_qual)
    if f is None:
        k = repo.classes.get(callee_qual)
        init = k.find_method('__init__') if k is not None else None
        names = init.positional_names() if init is not None else []
    else:
        names = f.positional_names()
    return bind_call(call, names)[0]



def expand_properties(cls: ClassInfo, e: ast.AST, self_name: str = 'self', depth: int = 2) -> ast.AST:
    """`self.<prop>` replaced by what the property returns (single `return <expr>` properties of the class family):
    `self.is_empty` and `self.left is None and self.right is None` compare equal."""
    import copy as _c

    class X(ast.NodeTransformer):
        def visit_Attribute(self, n):
            self.generic_visit(n)
            if isinstance(n.value, ast.Name) and n.value.id == self_name and isinstance(n.ctx, ast.Load):
                m = cls.find_method(n.attr)
                if m is not None and m.is_property:
                    rets = [r for r in m.body_nodes() if isinstance(r, ast.Return) and r.value is not None]
                    if len(rets) == 1:
                        sn = m.self_name() or 'self'
                        body = ast.parse(norm(rets[0].value), mode='eval').body
                        for y in ast.walk(body):
                            if isinstance(y, ast.Name) and y.id == sn:
                                y.id = self_name
                        return body
            return n
    out = ast.parse(norm(e), mode='eval').body
    for _ in range(depth):
        out = X().visit(out)
    return out


def path_conditions(stmt: ast.AST) -> List[Tuple[ast.AST, bool]]:
    """Conditions under which a statement executes, read off the structure in either style: (test, True/False) for every
    enclosing if/while arm, and (test, False) for every earlier guard clause of an enclosing block -- an `if test:` without
    else whose body ends in continue / return / raise / break.  `if a != b: continue; S` and `if a == b: S` give S the same
    condition (compare with bool_relation)."""
    from .model import parent as _parent
    out: List[Tuple[ast.AST, bool]] = []
    cur = stmt
    while cur is not None and not isinstance(cur, (ast.FunctionDef, ast.AsyncFunctionDef, ast.Lambda, ast.Module)):
        par = _parent(cur)
        if par is None:
            break
        for field in ('body', 'orelse', 'finalbody'):
            blk = getattr(par, field, None)
            if isinstance(blk, list) and cur in blk:
                if isinstance(par, (ast.If, ast.While)) and field in ('body', 'orelse'):
                    out.append((par.test, field == 'body'))
                for prev in blk[:blk.index(cur)]:
                    if isinstance(prev, ast.If) and not prev.orelse and prev.body and \
                            isinstance(prev.body[-1], (ast.Continue, ast.Return, ast.Raise, ast.Break)):
                        out.append((prev.test, False))
                break
        cur = par
    return out


def runs_only_if(stmt: ast.AST, want: ast.AST) -> bool:
    """Does one of the statement's path conditions say `want` (up to negation-with-opposite-polarity)?"""
    for test, pol in path_conditions(stmt):
        # conjunctions: each conjunct of a positive test holds
        parts = list(test.values) if (pol and isinstance(test, ast.BoolOp) and isinstance(test.op, ast.And)) else [test]
        # a failed disjunction: each disjunct is false
        if not pol and isinstance(test, ast.BoolOp) and isinstance(test.op, ast.Or):
            parts = list(test.values)
        for t in parts:
            rel = bool_relation(t, want)
            if (rel == 'same' and pol) or (rel == 'negated' and not pol):
                return True
    return False


# ---------------------------------------------------------------------------------------------------------------------
# String building: '%'-formatting, str.format, f-strings and '+' of such pieces read as one template.
def str_template(node: ast.AST):
    """(template, args) with every hole written `%s` (literal per cent doubled), or None when `node` is not a string built
    from literals and plain holes.  `'%s{%s}' % (a, b)`, `'{}{{{}}}'.format(a, b)`, f'{a}{{{b}}}' and `a + '{' + b + '}'`
    (at least one literal piece) all read ('%s{%s}', [a, b])."""
    import re as _re
    if isinstance(node, ast.Constant) and isinstance(node.value, str):
        return node.value.replace('%', '%%'), []
    if isinstance(node, ast.BinOp) and isinstance(node.op, ast.Mod) and isinstance(node.left, ast.Constant) and isinstance(node.left.value, str):
        fmt = node.left.value
        args = list(node.right.elts) if isinstance(node.right, ast.Tuple) else [node.right]
        holes = _re.findall(r'%(.)', fmt)
        if any(h not in 'sdr%' for h in holes) or sum(h != '%' for h in holes) != len(args):
            return None
        return _re.sub(r'%[dr]', '%s', fmt), args
    if isinstance(node, ast.Call) and isinstance(node.func, ast.Attribute) and node.func.attr == 'format' and not node.keywords \
            and isinstance(node.func.value, ast.Constant) and isinstance(node.func.value.value, str):
        fmt = node.func.value.value
        out, args, i, auto = '', [], 0, 0
        while i < len(fmt):
            c = fmt[i]
            if fmt.startswith('{{', i) or fmt.startswith('}}', i):
                out += c
                i += 2
            elif c == '{':
                j = fmt.index('}', i)
                field = fmt[i + 1:j]
                if field == '':
                    k = auto
                    auto += 1
                elif field.isdigit():
                    k = int(field)
                else:
                    return None
                if k >= len(node.args) or isinstance(node.args[k], ast.Starred):
                    return None
                args.append(node.args[k])
                out += '%s'
                i = j + 1
            elif c == '}':
                return None
            else:
                out += '%%' if c == '%' else c
                i += 1
        return out, args
    if isinstance(node, ast.JoinedStr):
        out, args = '', []
        for v in node.values:
            if isinstance(v, ast.Constant) and isinstance(v.value, str):
                out += v.value.replace('%', '%%')
            elif isinstance(v, ast.FormattedValue) and v.conversion in (-1, 115, 114) and (
                    v.format_spec is None or (isinstance(v.format_spec, ast.JoinedStr) and len(v.format_spec.values) <= 1 and all(
                        isinstance(c, ast.Constant) and c.value in ('d', 's', '') for c in v.format_spec.values))):
                out += '%s'
                args.append(v.value)
            else:
                return None
        return out, args
    if isinstance(node, ast.BinOp) and isinstance(node.op, ast.Add):
        def piece(n):
            t = str_template(n)
            if t is not None:
                return t
            return '%s', [n]
        parts = []

        def flat(n):
            if isinstance(n, ast.BinOp) and isinstance(n.op, ast.Add):
                flat(n.left)
                flat(n.right)
            else:
                parts.append(n)
        flat(node)
        if not any(isinstance(p, ast.Constant) and isinstance(p.value, str) for p in parts):
            return None
        out, args = '', []
        for p in parts:
            t, a = piece(p)
            out += t
            args += a
        return out, args
    return None


# ---------------------------------------------------------------------------------------------------------------------
def path_vectors(stmts, preds, stop_at_continue: bool = True) -> set:
    """Like path_counts for several predicates at once: the set of count vectors (tuples, one entry per predicate) over all
    paths through `stmts` that end by falling off the end, `continue` or `return` (paths that raise are left out)."""
    n = len(preds)
    MANY = 99
    zero = tuple([0] * n)

    def count_expr(node):
        return tuple(min(MANY, sum(1 for x in ast.walk(node) if p(x))) for p in preds)

    def add(a, b):
        return tuple(min(MANY, x + y) for x, y in zip(a, b))

    def go(seq):
        running, done = {zero}, set()
        for st in seq:
            if not running:
                break
            if isinstance(st, ast.Return):
                c = count_expr(st)
                done |= {add(r, c) for r in running}
                running = set()
            elif isinstance(st, (ast.Continue, ast.Break)) and stop_at_continue:
                done |= set(running)
                running = set()
            elif isinstance(st, ast.Raise) or (isinstance(st, ast.Assert) and isinstance(st.test, ast.Constant) and not st.test.value):
                running = set()
            elif isinstance(st, ast.If):
                c = count_expr(st.test)
                r1, d1 = go(st.body)
                r2, d2 = go(st.orelse)
                done |= {add(add(r, c), d) for r in running for d in d1 | d2}
                running = {add(add(r, c), x) for r in running for x in r1 | r2}
            elif isinstance(st, (ast.For, ast.While, ast.AsyncFor)):
                inner = count_expr(st)
                if any(inner):
                    many = tuple(MANY if v else 0 for v in inner)
                    running = {x for r in running for x in (r, add(r, many))}
            elif isinstance(st, ast.Try):
                rb, db = go(list(st.body) + list(st.orelse))
                rs, ds = set(rb), set(db)
                for h in st.handlers:
                    rh, dh = go(h.body)
                    rs |= rh
                    ds |= dh
                done |= {add(r, d) for r in running for d in ds}
                running = {add(r, x) for r in running for x in rs}
            elif isinstance(st, (ast.With, ast.AsyncWith)):
                rb, db = go(st.body)
                done |= {add(r, d) for r in running for d in db}
                running = {add(r, x) for r in running for x in rb}
            elif isinstance(st, (ast.FunctionDef, ast.AsyncFunctionDef, ast.ClassDef)):
                continue
            else:
                c = count_expr(st)
                running = {add(r, c) for r in running}
        return running, done
    r, d = go(list(stmts))
    return r | d


def path_counts(stmts, pred) -> set:
    """How many nodes satisfying `pred` are evaluated on a path through `stmts`: the set of counts over all paths that end by
    falling off the end or returning (paths that raise are left out).  A loop whose body can count contributes 0 or 'many' (99)."""
    MANY = 99

    def count_expr(node) -> int:
        return sum(1 for x in ast.walk(node) if pred(x))

    def go(seq):
        """-> (counts of paths still running, counts of paths that returned)"""
        running, done = {0}, set()
        for st in seq:
            if not running:
                break
            if isinstance(st, ast.Return):
                c = count_expr(st)
                done |= {min(MANY, r + c) for r in running}
                running = set()
            elif isinstance(st, ast.Raise):
                running = set()
            elif isinstance(st, ast.Assert) and isinstance(st.test, ast.Constant) and not st.test.value:
                running = set()
            elif isinstance(st, ast.If):
                c = count_expr(st.test)
                r1, d1 = go(st.body)
                r2, d2 = go(st.orelse)
                done |= {min(MANY, r + c + d) for r in running for d in d1 | d2}
                running = {min(MANY, r + c + x) for r in running for x in r1 | r2}
            elif isinstance(st, (ast.For, ast.While, ast.AsyncFor)):
                inner = count_expr(st)
                if inner:
                    running = {x for r in running for x in (r, MANY)}
                r2, d2 = go(st.orelse)
                done |= {min(MANY, r + d) for r in running for d in d2}
                running = {min(MANY, r + x) for r in running for x in r2}
            elif isinstance(st, ast.Try):
                rb, db = go(list(st.body) + list(st.orelse))
                rs, ds = set(rb), set(db)
                for h in st.handlers:
                    rh, dh = go(h.body)
                    rs |= rh
                    ds |= dh
                if st.finalbody:
                    rf, df = go(st.finalbody)
                    rs = {min(MANY, a + b) for a in rs for b in rf}
                done |= {min(MANY, r + d) for r in running for d in ds}
                running = {min(MANY, r + x) for r in running for x in rs}
            elif isinstance(st, (ast.With, ast.AsyncWith)):
                c = sum(count_expr(it.context_expr) for it in st.items)
                rb, db = go(st.body)
                done |= {min(MANY, r + c + d) for r in running for d in db}
                running = {min(MANY, r + c + x) for r in running for x in rb}
            elif isinstance(st, (ast.FunctionDef, ast.AsyncFunctionDef, ast.ClassDef)):
                continue
            else:
                c = count_expr(st)
                running = {min(MANY, r + c) for r in running}
        return running, done
    r, d = go(list(stmts))
    return r | d


def sym_norm(t: ast.AST) -> str:
    """text of a test with the operands of a symmetric comparison (==, !=, is, is not) in sorted order"""
    if isinstance(t, ast.Compare) and len(t.ops) == 1 and isinstance(t.ops[0], (ast.Eq, ast.NotEq, ast.Is, ast.IsNot)):
        a, b = sorted([norm(t.left), norm(t.comparators[0])])
        return '%s %s %s' % (a, {ast.Eq: '==', ast.NotEq: '!=', ast.Is: 'is', ast.IsNot: 'is not'}[type(t.ops[0])], b)
    return norm(t)
