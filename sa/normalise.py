"""Canonical form of the syntax trees the rules look at.

Rules must react to what the code does, not to how it is spelled.  Formatting and quoting disappear in `ast`; the
rewrites below remove a few more behaviour-preserving spellings, so that a maintainer's clean-up (introducing or
inlining a temporary, writing a conditional expression as an if statement, putting the constant on the other side of
`==`, adding a docstring) leaves every rule's view of the code unchanged.  Each rewrite is behaviour-preserving on its
own terms (stated per rewrite); positions of the original nodes are kept for reporting.

  N1  docstrings are dropped (a body left empty gets `pass`).
  N2  `<constant> == x`, `None is x` ...: for a single symmetric comparison (==, !=, is, is not) with a constant on the
      left and a side-effect-free non-constant on the right, the operands are swapped (constant on the right).
  N3  `t = a if c else b` and `return a if c else b` become if statements (same evaluation order: c, then one arm).
  N4  a temporary that is assigned once in its function, read once, and read by the very next statement -- as the whole
      test of an `if`, the whole value of a `return`/assignment/expression statement, or anywhere in that statement's
      header when the temporary's expression is side-effect free -- is substituted into its use.

  N7  an if statement with both arms whose test is negative (`not X`, `a != b`, `a is not b`, `a not in b`) is turned round:
      positive test, arms swapped.

The twins of sa/twins.py generate the opposite spellings for the whole package; the thorough tier checks that every
rule reports the same findings on them.
"""
from __future__ import annotations

import ast
import copy as _copy
from typing import Dict, List, Optional, Set

SYM = (ast.Eq, ast.NotEq, ast.Is, ast.IsNot)


def pure(e: ast.AST) -> bool:
    for x in ast.walk(e):
        if isinstance(x, (ast.Call, ast.Await, ast.Yield, ast.YieldFrom, ast.NamedExpr, ast.Lambda, ast.ListComp, ast.SetComp,
                          ast.DictComp, ast.GeneratorExp)):
            return False
    return True


def _is_const(e: ast.AST) -> bool:
    if isinstance(e, ast.Constant):
        return True
    if isinstance(e, ast.UnaryOp) and isinstance(e.operand, ast.Constant):
        return True
    if isinstance(e, (ast.Tuple, ast.List)) and all(_is_const(x) for x in e.elts):
        return True
    return False


class _N2(ast.NodeTransformer):
    def visit_Compare(self, n):
        self.generic_visit(n)
        if len(n.ops) == 1 and isinstance(n.ops[0], SYM) and _is_const(n.left) and not _is_const(n.comparators[0]) \
                and pure(n.comparators[0]):
            n.left, n.comparators = n.comparators[0], [n.left]
        return n


def _blocks(node: ast.AST):
    for field in ('body', 'orelse', 'finalbody'):
        b = getattr(node, field, None)
        if isinstance(b, list) and b and isinstance(b[0], ast.stmt):
            yield field, b
    if isinstance(node, ast.Try):
        for h in node.handlers:
            yield 'handler', h.body
    if isinstance(node, ast.Match):     # pragma: no cover
        for c in node.cases:
            yield 'case', c.body


def _n1(tree: ast.AST):
    for node in ast.walk(tree):
        if isinstance(node, (ast.FunctionDef, ast.AsyncFunctionDef, ast.ClassDef)):
            b = node.body
            if b and isinstance(b[0], ast.Expr) and isinstance(b[0].value, ast.Constant) and isinstance(b[0].value.value, str):
                doc = b[0]
                node.body = b[1:] or [ast.copy_location(ast.Pass(), doc)]


def _n3_stmt(st: ast.stmt) -> ast.stmt:
    if isinstance(st, ast.Assign) and len(st.targets) == 1 and isinstance(st.value, ast.IfExp) and pure(st.targets[0]):
        v = st.value
        a = ast.copy_location(ast.Assign(targets=[_copy.deepcopy(st.targets[0])], value=v.body), st)
        b = ast.copy_location(ast.Assign(targets=[_copy.deepcopy(st.targets[0])], value=v.orelse), st)
        return ast.copy_location(ast.If(test=v.test, body=[a], orelse=[b]), st)
    if isinstance(st, ast.Return) and isinstance(st.value, ast.IfExp):
        v = st.value
        return ast.copy_location(ast.If(test=v.test, body=[ast.copy_location(ast.Return(value=v.body), st)],
                                        orelse=[ast.copy_location(ast.Return(value=v.orelse), st)]), st)
    return st


def _n3(tree: ast.AST):
    changed = True
    while changed:
        changed = False
        for node in ast.walk(tree):
            for field, b in _blocks(node):
                for i, st in enumerate(b):
                    new = _n3_stmt(st)
                    if new is not st:
                        b[i] = new
                        changed = True


def _n4_function(fn: ast.AST):
    stores: Dict[str, int] = {}
    loads: Dict[str, int] = {}
    for x in ast.walk(fn):
        if isinstance(x, ast.Name):
            d = stores if isinstance(x.ctx, (ast.Store, ast.Del)) else loads
            d[x.id] = d.get(x.id, 0) + 1
        elif isinstance(x, (ast.Global, ast.Nonlocal)):
            for nm in x.names:
                stores[nm] = 99
        elif isinstance(x, ast.ExceptHandler) and x.name:
            stores[x.name] = stores.get(x.name, 0) + 1
    a = fn.args
    params = {p.arg for p in a.posonlyargs + a.args + a.kwonlyargs}
    if a.vararg:
        params.add(a.vararg.arg)
    if a.kwarg:
        params.add(a.kwarg.arg)
    cand = {n for n, c in stores.items() if c == 1 and loads.get(n, 0) == 1 and n not in params}
    if not cand:
        return
    # names touched by nested scopes are left alone (closures read them later)
    for x in ast.walk(fn):
        if x is not fn and isinstance(x, (ast.FunctionDef, ast.AsyncFunctionDef, ast.Lambda, ast.ClassDef, ast.ListComp, ast.SetComp,
                                          ast.DictComp, ast.GeneratorExp)):
            for y in ast.walk(x):
                if isinstance(y, ast.Name):
                    cand.discard(y.id)
    if not cand:
        return

    def header_exprs(st: ast.stmt) -> List[ast.AST]:
        if isinstance(st, ast.If):
            return [st.test]
        if isinstance(st, ast.Return):
            return [st.value] if st.value is not None else []
        if isinstance(st, ast.Assign):
            return [st.value]
        if isinstance(st, ast.AugAssign):
            return [st.value]
        if isinstance(st, ast.Expr):
            return [st.value]
        if isinstance(st, ast.Raise):
            return [x for x in (st.exc, st.cause) if x is not None]
        if isinstance(st, ast.Assert):
            return [st.test]
        return []

    def block(stmts: List[ast.stmt]):
        i = 0
        while i < len(stmts) - 1:
            s = stmts[i]
            if isinstance(s, ast.Assign) and len(s.targets) == 1 and isinstance(s.targets[0], ast.Name) and s.targets[0].id in cand:
                v = s.targets[0].id
                nxt = stmts[i + 1]
                hs = header_exprs(nxt)
                uses = [x for h in hs for x in ast.walk(h) if isinstance(x, ast.Name) and x.id == v and isinstance(x.ctx, ast.Load)]
                whole = len(hs) >= 1 and isinstance(hs[0], ast.Name) and hs[0].id == v and not isinstance(nxt, (ast.AugAssign,))
                if len(uses) == 1 and (whole or pure(s.value)):
                    target = uses[0]

                    class Sub(ast.NodeTransformer):
                        def visit_Name(self_, n):
                            return s.value if n is target else n
                    if isinstance(nxt, ast.If):
                        nxt.test = Sub().visit(nxt.test)
                    elif isinstance(nxt, ast.Return):
                        nxt.value = Sub().visit(nxt.value)
                    elif isinstance(nxt, (ast.Assign, ast.AugAssign, ast.Expr)):
                        nxt.value = Sub().visit(nxt.value)
                    elif isinstance(nxt, ast.Raise):
                        if nxt.exc is not None:
                            nxt.exc = Sub().visit(nxt.exc)
                        if nxt.cause is not None:
                            nxt.cause = Sub().visit(nxt.cause)
                    elif isinstance(nxt, ast.Assert):
                        nxt.test = Sub().visit(nxt.test)
                    del stmts[i]
                    cand.discard(v)
                    if i > 0:
                        i -= 1          # the previous statement may now be an adjacent definition of something in this one
                    continue
            i += 1

    for node in ast.walk(fn):
        if node is not fn and isinstance(node, (ast.FunctionDef, ast.AsyncFunctionDef, ast.ClassDef)):
            continue
        for field, b in _blocks(node):
            block(b)


def _n4(tree: ast.AST):
    for fn in ast.walk(tree):
        if isinstance(fn, (ast.FunctionDef, ast.AsyncFunctionDef)):
            _n4_function(fn)


_NEG = {ast.NotEq: ast.Eq, ast.IsNot: ast.Is, ast.NotIn: ast.In}


def _n7(tree: ast.AST):
    for node in ast.walk(tree):
        if isinstance(node, ast.If) and node.orelse:
            t = node.test
            if isinstance(t, ast.UnaryOp) and isinstance(t.op, ast.Not):
                node.test = t.operand
                node.body, node.orelse = node.orelse, node.body
            elif isinstance(t, ast.Compare) and len(t.ops) == 1 and type(t.ops[0]) in _NEG:
                t.ops = [_NEG[type(t.ops[0])]()]
                node.body, node.orelse = node.orelse, node.body


def normalise(tree: ast.Module) -> ast.Module:
    _n1(tree)
    _N2().visit(tree)
    _n3(tree)
    _n4(tree)
    _n3(tree)           # an inlined temporary may have produced `t = a if c else b`
    _n7(tree)
    ast.fix_missing_locations(tree)
    return tree
