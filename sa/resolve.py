"""Type-lite inference and call graph for the package (no mypy available: DESIGN §2.2).

Types are strings:
  C:<class qual>   instance of a package class         T:<class qual>  the class object
  F:<func qual>    a package function / bound method    M:<module>      a package module
  X:<dotted>       something external (re, pickle ...)  b:<kind>        builtin value (dict, list, str ...)
  E:<type>         "my elements / dict values have <type>"   K:<type>   "my dict keys have <type>"
  P                an untyped parameter (external value)     ?          unknown
Flow-insensitive, intraprocedural, with a small fixed point for fields and returns.
"""
from __future__ import annotations

import ast
import builtins
import collections
from typing import Dict, List, Optional, Set, Tuple, Iterable

from .model import Repo, Module, ClassInfo, FuncInfo, AnalysisError, norm, walk_no_nested

TSet = Set[str]

_BUILTIN_KINDS = {
    'dict': 'dict', 'list': 'list', 'set': 'set', 'frozenset': 'frozenset', 'tuple': 'tuple', 'str': 'str',
    'bytes': 'bytes', 'int': 'int', 'float': 'float', 'bool': 'bool', 'deque': 'deque',
    'defaultdict': 'defaultdict', 'OrderedDict': 'dict', 'Counter': 'dict', 'object': 'object',
}
_ANN_CONTAINERS = {
    'List': 'list', 'Sequence': 'list', 'Collection': 'list', 'Iterable': 'list', 'Iterator': 'iterator',
    'Generator': 'iterator', 'Set': 'set', 'FrozenSet': 'frozenset', 'AbstractSet': 'set', 'Tuple': 'tuple',
    'Deque': 'deque', 'list': 'list', 'set': 'set', 'frozenset': 'frozenset', 'tuple': 'tuple',
    'MutableSequence': 'list',
}
_ANN_MAPS = {'Dict': 'dict', 'Mapping': 'dict', 'MutableMapping': 'dict', 'DefaultDict': 'defaultdict', 'dict': 'dict'}

# method names that also exist on builtin containers / re / logging / pickle / io objects: an untyped
# receiver calling one of these is NOT resolved by name (edge suppressed and counted).
BUILTINISH = set()
for _t in (list, dict, set, frozenset, str, bytes, tuple, collections.deque, collections.defaultdict, int, object):
    BUILTINISH |= set(dir(_t))
BUILTINISH |= {'match', 'search', 'fullmatch', 'group', 'end', 'start', 'compile', 'sub', 'warn', 'debug', 'info',
               'warning', 'exception', 'error', 'load', 'dump', 'dumps', 'loads', 'read', 'write', 'readline',
               'exists', 'hexdigest', 'getwidth', 'parse', 'getuser', 'gettempdir', 'setLevel', 'close',
               'span', 'groups', 'lastgroup', 'finditer', 'findall', 'open', 'items', 'keys', 'values', 'get',
               'add_node', 'add_edge', 'get_node', 'write_png', 'print_help', 'parse_args', 'add_argument'}
BUILTINISH -= {'parse'} if False else set()


def _mk(kind: str) -> str:
    return 'b:' + kind


class Typer:
    def __init__(self, repo: Repo, field_seeds: Optional[Dict[Tuple[str, str], Iterable[str]]] = None):
        self.repo = repo
        self.fields: Dict[Tuple[str, str], TSet] = collections.defaultdict(set)   # (class qual, attr) -> types
        self.globals_t: Dict[Tuple[str, str], TSet] = collections.defaultdict(set)  # (module, name) -> types
        self._env: Dict[str, Dict[str, TSet]] = {}
        self._ret: Dict[str, TSet] = {}
        self._ret_busy: Set[str] = set()
        self._lambda_funcs: Dict[int, FuncInfo] = {}
        self.param_extra: Dict[Tuple[str, str], TSet] = collections.defaultdict(set)   # (func qual, param) -> types
        self.seeds = field_seeds or {}
        self._init_fields()
        for _ in range(3):
            self._env.clear()
            self._ret.clear()
            self._collect_field_assignments()
        self._env.clear()
        self._ret.clear()

    # -- annotations -----------------------------------------------------------------------
    def ann_types(self, mod: Module, ann: Optional[ast.AST], func: Optional[FuncInfo] = None) -> TSet:
        if ann is None:
            return set()
        if isinstance(ann, ast.Constant):
            if ann.value is None:
                return {_mk('none')}
            if isinstance(ann.value, str):
                try:
                    return self.ann_types(mod, ast.parse(ann.value, mode='eval').body, func)
                except SyntaxError:
                    return set()
            return set()
        if isinstance(ann, ast.Name):
            if ann.id in ('Any', 'AnyStr', 'object'):
                return {'?'}
            if ann.id in ('Callable',):
                return {_mk('callable')}
            if ann.id in _BUILTIN_KINDS and self.repo.resolve_global(mod, ann.id) is None:
                return {_mk(_BUILTIN_KINDS[ann.id])}
            if ann.id in _ANN_CONTAINERS:
                return {_mk(_ANN_CONTAINERS[ann.id])}
            if ann.id in _ANN_MAPS:
                return {_mk(_ANN_MAPS[ann.id])}
            if ann.id == 'ModuleType':
                return {'X:module'}
            k = self.repo.resolve_class_expr(mod, ann, func)
            if k is not None:
                return {'C:' + k.qual}
            r = self.repo.resolve_global(mod, ann.id)
            if isinstance(r, tuple) and r[0] == 'const':   # type alias
                v = r[1]
                if isinstance(v, (ast.Subscript, ast.Name, ast.Constant, ast.Attribute, ast.BinOp)):
                    if not (isinstance(v, ast.Call)):
                        return self.ann_types(mod, v, func)
            return set()
        if isinstance(ann, ast.Attribute):
            k = self.repo.resolve_class_expr(mod, ann, func)
            if k is not None:
                return {'C:' + k.qual}
            return set()
        if isinstance(ann, ast.BinOp) and isinstance(ann.op, ast.BitOr):
            return self.ann_types(mod, ann.left, func) | self.ann_types(mod, ann.right, func)
        if isinstance(ann, ast.Subscript):
            head = ann.value
            hname = head.id if isinstance(head, ast.Name) else (head.attr if isinstance(head, ast.Attribute) else '')
            args = ann.slice.elts if isinstance(ann.slice, ast.Tuple) else [ann.slice]
            if hname == 'Optional':
                return self.ann_types(mod, args[0], func) | {_mk('none')}
            if hname == 'Union':
                out: TSet = set()
                for a in args:
                    out |= self.ann_types(mod, a, func)
                return out
            if hname in ('Type', 'type'):
                return {'T:' + t[2:] for t in self.ann_types(mod, args[0], func) if t.startswith('C:')}
            if hname in ('ClassVar', 'Final', 'Annotated'):
                return self.ann_types(mod, args[0], func)
            if hname == 'Literal':
                return {_mk('str')}
            if hname == 'Callable':
                return {_mk('callable')}
            if hname in _ANN_CONTAINERS:
                out = {_mk(_ANN_CONTAINERS[hname])}
                for a in args:
                    if isinstance(a, ast.Constant) and a.value is Ellipsis:
                        continue
                    out |= {'E:' + t for t in self.ann_types(mod, a, func) if not t.startswith(('E:', 'K:'))}
                return out
            if hname in _ANN_MAPS:
                out = {_mk(_ANN_MAPS[hname])}
                if len(args) == 2:
                    out |= {'K:' + t for t in self.ann_types(mod, args[0], func) if not t.startswith(('E:', 'K:'))}
                    out |= {'E:' + t for t in self.ann_types(mod, args[1], func) if not t.startswith(('E:', 'K:'))}
                return out
            # Generic package class: ParseTableBase[StateT], Tree[_Leaf_T]
            return self.ann_types(mod, head, func)
        return set()

    # -- fields ----------------------------------------------------------------------------
    def _init_fields(self):
        for c in self.repo.classes.values():
            for name, ann in c.annotations.items():
                ts = self.ann_types(c.module, ann)
                if ts:
                    self.fields[(c.qual, name)] |= ts
        for (cq, attr), ts in self.seeds.items():
            if cq not in self.repo.classes:
                raise AnalysisError('field seed names unknown class %s' % cq)
            self.fields[(cq, attr)] |= set(ts)

    def _collect_field_assignments(self):
        for f in list(self.repo.functions.values()):
            for n in f.body_nodes():
                targets = []
                if isinstance(n, ast.Assign):
                    targets = [(t, n.value) for t in n.targets]
                elif isinstance(n, ast.AnnAssign) and n.value is not None:
                    targets = [(n.target, n.value)]
                for tgt, val in targets:
                    if isinstance(tgt, ast.Attribute):
                        vt = {t for t in self.expr(f, val) if t not in ('?', 'P')}
                        if not vt:
                            continue
                        for rt in self.expr(f, tgt.value):
                            if rt.startswith('C:'):
                                self.fields[(rt[2:], tgt.attr)] |= vt
                    elif isinstance(tgt, ast.Subscript) and isinstance(tgt.value, ast.Name):
                        # module-level registry: _parser_creators['lalr'] = create_lalr_parser
                        pass
        for mod in self.repo.modules.values():
            for n in mod.tree.body:
                if isinstance(n, ast.Assign) and len(n.targets) == 1:
                    t = n.targets[0]
                    if isinstance(t, ast.Subscript) and isinstance(t.value, ast.Name) and t.value.id in mod.assigns:
                        vt = self._module_expr(mod, n.value)
                        self.globals_t[(mod.name, t.value.id)] |= {'E:' + x for x in vt if x[0] in 'CFT'}
                    elif isinstance(t, ast.Name):
                        self.globals_t[(mod.name, t.id)] |= self._module_expr(mod, n.value)
                elif isinstance(n, ast.AnnAssign) and isinstance(n.target, ast.Name):
                    self.globals_t[(mod.name, n.target.id)] |= self.ann_types(mod, n.annotation)

    def _module_expr(self, mod: Module, e: ast.AST) -> TSet:
        if isinstance(e, ast.Name):
            r = self.repo.resolve_global(mod, e.id)
            return self._denotation(r)
        if isinstance(e, ast.Call) and isinstance(e.func, ast.Name):
            r = self.repo.resolve_global(mod, e.func.id)
            if isinstance(r, ClassInfo):
                return {'C:' + r.qual}
            if e.func.id in _BUILTIN_KINDS:
                return {_mk(_BUILTIN_KINDS[e.func.id])}
        if isinstance(e, ast.Dict):
            return {_mk('dict')}
        if isinstance(e, (ast.List, ast.ListComp)):
            return {_mk('list')}
        return set()

    def _denotation(self, r) -> TSet:
        if isinstance(r, ClassInfo):
            return {'T:' + r.qual}
        if isinstance(r, FuncInfo):
            return {'F:' + r.qual}
        if isinstance(r, Module):
            return {'M:' + r.name}
        if isinstance(r, tuple) and r[0] == 'ext':
            return {'X:' + r[1]}
        return set()

    def field_types(self, cq: str, attr: str) -> TSet:
        k = self.repo.classes.get(cq)
        if k is None:
            return set()
        out: TSet = set()
        for c in k.mro():
            out |= self.fields.get((c.qual, attr), set())
        if not out:
            for c in k.all_subclasses():
                out |= self.fields.get((c.qual, attr), set())
        return out

    # -- environments ----------------------------------------------------------------------
    def lambda_func(self, owner: FuncInfo, node: ast.Lambda) -> FuncInfo:
        f = self._lambda_funcs.get(id(node))
        if f is None:
            f = FuncInfo(owner.module, node, None, owner)
            f.name = '<lambda@%d>' % node.lineno
            f.qualname = owner.qualname + '.' + f.name
            f.qual = '%s:%s' % (owner.module.name, f.qualname)
            self._lambda_funcs[id(node)] = f
            self.repo.functions.setdefault(f.qual, f)
            owner.lambdas.append(f)
        return f

    def env(self, f: FuncInfo) -> Dict[str, TSet]:
        e = self._env.get(f.qual)
        if e is not None:
            return e
        e = {}
        self._env[f.qual] = e
        if f.parent is not None:
            for k, v in self.env(f.parent).items():
                e[k] = set(v)
        owner = f.owner_class
        params = f.params()
        for i, p in enumerate(params):
            if i == 0 and f.cls is not None and not f.is_staticmethod and not isinstance(f.node, ast.Lambda):
                if f.is_classmethod or f.name == '__new__':
                    e[p.arg] = {'T:' + f.cls.qual}
                else:
                    e[p.arg] = {'C:' + f.cls.qual}
                continue
            ts = self.ann_types(f.module, p.annotation, f)
            a = f.node.args
            if a.vararg is p:
                ts = {_mk('tuple')}
            elif a.kwarg is p:
                ts = {_mk('dict')}
            if not ts and f.cls is not None:
                # inherit the annotation of the same parameter of an overridden base method
                for b in f.cls.mro()[1:]:
                    bm = b.methods.get(f.name)
                    if bm is not None:
                        for bp in bm.params():
                            if bp.arg == p.arg and bp.annotation is not None:
                                ts = self.ann_types(bm.module, bp.annotation, bm)
                        if ts:
                            break
            if not ts:
                ts = set(self.param_extra.get((f.qual, p.arg), ()))
                if ts:
                    ts = ts | {'P'}
            e[p.arg] = ts or {'P'}
        # defaults that are package objects refine untyped params
        a = f.node.args
        pos = list(a.posonlyargs) + list(a.args)
        for p, d in zip(pos[len(pos) - len(a.defaults):], a.defaults):
            if e.get(p.arg) == {'P'}:
                dt = {t for t in self.expr(f, d) if t[0] in 'CTF'}
                if dt:
                    e[p.arg] = dt | {'P'}
        for rnd in range(3):
            for n in f.body_nodes():
                self._bind_stmt(f, n, e)
            if rnd == 0:
                # isinstance(x, C) anywhere in the function: x may be a C (flow-insensitive narrowing)
                for n in f.body_nodes():
                    if isinstance(n, ast.Call) and isinstance(n.func, ast.Name) and n.func.id == 'isinstance' \
                            and len(n.args) == 2 and isinstance(n.args[0], ast.Name) and n.args[0].id in e:
                        cands = n.args[1].elts if isinstance(n.args[1], ast.Tuple) else [n.args[1]]
                        for c in cands:
                            k = self.repo.resolve_class_expr(f.module, c, f)
                            if k is not None:
                                e[n.args[0].id].add('C:' + k.qual)
                                e[n.args[0].id].discard('?')
        return e

    def _add(self, e: Dict[str, TSet], name: str, ts: TSet):
        cur = e.setdefault(name, set())
        if ts:
            cur |= ts
            if len(cur) > 1:
                cur.discard('?')
        elif not cur:
            cur.add('?')

    def _bind_target(self, f: FuncInfo, tgt: ast.AST, ts: TSet, e):
        if isinstance(tgt, ast.Name):
            self._add(e, tgt.id, ts)
        elif isinstance(tgt, (ast.Tuple, ast.List)):
            elems = {t[2:] for t in ts if t.startswith('E:')}
            keys = {t[2:] for t in ts if t.startswith('K:')}
            for i, el in enumerate(tgt.elts):
                if isinstance(el, ast.Starred):
                    el = el.value
                # (key, value) unpacking of dict items: first gets keys, second values
                if keys and len(tgt.elts) == 2:
                    self._bind_target(f, el, keys if i == 0 else elems, e)
                else:
                    self._bind_target(f, el, elems, e)

    def _bind_stmt(self, f: FuncInfo, n: ast.AST, e):
        if isinstance(n, ast.Assign):
            ts = self.expr(f, n.value, e)
            for t in n.targets:
                if isinstance(t, (ast.Tuple, ast.List)) and isinstance(n.value, (ast.Tuple, ast.List)) \
                        and len(t.elts) == len(n.value.elts):
                    for a, b in zip(t.elts, n.value.elts):
                        self._bind_target(f, a, self.expr(f, b, e), e)
                elif isinstance(t, (ast.Tuple, ast.List)):
                    # unpacking a call result etc.: elements of the value
                    self._bind_target(f, t, ts if any(x.startswith('E:') for x in ts) else set(), e)
                else:
                    self._bind_target(f, t, ts, e)
        elif isinstance(n, ast.AnnAssign):
            if isinstance(n.target, ast.Name):
                ts = self.ann_types(f.module, n.annotation, f)
                if n.value is not None:
                    ts = ts | {t for t in self.expr(f, n.value, e) if t not in ('?',)}
                self._add(e, n.target.id, ts)
        elif isinstance(n, ast.AugAssign):
            if isinstance(n.target, ast.Name):
                self._add(e, n.target.id, self.expr(f, n.value, e))
        elif isinstance(n, (ast.For, ast.AsyncFor, ast.comprehension)):
            self._bind_loop(f, n.target, n.iter, e)
        elif isinstance(n, (ast.With, ast.AsyncWith)):
            for it in n.items:
                if it.optional_vars is not None:
                    self._bind_target(f, it.optional_vars, {'?'}, e)
        elif isinstance(n, ast.ExceptHandler):
            if n.name:
                ts: TSet = set()
                if n.type is not None:
                    for te in (n.type.elts if isinstance(n.type, ast.Tuple) else [n.type]):
                        k = self.repo.resolve_class_expr(f.module, te, f)
                        if k is not None:
                            ts.add('C:' + k.qual)
                self._add(e, n.name, ts)
        elif isinstance(n, ast.NamedExpr):
            self._bind_target(f, n.target, self.expr(f, n.value, e), e)
        elif isinstance(n, (ast.FunctionDef, ast.AsyncFunctionDef)):
            if n.name in f.nested:
                self._add(e, n.name, {'F:' + f.nested[n.name].qual})
        elif isinstance(n, ast.ClassDef):
            if n.name in f.nested_classes:
                self._add(e, n.name, {'T:' + f.nested_classes[n.name].qual})
        elif isinstance(n, (ast.Import, ast.ImportFrom)):
            for a in n.names:
                local = (a.asname or a.name).split('.')[0]
                r = self.repo.resolve_global(f.module, local)
                self._add(e, local, self._denotation(r) or {'X:' + a.name})

    def _bind_loop(self, f: FuncInfo, target: ast.AST, it: ast.AST, e):
        if isinstance(target, (ast.Tuple, ast.List)) and isinstance(it, ast.Call):
            fn = it.func
            if isinstance(fn, ast.Name) and fn.id == 'enumerate' and it.args and len(target.elts) == 2:
                self._bind_target(f, target.elts[0], {_mk('int')}, e)
                self._bind_loop(f, target.elts[1], it.args[0], e)
                return
            if isinstance(fn, ast.Name) and fn.id == 'zip' and len(it.args) == len(target.elts):
                for el, a in zip(target.elts, it.args):
                    self._bind_loop(f, el, a, e)
                return
            if isinstance(fn, ast.Attribute) and fn.attr == 'items' and len(target.elts) == 2:
                ts = self.expr(f, fn.value, e)
                self._bind_target(f, target.elts[0], {t[2:] for t in ts if t.startswith('K:')}, e)
                self._bind_target(f, target.elts[1], {t[2:] for t in ts if t.startswith('E:')}, e)
                return
        if isinstance(target, (ast.Tuple, ast.List)):
            for el in target.elts:
                self._bind_target(f, el.value if isinstance(el, ast.Starred) else el, set(), e)
            return
        self._bind_target(f, target, self.iter_elem(f, it, e), e)

    def iter_elem(self, f: FuncInfo, it: ast.AST, e=None) -> TSet:
        ts = self.expr(f, it, e)
        out = {t[2:] for t in ts if t.startswith('E:')}
        keys = {t[2:] for t in ts if t.startswith('K:')}
        if any(t in ('b:dict', 'b:defaultdict') for t in ts) and keys:
            return keys
        # iterating an instance of a package class: __iter__ return annotation (rare)
        return out

    # -- expressions -----------------------------------------------------------------------
    def expr(self, f: FuncInfo, e: ast.AST, env=None) -> TSet:
        if env is None:
            env = self.env(f)
        r = self._expr(f, e, env)
        return r if r else {'?'}

    def _name(self, f: FuncInfo, name: str, env) -> TSet:
        if name in env:
            return env[name]
        r = self.repo.resolve_global(f.module, name)
        if r is not None and not (isinstance(r, tuple) and r[0] == 'const'):
            return self._denotation(r)
        g = self.globals_t.get((f.module.name, name))
        if g:
            return g
        if isinstance(r, tuple) and r[0] == 'const':
            return self._module_expr(f.module, r[1]) or {'?'}
        if name in _BUILTIN_KINDS:
            return {'T:b:' + _BUILTIN_KINDS[name]}
        if hasattr(builtins, name):
            return {'X:builtins.' + name}
        return set()

    def _attr(self, f: FuncInfo, recv: TSet, attr: str) -> TSet:
        out: TSet = set()
        for rt in recv:
            if rt.startswith('C:'):
                cq = rt[2:]
                k = self.repo.classes.get(cq)
                if k is None:
                    continue
                ft = self.field_types(cq, attr)
                out |= ft
                for m in k.dispatch(attr):
                    if m.is_property:
                        out |= self.returns(m)
                    else:
                        out.add('F:' + m.qual)
                ca = k.find_attr(attr)
                if ca is not None and not ft:
                    out |= self._class_attr_types(ca[0], ca[1])
            elif rt.startswith('T:') and not rt.startswith('T:b:'):
                k = self.repo.classes.get(rt[2:])
                if k is None:
                    continue
                m = k.find_method(attr)
                if m is not None:
                    out.add('F:' + m.qual)
                ca = k.find_attr(attr)
                if ca is not None:
                    out |= self._class_attr_types(ca[0], ca[1])
                for s in k.all_subclasses():     # cls.X where cls may be a subclass
                    if attr in s.methods:
                        out.add('F:' + s.methods[attr].qual)
            elif rt.startswith('M:'):
                m = self.repo.modules.get(rt[2:])
                if m is not None:
                    r = self.repo.resolve_global(m, attr)
                    if isinstance(r, tuple) and r[0] == 'const':
                        out |= self.globals_t.get((m.name, attr), set()) or self._module_expr(m, r[1])
                    else:
                        out |= self._denotation(r)
            elif rt.startswith('X:'):
                out.add(rt + '.' + attr)
        return out

    def _class_attr_types(self, k: ClassInfo, v: ast.AST) -> TSet:
        if isinstance(v, ast.Name):
            return self._denotation(self.repo.resolve_global(k.module, v.id))
        if isinstance(v, ast.Attribute):   # __hash__ = Rule.__hash__
            base = self.repo.resolve_class_expr(k.module, v.value)
            if base is not None:
                m = base.find_method(v.attr)
                if m is not None:
                    return {'F:' + m.qual}
        if isinstance(v, ast.Constant):
            return {_mk(type(v.value).__name__.replace('NoneType', 'none'))}
        if isinstance(v, ast.Call) and isinstance(v.func, ast.Name):
            r = self.repo.resolve_global(k.module, v.func.id)
            if isinstance(r, ClassInfo):
                return {'C:' + r.qual}
        return set()

    def _elems_of(self, ts: TSet) -> TSet:
        return {t for t in ts if t.startswith(('E:', 'K:'))}

    def _expr(self, f: FuncInfo, e: ast.AST, env) -> TSet:
        if isinstance(e, ast.Name):
            return set(self._name(f, e.id, env))
        if isinstance(e, ast.Constant):
            v = e.value
            if v is None:
                return {_mk('none')}
            return {_mk(type(v).__name__)}
        if isinstance(e, ast.Attribute):
            return self._attr(f, self._expr(f, e.value, env), e.attr)
        if isinstance(e, ast.Call):
            return self._call_types(f, e, env)
        if isinstance(e, (ast.Dict, ast.DictComp)):
            out = {_mk('dict')}
            if isinstance(e, ast.Dict):
                for k, v in zip(e.keys, e.values):
                    if v is not None:
                        out |= {'E:' + t for t in self._expr(f, v, env) if t[0] in 'CTF'}
            else:
                sub = dict(env)
                for g in e.generators:
                    self._bind_stmt(f, g, sub)
                out |= {'E:' + t for t in self._expr(f, e.value, sub) if t[0] in 'CTF'}
                out |= {'K:' + t for t in self._expr(f, e.key, sub) if t[0] in 'CTF'}
            return out
        if isinstance(e, (ast.List, ast.Tuple, ast.Set)):
            kind = {'List': 'list', 'Tuple': 'tuple', 'Set': 'set'}[type(e).__name__]
            out = {_mk(kind)}
            for el in e.elts:
                if isinstance(el, ast.Starred):
                    out |= self._elems_of(self._expr(f, el.value, env))
                else:
                    out |= {'E:' + t for t in self._expr(f, el, env) if t[0] in 'CTF'}
            return out
        if isinstance(e, (ast.ListComp, ast.SetComp, ast.GeneratorExp)):
            kind = {'ListComp': 'list', 'SetComp': 'set', 'GeneratorExp': 'iterator'}[type(e).__name__]
            sub = dict(env)
            for g in e.generators:
                self._bind_stmt(f, g, sub)
            return {_mk(kind)} | {'E:' + t for t in self._expr(f, e.elt, sub) if t[0] in 'CTF'}
        if isinstance(e, ast.IfExp):
            return self._expr(f, e.body, env) | self._expr(f, e.orelse, env)
        if isinstance(e, ast.BoolOp):
            out: TSet = set()
            for v in e.values:
                out |= self._expr(f, v, env)
            return out
        if isinstance(e, ast.Subscript):
            base = self._expr(f, e.value, env)
            if isinstance(e.slice, ast.Slice):
                return base
            out = {t[2:] for t in base if t.startswith('E:')}
            return out
        if isinstance(e, ast.BinOp):
            l = self._expr(f, e.left, env)
            r = self._expr(f, e.right, env)
            keep = {t for t in l | r if t.startswith(('b:', 'E:', 'K:'))}
            return keep or {'?'}
        if isinstance(e, ast.UnaryOp):
            return {_mk('bool')} if isinstance(e.op, ast.Not) else self._expr(f, e.operand, env)
        if isinstance(e, ast.Compare):
            return {_mk('bool')}
        if isinstance(e, ast.JoinedStr):
            return {_mk('str')}
        if isinstance(e, ast.Lambda):
            return {'F:' + self.lambda_func(f, e).qual}
        if isinstance(e, ast.Starred):
            return self._expr(f, e.value, env)
        if isinstance(e, ast.NamedExpr):
            return self._expr(f, e.value, env)
        if isinstance(e, (ast.Yield, ast.YieldFrom, ast.Await)):
            return {'?'}
        return set()

    def returns(self, m: FuncInfo) -> TSet:
        r = self._ret.get(m.qual)
        if r is not None:
            return r
        if m.qual in self._ret_busy:
            return set()
        self._ret_busy.add(m.qual)
        try:
            node = m.node
            out: TSet = set()
            if isinstance(node, ast.Lambda):
                out = set(self.expr(m, node.body))
            else:
                out = self.ann_types(m.module, node.returns, m)
                if not out:
                    is_gen = False
                    for n in m.body_nodes():
                        if isinstance(n, (ast.Yield, ast.YieldFrom)):
                            is_gen = True
                    if is_gen:
                        out = {_mk('iterator')}
                        for n in m.body_nodes():
                            if isinstance(n, ast.Yield) and n.value is not None:
                                out |= {'E:' + t for t in self.expr(m, n.value) if t[0] in 'CTF'}
                    else:
                        for n in m.body_nodes():
                            if isinstance(n, ast.Return) and n.value is not None:
                                out |= {t for t in self.expr(m, n.value) if t != '?'}
            self._ret[m.qual] = out
            return out
        finally:
            self._ret_busy.discard(m.qual)

    def _call_types(self, f: FuncInfo, e: ast.Call, env) -> TSet:
        fn = e.func
        # type(x)(...)  /  type(x)
        if isinstance(fn, ast.Call) and isinstance(fn.func, ast.Name) and fn.func.id == 'type' and fn.args:
            return {t for t in self._expr(f, fn.args[0], env) if t.startswith('C:')}
        if isinstance(fn, ast.Name):
            nm = fn.id
            if nm not in env:
                if nm == 'type' and len(e.args) == 1:
                    return {'T:' + t[2:] for t in self._expr(f, e.args[0], env) if t.startswith('C:')}
                if nm in ('copy', 'deepcopy') and e.args:
                    return self._expr(f, e.args[0], env)
                if nm in ('list', 'sorted', 'tuple', 'set', 'frozenset', 'reversed', 'iter', 'deque', 'enumerate'):
                    kind = {'sorted': 'list', 'reversed': 'iterator', 'iter': 'iterator', 'enumerate': 'iterator'}.get(nm, nm)
                    out = {_mk(kind)}
                    if e.args:
                        a = self._expr(f, e.args[0], env)
                        els = {t for t in a if t.startswith('E:')}
                        if any(t in ('b:dict', 'b:defaultdict') for t in a):
                            els = {'E:' + t[2:] for t in a if t.startswith('K:')} or els
                        out |= els
                    return out
                if nm == 'next' and e.args:
                    a = self._expr(f, e.args[0], env)
                    out = {t[2:] for t in a if t.startswith('E:')}
                    if len(e.args) > 1:
                        out |= self._expr(f, e.args[1], env)
                    return out
                if nm == 'getattr' and len(e.args) >= 2 and isinstance(e.args[1], ast.Constant) \
                        and isinstance(e.args[1].value, str):
                    out = self._attr(f, self._expr(f, e.args[0], env), e.args[1].value)
                    if len(e.args) > 2:
                        out |= self._expr(f, e.args[2], env)
                    return out
                if nm in ('dict', 'defaultdict'):
                    return {_mk(nm)}
                if nm in ('str', 'int', 'bool', 'float', 'bytes', 'len', 'repr', 'hash', 'id', 'isinstance',
                          'hasattr', 'callable', 'any', 'all', 'sum', 'max', 'min', 'abs', 'ord', 'chr'):
                    if nm in ('max', 'min') and e.args:
                        a = self._expr(f, e.args[0], env)
                        return {t[2:] for t in a if t.startswith('E:')} or {_mk('int')}
                    return {_mk({'len': 'int', 'repr': 'str', 'hash': 'int', 'id': 'int', 'isinstance': 'bool',
                                 'hasattr': 'bool', 'callable': 'bool', 'any': 'bool', 'all': 'bool',
                                 'sum': 'int', 'abs': 'int', 'ord': 'int', 'chr': 'str'}.get(nm, nm))}
                if nm == 'partial' and e.args:
                    return {t for t in self._expr(f, e.args[0], env) if t[0] in 'FT'} | {_mk('callable')}
                if nm == 'cast' and len(e.args) == 2:
                    return self._expr(f, e.args[1], env)
                if nm == 'super':
                    k = f.owner_class
                    return {'S:' + k.qual} if k is not None else set()
            callee = self._name(f, nm, env)
        elif isinstance(fn, ast.Attribute):
            recv = self._expr(f, fn.value, env)
            # super().m(...)
            sup = [t for t in recv if t.startswith('S:')]
            if sup:
                out: TSet = set()
                k = self.repo.classes.get(sup[0][2:])
                if k is not None:
                    for b in k.mro()[1:]:
                        if fn.attr in b.methods:
                            out |= self.returns(b.methods[fn.attr])
                            break
                    if fn.attr == '__new__':
                        out.add('C:' + k.qual)
                return out
            # container methods keep element knowledge
            if any(t.startswith('b:') for t in recv):
                a = fn.attr
                els = {t for t in recv if t.startswith('E:')}
                keys = {t for t in recv if t.startswith('K:')}
                if a in ('values',):
                    return {_mk('list')} | els
                if a in ('keys',):
                    return {_mk('list')} | {'E:' + t[2:] for t in keys}
                if a in ('items',):
                    return {_mk('list')} | els | keys
                if a in ('get', 'pop', 'setdefault', 'popleft'):
                    out = {t[2:] for t in els}
                    if a in ('get', 'setdefault', 'pop') and len(e.args) > 1:
                        out |= self._expr(f, e.args[1], env)
                    if out:
                        return out
                if a in ('copy', 'union', 'intersection', 'difference'):
                    return set(recv)
                if not any(t[0] in 'CTSMX' for t in recv):
                    if a in ('join', 'format', 'strip', 'rstrip', 'lstrip', 'upper', 'lower', 'replace', 'decode',
                             'encode', 'expandtabs'):
                        return {_mk('str')}
                    if a in ('split', 'rsplit', 'splitlines'):
                        return {_mk('list')}
                    if a in ('count', 'index', 'rindex', 'find', 'rfind'):
                        return {_mk('int')}
                    if a in ('startswith', 'endswith', 'isupper', 'islower', 'isascii'):
                        return {_mk('bool')}
                    return set()
            if fn.attr == '__new__':
                out = set()
                for t in recv:
                    if t.startswith('T:'):
                        out.add('C:' + t[2:])
                if out:
                    return out
            callee = self._attr(f, recv, fn.attr)
            # K.classmethod(...) that builds and returns an instance of `cls`: the result is a K
            extra: TSet = set()
            for t in recv:
                if t.startswith('T:') and not t.startswith('T:b:'):
                    k = self.repo.classes.get(t[2:])
                    m = k.find_method(fn.attr) if k is not None else None
                    if m is not None and m.is_classmethod and m.cls is not None:
                        rt = self.returns(m)
                        if ('C:' + m.cls.qual) in rt:
                            extra.add('C:' + k.qual)
            if extra:
                base = set()
                for t in callee:
                    if t.startswith('F:'):
                        mm = self.repo.functions.get(t[2:])
                        if mm is not None and mm.name != '__init__':
                            base |= {x for x in self.returns(mm)
                                     if not (mm.cls is not None and x == 'C:' + mm.cls.qual)}
                return base | extra
        else:
            callee = self._expr(f, fn, env)
        out: TSet = set()
        for t in callee:
            if t.startswith('T:b:'):
                out.add('b:' + t[4:])
            elif t.startswith('T:'):
                out.add('C:' + t[2:])
            elif t.startswith('F:'):
                m = self.repo.functions.get(t[2:])
                if m is not None:
                    if m.name == '__init__':
                        continue
                    out |= self.returns(m)
            elif t.startswith('X:'):
                out.add(t + '()')
        return out


def dispatch_shapes(f: FuncInfo, call: ast.Call) -> List[str]:
    """Name-independent descriptions of a dynamic call site, most specific first (keys of the dispatch table):
       self.<field>            call of a callable held in a field of self (field names are part of the class's interface)
       [<x>.type]              call of <mapping>[<something>.type]      (a callback selected by token type)
       [*]                     call of any other subscripted mapping
       closure                 call of a local of an enclosing function (a captured callable)"""
    fn = call.func
    out: List[str] = []
    if isinstance(fn, ast.Attribute) and isinstance(fn.value, ast.Name) and fn.value.id == (f.self_name() or 'self'):
        out.append('self.' + fn.attr)
    if isinstance(fn, ast.Subscript):
        base = fn.value
        if isinstance(base, ast.Attribute) and isinstance(base.value, ast.Name) and base.value.id == (f.self_name() or 'self'):
            pre = 'self.%s' % base.attr
        else:
            pre = ''
        sl = fn.slice
        if isinstance(sl, ast.Attribute) and sl.attr == 'type':
            out.append(pre + '[<x>.type]')
        else:
            out.append(pre + '[*]')
    if isinstance(fn, ast.Name) and f.parent is not None and fn.id not in f.param_names():
        own = {x.id for x in f.body_nodes() if isinstance(x, ast.Name) and isinstance(x.ctx, ast.Store)}
        if fn.id not in own:
            out.append('closure')
    return out


class CallSite:
    __slots__ = ('func', 'node', 'targets', 'kind', 'text')

    def __init__(self, func: FuncInfo, node: ast.AST, targets: List[FuncInfo], kind: str, text: str):
        self.func = func
        self.node = node
        self.targets = targets
        self.kind = kind          # resolved | external | suppressed | byname | dispatch | unknown | builtin | implicit
        self.text = text


class CallGraph:
    """Call graph over package functions.  `dispatch` maps (function qual, callee text) to explicit
    targets for the finite set of dynamic dispatch points (DESIGN §2.2)."""

    def __init__(self, repo: Repo, typer: Typer, dispatch: Optional[Dict[Tuple[str, str], List[str]]] = None):
        self.repo = repo
        self.typer = typer
        self.dispatch = dispatch or {}
        self.sites: Dict[str, List[CallSite]] = {}
        self.stats = collections.Counter()
        self.unfollowed_getattr: List[str] = []
        for q in list(repo.functions):
            self._build(repo.functions[q])
        # lambdas registered while building
        for q in list(repo.functions):
            if q not in self.sites:
                self._build(repo.functions[q])

    def _ctor_targets(self, k: ClassInfo) -> List[FuncInfo]:
        out = []
        for name in ('__new__', '__init__', '__post_init__'):
            m = k.find_method(name)
            if m is not None:
                out.append(m)
        return out

    def _targets_of_types(self, ts: TSet) -> Tuple[List[FuncInfo], bool]:
        out: List[FuncInfo] = []
        ext = False
        for t in ts:
            if t.startswith('F:'):
                m = self.repo.functions.get(t[2:])
                if m is not None and m not in out:
                    out.append(m)
            elif t.startswith('T:') and not t.startswith('T:b:'):
                k = self.repo.classes.get(t[2:])
                if k is not None:
                    for m in self._ctor_targets(k):
                        if m not in out:
                            out.append(m)
            elif t.startswith('C:'):
                k = self.repo.classes.get(t[2:])
                if k is not None:
                    for m in k.dispatch('__call__'):
                        if m not in out:
                            out.append(m)
            elif t in ('P', 'b:callable'):
                ext = True
        return out, ext

    def _build(self, f: FuncInfo):
        sites: List[CallSite] = []
        self.sites[f.qual] = sites
        ty = self.typer
        env = ty.env(f)
        if isinstance(f.node, ast.Lambda):
            nodes = list(ast.walk(f.node.body))
        else:
            nodes = [n for n in f.body_nodes()]
        lambda_inner = set()
        for n in nodes:
            if isinstance(n, ast.Lambda) and n is not f.node:
                lf = ty.lambda_func(f, n)
                for sub in ast.walk(n.body):
                    lambda_inner.add(id(sub))
                # creating a lambda is a potential call of it (conservative: callbacks)
                sites.append(CallSite(f, n, [lf], 'resolved', '<lambda>'))
        for n in nodes:
            if id(n) in lambda_inner:
                continue
            # comprehension variables: refine env locally
            if isinstance(n, ast.Attribute) and isinstance(n.ctx, ast.Load):
                recv = ty.expr(f, n.value, self._local_env(f, n, env))
                for rt in recv:
                    if rt.startswith('C:'):
                        k = self.repo.classes.get(rt[2:])
                        if k is None:
                            continue
                        for m in k.dispatch(n.attr):
                            if m.is_property:
                                sites.append(CallSite(f, n, [m], 'resolved', norm(n)))
            if isinstance(n, ast.Call):
                self._call(f, n, self._local_env(f, n, env), sites)
            elif isinstance(n, (ast.For, ast.comprehension)):
                self._implicit(f, n.iter, '__iter__', sites, env, n)
            elif isinstance(n, ast.Compare):
                for op, right in zip(n.ops, n.comparators):
                    if isinstance(op, (ast.In, ast.NotIn)):
                        self._implicit(f, right, '__contains__', sites, env, n)
                    elif isinstance(op, (ast.Eq, ast.NotEq)):
                        self._implicit(f, n.left, '__eq__', sites, env, n)
            elif isinstance(n, (ast.With, ast.AsyncWith)):
                for it in n.items:
                    self._implicit(f, it.context_expr, '__enter__', sites, env, n)
            elif isinstance(n, ast.BinOp) and isinstance(n.op, ast.Mult):
                self._implicit(f, n.left, '__mul__', sites, env, n)

    def _local_env(self, f: FuncInfo, n: ast.AST, env):
        return env

    def _visible(self, mod: Module, k: ClassInfo) -> bool:
        """Is class k (or a base / subclass of it) defined in or imported into module mod?"""
        fam = set(k.mro()) | set(k.all_subclasses())
        for c in fam:
            if c.module is mod and c.owner_func is None:
                return True
        for local, (m, attr) in mod.imports.items():
            if attr is None:
                continue
            r = self.repo.resolve_global(mod, local)
            if isinstance(r, ClassInfo) and r in fam:
                return True
        return False

    def _implicit(self, f, e, dunder, sites, env, node):
        for rt in self.typer.expr(f, e, env):
            if rt.startswith('C:'):
                k = self.repo.classes.get(rt[2:])
                if k is not None:
                    ms = k.dispatch(dunder)
                    if ms:
                        sites.append(CallSite(f, node, ms, 'implicit', '%s.%s' % (norm(e), dunder)))

    def _call(self, f: FuncInfo, n: ast.Call, env, sites: List[CallSite]):
        ty = self.typer
        fn = n.func
        text = norm(fn)
        # function-valued arguments: the callee may call them
        for a in list(n.args) + [k.value for k in n.keywords]:
            if isinstance(a, (ast.Name, ast.Attribute)):
                ats = ty.expr(f, a, env)
                tg = [self.repo.functions[t[2:]] for t in ats if t.startswith('F:') and t[2:] in self.repo.functions]
                tg = [m for m in tg if not m.is_property]
                if tg:
                    sites.append(CallSite(f, a, tg, 'resolved', 'arg:' + norm(a)))
        key = None
        for shape in dispatch_shapes(f, n):
            if (f.qual, shape) in self.dispatch:
                key = (f.qual, shape)
                break
        if key is not None:
            tg = []
            for q in self.dispatch[key]:
                if q == 'EXTERNAL':
                    continue
                tg.append(self.repo.func(q))
            sites.append(CallSite(f, n, tg, 'dispatch', key[1]))
            self.stats['dispatch'] += 1
            return
        if isinstance(fn, ast.Name):
            nm = fn.id
            if nm in ('copy', 'deepcopy') and nm not in env and n.args:
                self._implicit(f, n.args[0], '__copy__' if nm == 'copy' else '__deepcopy__', sites, env, n)
            if nm in ('len', 'iter', 'list', 'sorted', 'set', 'tuple', 'frozenset', 'reversed', 'hash', 'bool',
                      'repr', 'str', 'next') and nm not in env and n.args:
                d = {'len': '__len__', 'hash': '__hash__', 'bool': '__bool__', 'repr': '__repr__', 'str': '__str__',
                     'next': '__next__'}.get(nm, '__iter__')
                self._implicit(f, n.args[0], d, sites, env, n)
            if nm == 'getattr' and nm not in env and len(n.args) >= 2 and not isinstance(n.args[1], ast.Constant):
                self.unfollowed_getattr.append('%s: %s' % (f.loc(n), norm(n)))
            if nm in ('setattr',) and nm not in env and len(n.args) >= 2 and not isinstance(n.args[1], ast.Constant):
                self.unfollowed_getattr.append('%s: %s' % (f.loc(n), norm(n)))
            ts = ty.expr(f, fn, env)
            tg, ext = self._targets_of_types(ts)
            if tg:
                sites.append(CallSite(f, n, tg, 'resolved', text))
                self.stats['resolved'] += 1
            elif any(t.startswith('T:') and not t.startswith('T:b:') for t in ts):
                # package class without a package-defined constructor (e.g. exception classes)
                sites.append(CallSite(f, n, [], 'resolved', text))
                self.stats['resolved'] += 1
            elif ext or ts <= {'P', '?'} and nm in env:
                sites.append(CallSite(f, n, [], 'external', text))
                self.stats['external'] += 1
            elif hasattr(builtins, nm) or any(t.startswith(('X:', 'T:b:')) for t in ts):
                self.stats['builtin'] += 1
            else:
                sites.append(CallSite(f, n, [], 'unknown', text))
                self.stats['unknown'] += 1
            return
        if isinstance(fn, ast.Attribute):
            recv = ty.expr(f, fn.value, env)
            nm = fn.attr
            sup = [t for t in recv if t.startswith('S:')]
            if sup:
                k = self.repo.classes.get(sup[0][2:])
                tg = []
                if k is not None:
                    for b in k.mro()[1:]:
                        if nm in b.methods:
                            tg = [b.methods[nm]]
                            break
                sites.append(CallSite(f, n, tg, 'resolved' if tg else 'builtin', text))
                self.stats['resolved'] += 1
                return
            ts = ty._attr(f, recv, nm)
            tg, ext = self._targets_of_types(ts)
            typed_recv = any(t[0] in 'CTM' and not t.startswith('T:b:') for t in recv)
            if tg:
                sites.append(CallSite(f, n, tg, 'resolved', text))
                self.stats['resolved'] += 1
                return
            if typed_recv and not ext:
                # typed receiver without such a method: field holding an unknown callable, or a
                # method of an external base class
                fieldish = any(t in ('P', '?', 'b:callable') for t in ts) or not ts
                sites.append(CallSite(f, n, [], 'external' if fieldish else 'builtin', text))
                self.stats['external' if fieldish else 'builtin'] += 1
                return
            if ext and not recv <= {'P', '?'}:
                sites.append(CallSite(f, n, [], 'external', text))
                self.stats['external'] += 1
                return
            if any(t.startswith(('b:', 'X:', 'E:', 'K:')) for t in recv) and not any(t in ('P', '?') for t in recv):
                self.stats['builtin'] += 1
                return
            # untyped receiver
            cands = [m for m in self.repo.functions.values() if m.cls is not None and m.name == nm]
            visible = [m for m in cands if self._visible(f.module, m.cls)]
            if visible:
                cands = visible
            if not cands:
                if any(t in ('P',) for t in recv):
                    sites.append(CallSite(f, n, [], 'external', text))
                    self.stats['external'] += 1
                else:
                    self.stats['builtin'] += 1
                return
            if nm in BUILTINISH:
                sites.append(CallSite(f, n, [], 'suppressed', text))
                self.stats['suppressed_by_builtin_name'] += 1
                return
            sites.append(CallSite(f, n, cands, 'byname', text))
            self.stats['byname'] += 1
            return
        # computed callee: subscript / call result
        ts = ty.expr(f, fn, env)
        tg, ext = self._targets_of_types(ts)
        if tg:
            sites.append(CallSite(f, n, tg, 'resolved', text))
            self.stats['resolved'] += 1
        else:
            sites.append(CallSite(f, n, [], 'external', text))
            self.stats['external'] += 1

    def propagate_args(self) -> int:
        """One round of call-site -> parameter type propagation for untyped parameters.
        Returns the number of (function, parameter) pairs that gained a type."""
        ty = self.typer
        gained = 0
        for sites in self.sites.values():
            for s in sites:
                if not isinstance(s.node, ast.Call) or s.kind not in ('resolved', 'dispatch'):
                    continue
                env = ty.env(s.func)
                for t in s.targets:
                    if isinstance(t.node, ast.Lambda):
                        continue
                    names = t.positional_names()
                    if t.name in ('__init__', '__new__', '__post_init__') or (t.cls is not None and not t.is_staticmethod):
                        pass
                    a = t.node.args
                    annotated = {p.arg for p in t.params() if p.annotation is not None}
                    binds = []
                    for i, arg in enumerate(s.node.args):
                        if isinstance(arg, ast.Starred):
                            break
                        if i < len(names):
                            binds.append((names[i], arg))
                    allnames = set(t.param_names())
                    for kw in s.node.keywords:
                        if kw.arg and kw.arg in allnames:
                            binds.append((kw.arg, kw.value))
                    for pname, arg in binds:
                        if pname in annotated:
                            continue
                        ats = {x for x in ty.expr(s.func, arg, env) if x[0] in 'CTF' or x.startswith(('E:C', 'E:F', 'E:T', 'K:C'))}
                        if not ats:
                            continue
                        cur = ty.param_extra[(t.qual, pname)]
                        if not ats <= cur:
                            cur |= ats
                            gained += 1
        return gained

    # -- queries ---------------------------------------------------------------------------
    def callees(self, f: FuncInfo) -> List[FuncInfo]:
        out = []
        for s in self.sites.get(f.qual, []):
            for t in s.targets:
                if t not in out:
                    out.append(t)
        return out

    def reach(self, entries: Iterable[str], stop: Iterable[str] = ()) -> Dict[str, Optional[str]]:
        """qual -> predecessor qual (None for entries); BFS so predecessor chains are shortest paths."""
        stop = set(stop)
        pred: Dict[str, Optional[str]] = {}
        work = collections.deque()
        for q in entries:
            self.repo.func(q)
            pred[q] = None
            work.append(q)
        while work:
            q = work.popleft()
            f = self.repo.functions[q]
            for t in self.callees(f):
                if t.qual not in pred and t.qual not in stop:
                    pred[t.qual] = q
                    work.append(t.qual)
        return pred

    def path_to(self, pred: Dict[str, Optional[str]], q: str) -> List[str]:
        out = [q]
        while pred.get(out[-1]) is not None:
            out.append(pred[out[-1]])  # type: ignore[arg-type]
        return list(reversed(out))

    def callers_of(self, target_qual: str) -> List[CallSite]:
        idx = getattr(self, '_callers_idx', None)
        if idx is None:
            idx = {}
            for sites in self.sites.values():
                for s in sites:
                    for t in s.targets:
                        idx.setdefault(t.qual, []).append(s)
            self._callers_idx = idx
        return idx.get(target_qual, [])
