from __future__ import annotations

import argparse
import os
import sys


def main(argv=None) -> int:
    ap = argparse.ArgumentParser(prog='check')
    ap.add_argument('property')
    ap.add_argument('--tier', default=os.environ.get('VERIF_TIER') or 'quick', choices=['quick', 'thorough'])
    ap.add_argument('--replay', default=None)
    a = ap.parse_args(argv)
    from .runner import run_property
    return run_property(a.property, a.tier, a.replay)


if __name__ == '__main__':
    try:
        rc = main()
    except SystemExit:
        raise
    except BaseException as e:   # never a bare traceback with exit 1
        import traceback
        print('ANALYSIS-ERROR internal: %s' % traceback.format_exc())
        rc = 2
    sys.stdout.flush()
    sys.exit(rc)
