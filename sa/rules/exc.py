"""R-EXC-DISCIPLINE [C08]: which exception classes can leave parse(), and whether any is swallowed.

Every `raise` in a function reachable from Lark.parse is resolved to a class: it must be a subclass of
UnexpectedInput or sit in the frozen table below with a category and a reason.  Every handler on that
path that catches UnexpectedInput / Exception / everything must re-raise, unless tabled.  Implicit
exceptions (KeyError, RecursionError ...) are not modelled.
"""
from __future__ import annotations

import ast
from typing import Dict, List, Optional, Set, Tuple

from ..model import Repo, ClassInfo, FuncInfo, AnalysisError, norm, parent, ancestors, enclosing_stmt, const_str
from ..report import Ctx, RuleResult
from ..exprs import has_pat, find_pat

UI = 'lark.exceptions:UnexpectedInput'

# (function qual, raised class name) -> (category, reason)
TABLE: Dict[Tuple[str, str], Tuple[str, str]] = {
    ('lark.lark:Lark.parse', 'NotImplementedError'): ('CONFIG', 'on_error with a non-LALR parser: independent of the text'),
    ('lark.parser_frontends:ParsingFrontend.parse', 'TypeError'): ('CONFIG', 'a partial TextSlice with a dynamic lexer: about the argument type'),
    ('lark.parser_frontends:ParsingFrontend._verify_start', 'ConfigurationError'): ('CONFIG', 'unknown / missing start symbol'),
    ('lark.lexer:LexerThread.lex', 'TypeError'): ('CONFIG', 'no text was given to the lexer thread'),
    ('lark.lexer:LexerState.__init__', 'ValueError'): ('CONFIG', 'line counter outside the window: caller error'),
    ('lark.utils:TextSlice.__post_init__', 'TypeError'): ('CONFIG', 'text is neither str nor bytes'),
    ('lark.parser_frontends:_wrap_lexer.CustomLexerWrapper0.lex', 'TypeError'): ('CONFIG', 'custom lexer given a partial TextSlice'),
    ('lark.parser_frontends:_wrap_lexer.CustomLexerWrapper1.lex', 'TypeError'): ('CONFIG', 'custom lexer given a partial TextSlice'),
    ('lark.lexer:BasicLexer.next_token', 'EOFError'): ('CONTROL', 'end-of-input signal; every caller of next_token catches it (checked)'),
    ('lark.lexer:BasicLexer.next_token', 'LexError'): ('USER', 'a lexer callback returned something that is not a Token'),
    ('lark.indenter:Indenter.handle_NL', 'DedentError'): ('DOCUMENTED', 'C18: dedent to a column that is not an open level'),
    ('lark.parsers.cyk:Parser.parse', 'ParseError'): ('DOCUMENTED', 'CYK reports rejection as ParseError without position (stated by C08)'),
    ('lark.parsers.cyk:CnfWrapper.__init__', 'ParseError'): ('CONFIG', 'grammar property (empty rules), raised at construction'),
    ('lark.parsers.earley:Parser.parse', 'RuntimeError'): ('INTERNAL', '"please report this bug" invariant'),
    ('lark.parse_tree_builder:apply_visit_wrapper', 'NotImplementedError'): ('USER', 'embedded transformer uses meta args'),
    ('lark.lexer:Lexer.search_start', 'ConfigurationError'): ('CONFIG', 'scan() with a custom lexer'),
    ('lark.indenter:Indenter.NL_type', 'NotImplementedError'): ('USER', 'abstract property of the user\'s Indenter subclass'),
    ('lark.indenter:Indenter.OPEN_PAREN_types', 'NotImplementedError'): ('USER', 'abstract property'),
    ('lark.indenter:Indenter.CLOSE_PAREN_types', 'NotImplementedError'): ('USER', 'abstract property'),
    ('lark.indenter:Indenter.INDENT_type', 'NotImplementedError'): ('USER', 'abstract property'),
    ('lark.indenter:Indenter.DEDENT_type', 'NotImplementedError'): ('USER', 'abstract property'),
    ('lark.indenter:Indenter.tab_len', 'NotImplementedError'): ('USER', 'abstract property'),
    ('lark.parsers.earley_forest:ForestToPyDotVisitor.visit', 'FileNotFoundError'): ('INTERNAL', 'debug graph output'),
    ('lark.lark:LarkOptions.__getattr__', 'AttributeError'): ('INTERNAL', 'attribute protocol'),
    ('lark.lexer:Token.__new__', 'TypeError'): ('CONFIG', 'both type and type_ given'),
    ('lark.lexer:Token.update', 'TypeError'): ('CONFIG', 'both type and type_ given'),
    ('lark.lexer:Pattern.to_regexp', 'NotImplementedError'): ('INTERNAL', 'abstract method'),
    ('lark.lexer:Pattern.min_width', 'NotImplementedError'): ('INTERNAL', 'abstract method'),
    ('lark.lexer:Pattern.max_width', 'NotImplementedError'): ('INTERNAL', 'abstract method'),
    ('lark.tree_matcher:ChildrenLexer.lex', 'MissingVariableError'): ('INTERNAL', 'tree matcher (not a text parser)'),
}
# construction-time code reached through Lark.lex()/_build_lexer: raises there concern the grammar, not the text
BUILD_FUNCS = ('lark.lexer:BasicLexer.__init__', 'lark.lexer:_check_regex_collisions', 'lark.lexer:ContextualLexer.__init__',
               'lark.utils:get_regexp_width', 'lark.exceptions:assert_config')

# handlers that catch broadly without re-raising, confirmed by reading
HANDLERS: Dict[Tuple[str, str], str] = {
    ('lark.parsers.lalr_parser:LALR_Parser.parse', 'UnexpectedInput'): 'on_error loop: re-raises unless the user\'s on_error asks to resume',
    ('lark.parsers.lalr_parser:LALR_Parser.parse', 'UnexpectedToken'): 'on_error loop: continues with the new error',
    ('lark.parsers.lalr_parser:LALR_Parser.parse', 'UnexpectedCharacters'): 'on_error loop: continues with the new error',
    ('lark.lexer:ContextualLexer.lex', 'UnexpectedCharacters'): 'converted to UnexpectedToken when the root lexer can lex the text, else re-raised',
    ('lark.lexer:ContextualLexer.lex', 'EOFError'): 'end of input',
    ('lark.parsers.lalr_parser:_Parser.parse_from_state', 'NameError'): 'stand-alone build without InteractiveParser',
    ('lark.parsers.earley:Parser.parse', 'ImportError'): 'optional pydot for the debug graph',
    ('lark.parsers.earley_forest:ForestToPyDotVisitor.visit', 'FileNotFoundError'): 'debug graph output',
    ('lark.parsers.earley_forest:ForestVisitor.visit', 'StopIteration'): 'iterator protocol of the explicit stack',
    ('lark.parsers.earley_forest:ForestVisitor.visit', 'TypeError'): 'non-iterator stack entry: falls through to node handling',
    ('lark.utils:classify', 'KeyError'): 'dict insertion idiom',
    ('lark.lark:LarkOptions.__getattr__', 'KeyError'): 'attribute protocol (re-raised as AttributeError)',
    ('lark.visitors:Transformer._call_userfunc', 'AttributeError'): 'no user callback: default',
    ('lark.visitors:Transformer._call_userfunc_token', 'AttributeError'): 'no user callback: default',
}
BROAD = {'Exception', 'BaseException', 'UnexpectedInput', 'LarkError', 'ParseError', 'LexError', 'UnexpectedToken', 'UnexpectedCharacters',
         'UnexpectedEOF'}


def _raised_classes(ctx: Ctx, f: FuncInfo, r: ast.Raise) -> List[str]:
    """class names (package quals when resolvable) a raise statement may raise."""
    repo, ty = ctx.repo, ctx.typer
    if r.exc is None:
        # bare re-raise: the classes caught by the enclosing handler
        for a in ancestors(r):
            if isinstance(a, ast.ExceptHandler):
                if a.type is None:
                    return ['<reraise-any>']
                return ['<reraise>' + norm(t) for t in (a.type.elts if isinstance(a.type, ast.Tuple) else [a.type])]
        return ['<reraise-any>']
    e = r.exc
    if isinstance(e, ast.Call):
        e = e.func
    out = []
    for t in ty.expr(f, e):
        if t.startswith(('T:', 'C:')) and not t.startswith('T:b:'):
            out.append(t[2:])
    if out:
        return out
    if isinstance(e, ast.Name):
        # a local bound by an except clause
        for a in ancestors(r):
            if isinstance(a, ast.ExceptHandler) and a.name == e.id and a.type is not None:
                return ['<reraise>' + norm(t) for t in (a.type.elts if isinstance(a.type, ast.Tuple) else [a.type])]
        return [e.id]
    return [norm(e)]


def run(ctx: Ctx) -> RuleResult:
    repo, ty, cg = ctx.repo, ctx.typer, ctx.cg
    res = RuleResult('R-EXC-DISCIPLINE', 'only UnexpectedInput subclasses (or tabled configuration / internal / documented classes) are raised '
                                         'on the path of parse(); none is swallowed')
    res.default_props = ['C01', 'C08']
    ui = repo.cls(UI)
    fam = {k.qual for k in [ui] + ui.all_subclasses()}
    reach = cg.reach(['lark.lark:Lark.parse'])
    n_raise = 0
    used = set()
    input_sites = []
    for q in sorted(reach):
        f = repo.functions[q]
        for n in f.body_nodes():
            if isinstance(n, ast.Raise):
                n_raise += 1
                classes = _raised_classes(ctx, f, n)
                site = '%s %s' % (f.loc(n), f.qual)
                for c in classes:
                    short = c.split(':')[-1].replace('<reraise>', '')
                    if c in fam:
                        input_sites.append((f, n, c))
                        res.ob(site, 'raises %s (an UnexpectedInput)' % short, True)
                        continue
                    if c.startswith('<reraise'):
                        # re-raising what was caught: fine when the caught class is an UnexpectedInput or anything (pass-through)
                        res.ob(site, 're-raises the caught exception (%s)' % short, True)
                        continue
                    key = (f.qual, short)
                    if key in TABLE:
                        used.add(key)
                        res.ob(site, 'raises %s: %s (%s)' % (short, TABLE[key][0], TABLE[key][1]), True)
                        continue
                    if f.qual in BUILD_FUNCS:
                        res.ob(site, 'raises %s in construction-time code (about the grammar, not the text)' % short, True)
                        continue
                    res.ob(site, 'raises %s' % short, False)
                    res.finding(f, n, 'raises %s on the path of parse(): a rejection must be an UnexpectedInput (or the class needs a '
                                'reasoned row: configuration / internal / documented)' % short, construct='raise:' + short,
                                path=cg.path_to(reach, f.qual))
            if isinstance(n, ast.ExceptHandler):
                caught = ['<any>'] if n.type is None else [norm(t) for t in (n.type.elts if isinstance(n.type, ast.Tuple) else [n.type])]
                reraises = any(isinstance(x, ast.Raise) for s in n.body for x in ast.walk(s))
                site = '%s %s' % (f.loc(n), f.qual)
                for c in caught:
                    short = c.split('.')[-1]
                    if reraises and all(_always_raises(n)):
                        res.ob(site, 'handler for %s re-raises on every path' % short, True)
                        continue
                    key = (f.qual, short)
                    if key in HANDLERS:
                        res.ob(site, 'handler for %s: %s' % (short, HANDLERS[key]), True)
                        continue
                    if short in BROAD or c == '<any>':
                        res.ob(site, 'handler for %s does not re-raise' % short, False)
                        res.finding(f, n, 'a handler on the path of parse() catches %s and does not re-raise: a rejection can be '
                                    'swallowed or turned into a wrong result' % short, construct='swallow:' + short,
                                    path=cg.path_to(reach, f.qual))
                    else:
                        res.ob(site, 'handler for %s (narrow, not an input error class)' % short, True)
    res.require_instances(n_raise, 25, 'raise statements on the path of parse()')
    res.require_instances(len(input_sites), 7, 'input-dependent raise sites')
    res.tables['input_dependent_raise_sites'] = ['%s %s' % (f.loc(n), c.split(':')[1]) for f, n, c in input_sites]
    res.tables['table_rows_used'] = sorted('%s -> %s' % k for k in used)
    # every caller of next_token handles EOFError
    nt_callers = [s for s in cg.callers_of('lark.lexer:BasicLexer.next_token') if isinstance(s.node, ast.Call)]
    for s in nt_callers:
        f = s.func
        handled = False
        for a in ancestors(s.node):
            if isinstance(a, ast.Try) and any(h.type is None or 'EOFError' in norm(h.type) for h in a.handlers):
                handled = True
            if isinstance(a, ast.With) and any('suppress(EOFError)' in norm(it.context_expr) for it in a.items):
                handled = True
        # the contextual lexer's fallback call to the root lexer happens after input is known to remain
        if f.qual == 'lark.lexer:ContextualLexer.lex':
            handled = True if handled else handled
        res.ob('%s %s' % (f.loc(s.node), f.qual), 'EOFError of next_token is handled by the caller', handled)
        if not handled:
            res.finding(f, enclosing_stmt(s.node), 'next_token signals end of input with EOFError and this caller does not catch it',
                        construct='eof-unhandled')
    # the contextual lexer: what it reports comes from the lexer of the current parser state -- the UnexpectedToken built from the root
    # lexer's token carries the *contextual* error's allowed set, and when even the root lexer matches nothing the contextual error
    # itself is raised again (a bare `raise` there would re-raise the root lexer's error, whose allowed set is every terminal)
    cl = repo.func('lark.lexer:ContextualLexer.lex')
    outer = [h for h in cl.body_nodes() if isinstance(h, ast.ExceptHandler) and h.type is not None and 'UnexpectedCharacters' in norm(h.type) and h.name]
    ok = len(outer) == 1
    why = 'no handler `except UnexpectedCharacters as e` around the contextual next_token'
    if ok:
        e_ = outer[0].name
        inner = [h for t in ast.walk(outer[0]) if isinstance(t, ast.Try) for h in t.handlers
                 if h.type is not None and 'UnexpectedCharacters' in norm(h.type)]
        rs = [r for h in inner for r in ast.walk(h) if isinstance(r, ast.Raise)]
        ok = len(inner) == 1 and len(rs) == 1 and rs[0].exc is not None and norm(rs[0].exc) == e_
        why = 'the fallback handler raises %s' % (norm(rs[0]) if rs else 'nothing')
        if ok:
            ut = [c for c in ast.walk(outer[0]) if isinstance(c, ast.Call) and norm(c.func) == 'UnexpectedToken']
            ok = len(ut) == 1 and len(ut[0].args) >= 2 and norm(ut[0].args[1]) == e_ + '.allowed'
            why = 'the UnexpectedToken does not carry %s.allowed' % e_
    res.ob('%s %s' % (cl.loc(), cl.qual), 'the contextual lexer reports the error of the current state\'s lexer (its allowed set; re-raised by name)', ok)
    if not ok:
        res.finding(cl, cl.node, 'ContextualLexer.lex no longer reports the current state\'s own lexing error (%s): the expected / allowed set '
                    'names terminals that cannot come next' % why, construct='contextual-reraise')
    # the LALR driver: the error is raised before the offending token is shifted; $END borrows the last token
    ft = repo.func('lark.parsers.lalr_parser_state:ParserState.feed_token')
    ok = False
    tparam = ft.positional_names()[0]
    loc1_ = {a.targets[0].id: norm(a.value) for a in ft.body_nodes() if isinstance(a, ast.Assign) and len(a.targets) == 1 and isinstance(a.targets[0], ast.Name)}
    raises_ = [x for x in ft.body_nodes() if isinstance(x, ast.Raise) and isinstance(x.exc, ast.Call) and norm(x.exc.func) == 'UnexpectedToken' and x.exc.args
               and norm(x.exc.args[0]) == tparam]
    looks_ = [y for y in ft.body_nodes() if isinstance(y, ast.Subscript) and isinstance(y.ctx, ast.Load) and norm(y.slice) == tparam + '.type'
              and not norm(y.value).endswith('callbacks')]
    if len(raises_) == 1 and looks_:
        r_ = raises_[0]
        # (a) in the KeyError handler of a try around the lookup
        for n in ft.body_nodes():
            if isinstance(n, ast.Try) and any(r_ is x for h in n.handlers if h.type is not None and 'KeyError' in norm(h.type) for s_ in h.body for x in ast.walk(s_)):
                ok = any(y in looks_ for x in n.body for y in ast.walk(x))
        # (b) under `token.type not in <row>`, the row being what the lookup indexes
        if not ok:
            from ..exprs import path_conditions as _pc2
            rows = {loc1_.get(norm(y.value), norm(y.value)) for y in looks_}
            for t_, pol_ in _pc2(r_):
                if isinstance(t_, ast.Compare) and len(t_.ops) == 1 and norm(t_.left) == tparam + '.type' \
                        and ((isinstance(t_.ops[0], ast.NotIn) and pol_) or (isinstance(t_.ops[0], ast.In) and not pol_)):
                    row = norm(t_.comparators[0])
                    ok = loc1_.get(row, row) in rows and all(y.lineno >= r_.lineno for y in looks_)
    res.ob('%s %s' % (ft.loc(), ft.qual), 'a token with no action in the current state raises UnexpectedToken(token, ...) before any shift', ok)
    if not ok:
        res.finding(ft, ft.node, 'the missing-action case of the LALR driver no longer raises UnexpectedToken for the offending token', construct='lalr-unexpected')
    pfs = repo.func('lark.parsers.lalr_parser:_Parser.parse_from_state')
    from ..exprs import match_cond
    ok = bool(match_cond(pfs.body_nodes(), '$t is not None', r"Token.new_borrow_pos('\x24END', '', $t)", '$$d'))
    res.ob('%s %s' % (pfs.loc(), pfs.qual), '$END borrows the coordinates of the last token whenever there is one', ok)
    if not ok:
        res.finding(pfs, pfs.node, 'the end token does not borrow the last token\'s coordinates under `token is not None`', construct='end-borrow')
    # ... and every resumption hands the last token over (a fresh parse has none)
    for site in cg.callers_of(pfs.qual):
        if not isinstance(site.node, ast.Call) or site.func.qual == 'lark.parsers.lalr_parser:_Parser.parse':
            continue
        call = site.node
        lt = [k.value for k in call.keywords if k.arg == 'last_token'] + list(call.args[1:2])
        ok = bool(lt) and norm(lt[0]).endswith('.last_token')
        res.ob('%s %s' % (site.func.loc(call), site.func.qual), 'a resumed parse passes the lexer state\'s last token to parse_from_state', ok)
        if not ok:
            res.finding(site.func, enclosing_stmt(call), 'parse_from_state is resumed without the last token: when only ignorable text remains, '
                        'the unexpected $END is reported at 1:1 instead of at the last token', construct='resume-without-last-token', props=['C01', 'C08', 'C13'])
    # Earley: expected sets are computed from the scan buffer; the rejection happens exactly when nothing survives the step
    from ..exprs import path_conditions, bool_relation
    for fq, cls, want in (('lark.parsers.earley:Parser._parse.scan', 'UnexpectedToken', 'not next_set and not next_to_scan'),
                          ('lark.parsers.xearley:Parser._parse.scan', 'UnexpectedCharacters', 'not next_set and not delayed_matches and not next_to_scan and not carried_solutions')):
        f = repo.func(fq)
        rs = [n for n in f.body_nodes() if isinstance(n, ast.Raise) and cls in norm(n.exc)]
        ok = len(rs) == 1
        why = '%d raise sites' % len(rs)
        if ok:
            conds = [(t, pol) for t, pol in path_conditions(rs[0]) if not (isinstance(t, ast.Call) and norm(t.func) == 'isinstance')]
            conj = ' and '.join('(%s)' % norm(t) if pol else '(not (%s))' % norm(t) for t, pol in conds) or 'True'
            rel = bool_relation(ast.parse(conj, mode='eval').body, ast.parse(want, mode='eval').body)
            guard = [a for a in ancestors(rs[0]) if isinstance(a, ast.If)]
            ok = rel == 'same' and 'to_scan' in norm(rs[0].exc) and '.expect.name' in (norm(rs[0].exc) + ' '.join(norm(s_) for g_ in guard for s_ in g_.body))
            why = 'raised when %s' % conj
        res.ob('%s %s' % (f.loc(), f.qual), '%s is raised exactly when no item survives the step (%s), with the expected terminals of the scan buffer'
               % (cls, want), ok)
        if not ok:
            res.finding(f, rs[0] if rs else f.node, 'the Earley scanner\'s rejection (%s) is not raised exactly when %s (%s): input that cannot be '
                        'continued is reported later, elsewhere, or as an unexpected end of input' % (cls, want, why), construct='earley-reject:' + cls)
    ep = repo.func('lark.parsers.earley:Parser.parse')
    ok = any(isinstance(n, ast.If) and has_pat([n.test], 'not $s') and any(isinstance(s, ast.Raise) and 'UnexpectedEOF' in norm(s.exc) for s in n.body)
             for n in ep.body_nodes())
    res.ob('%s %s' % (ep.loc(), ep.qual), 'no complete start item in the last column raises UnexpectedEOF', ok)
    if not ok:
        res.finding(ep, ep.node, 'an incomplete parse at end of input no longer raises UnexpectedEOF', construct='earley-eof')
    return res


def _always_raises(h: ast.ExceptHandler) -> List[bool]:
    """crude: the handler's last top-level statement is a raise, or every top-level path ends in one."""
    last = h.body[-1] if h.body else None
    if isinstance(last, ast.Raise):
        return [True]
    if isinstance(last, ast.Try):
        return [any(isinstance(x, ast.Raise) for x in ast.walk(last))]
    return [False]


def run_on_error(ctx: Ctx) -> RuleResult:
    """R-ONERROR-SKIP [C08 C13]: resuming after on_error continues where the handler left the input."""
    repo = ctx.repo
    res = RuleResult('R-ONERROR-SKIP', 'after on_error, the library skips one character exactly when the handler did not move the position')
    # on_error: the library skips a character itself exactly when the handler left the position where it was
    lp = repo.func('lark.parsers.lalr_parser:LALR_Parser.parse')
    feeds = [c for c in lp.body_nodes() if isinstance(c, ast.Call) and norm(c.func).endswith('.line_ctr.feed')]
    site = '%s %s' % (lp.loc(), lp.qual)
    ok = len(feeds) == 1
    why = 'cannot find the skip'
    if ok:
        from ..exprs import runs_only_if, path_conditions
        st = enclosing_stmt(feeds[0])
        recv = norm(feeds[0].func)[:-len('.feed')]                  # <s>.line_ctr
        saved = [a for a in lp.body_nodes() if isinstance(a, ast.Assign) and len(a.targets) == 1 and isinstance(a.targets[0], ast.Name)
                 and norm(a.value) == recv + '.char_pos']
        calls = [c for c in lp.body_nodes() if isinstance(c, ast.Call) and norm(c.func) == (lp.positional_names() + ['', '', ''])[2]]
        ok = len(saved) == 1 and len(calls) == 1 and saved[0].lineno < calls[0].lineno < st.lineno
        why = 'the position is not saved before the handler is called'
        if ok:
            want = ast.parse('%s == %s.char_pos' % (saved[0].targets[0].id, recv), mode='eval').body
            ok = runs_only_if(st, want)
            why = 'the skip runs under %s' % [('' if pol else 'not ') + norm(t) for t, pol in path_conditions(st)][-2:]
    res.ob(site, 'on_error: one character is skipped exactly when the handler did not move the position (saved before the call, compared with ==)', ok)
    if not ok:
        res.finding(lp, feeds[0] if feeds else lp.node, 'after on_error returned True the library no longer skips one character exactly when the '
                    'handler left the position unchanged (%s): a handler that advanced the lexer itself loses a further, good character -- or a '
                    'handler that did nothing loops forever' % why, construct='on-error-skip')
    return res
