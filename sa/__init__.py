"""Static-analysis machinery for the lark properties (see /verif/DESIGN.md).

Nothing in this package imports `lark`: every verdict is computed from the source text of the
repository under analysis (default /repo, override with VERIF_REPO for the self-test's scratch copies).
"""
