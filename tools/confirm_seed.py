#!/venv/bin/python
"""Confirm a candidate seeded change and file it under /verif/seeded/<id>/.

usage: tools/confirm_seed.py <candidate dir with patch.diff demo.py notes.md> <property> <seed id>
In a scratch worktree of /repo's HEAD (outside /repo and /verif, removed afterwards):
  1. demo.py on the clean tree must exit 0;   2. the patch must apply;   3. demo.py must exit non-zero;
  4. the repository's own test suite must still pass (0 failures/errors);
  5. the registered quick checks are run against the patched tree (tools/seedcheck.py logic).
Only then patch.diff, demo.py, notes.md and meta.json are written to /verif/seeded/<seed id>/."""
import json, os, re, shutil, subprocess, sys, tempfile, time

VERIF = os.path.dirname(os.path.dirname(os.path.abspath(__file__)))
sys.path.insert(0, VERIF)
from sa import registry

PY = '/venv/bin/python'


def sh(cmd, cwd, env=None, timeout=1800):
    r = subprocess.run(cmd, cwd=cwd, env=env, capture_output=True, text=True, timeout=timeout)
    return r.returncode, (r.stdout + r.stderr)


def main():
    cand, prop, sid = sys.argv[1], sys.argv[2], sys.argv[3]
    needs = ''
    notes = open(os.path.join(cand, 'notes.md')).read() if os.path.exists(os.path.join(cand, 'notes.md')) else ''
    wt = tempfile.mkdtemp(prefix='confirm-', dir='/tmp')
    os.rmdir(wt)
    subprocess.run(['git', '-C', '/repo', 'worktree', 'add', '--detach', wt, 'HEAD'], check=True, capture_output=True)
    meta = {'seed_id': sid, 'breaks_property': prop, 'repo_head': subprocess.run(['git', '-C', '/repo', 'rev-parse', '--short', 'HEAD'],
                                                                                 capture_output=True, text=True).stdout.strip(),
            'ran': []}
    ok = True
    try:
        env = dict(os.environ, PYTHONPATH=wt, PYTHONDONTWRITEBYTECODE='1')
        demo = os.path.join(cand, 'demo.py')
        rc, out = sh([PY, demo], wt, env)
        meta['ran'].append({'cmd': 'demo.py on the clean tree', 'exit': rc, 'tail': out[-300:]})
        ok = ok and rc == 0
        rc, out = sh(['git', 'apply', os.path.join(cand, 'patch.diff')], wt)
        meta['ran'].append({'cmd': 'git apply patch.diff', 'exit': rc, 'tail': out[-300:]})
        ok = ok and rc == 0
        rc, out = sh([PY, demo], wt, env)
        meta['ran'].append({'cmd': 'demo.py with the change', 'exit': rc, 'tail': out[-600:]})
        ok = ok and rc != 0
        rc, out = sh([PY, '-m', 'pytest', '-q', '-p', 'no:cacheprovider', '--timeout=900', '--continue-on-collection-errors'], wt, env)
        summ = [l for l in out.splitlines() if re.search(r'\d+ (passed|failed)', l)]
        tail = summ[-1].strip() if summ else (out.strip().splitlines()[-1] if out.strip() else '')
        meta['ran'].append({'cmd': 'pytest -q (whole suite) with the change', 'exit': rc, 'tail': tail})
        ok = ok and rc == 0 and 'failed' not in tail and 'error' not in tail.lower()
        # checks
        env2 = dict(os.environ, VERIF_REPO=wt, VERIF_SCRATCH_EVIDENCE=wt + '-evidence')
        caught, silent, errors, reports = [], [], [], {}
        if os.environ.get('CONFIRM_INPROCESS'):
            # one model build, every rule once: the verdict each property's check would give (controls are not evaluated)
            from pathlib import Path
            from sa.model import Repo
            from sa.report import Ctx, split_known
            ctx = Ctx(Repo(root=Path(wt)))
            results = {}
            for rule in sorted(registry.RULES):
                try:
                    results[rule] = registry.rule_fn(rule)(ctx)
                except Exception as e:      # AnalysisError and crashes alike: the check would exit 2
                    results[rule] = e
            for p, spec in sorted(registry.PROPERTIES.items()):
                fs, seen, err = [], set(), False
                for rule in spec['rules']:
                    r = results[rule]
                    if isinstance(r, Exception):
                        err = True
                        continue
                    for f in r.findings:
                        if (f.props is not None and p not in f.props) or f.key in seen:
                            continue
                        seen.add(f.key)
                        fs.append(f)
                _known, new, _ = split_known(fs, p)
                (caught if new else errors if err else silent).append(p)
                if new:
                    reports[p] = ['%s:%s: [%s] %s -- %s  {%s}' % (f.file, f.line, f.rule, f.where, f.message[:200], f.key.split(' :: ')[-1][:80]) for f in new][:4]
        else:
          for p in sorted(registry.PROPERTIES):
            rc, out = sh([os.path.join(VERIF, 'check'), p], VERIF, env2)
            (caught if rc == 1 else silent if rc == 0 else errors).append(p)
            if rc == 1:
                reports[p] = [l[:300] for l in out.splitlines() if l.startswith('lark/')][:4]
        meta['checks'] = {'caught_by': caught, 'analysis_error': errors, 'reports': reports}
        meta['needs_to_manifest'] = notes
        meta['confirmed'] = ok
        print('%s: confirmed=%s caught_by=%s errors=%s' % (sid, ok, caught, errors))
        for r in meta['ran']:
            print('   ', r['cmd'], '->', r['exit'], '|', r['tail'].strip().splitlines()[-1][:160] if r['tail'].strip() else '')
        if ok:
            dst = os.path.join(VERIF, 'seeded', sid)
            os.makedirs(dst, exist_ok=True)
            for fn in ('patch.diff', 'demo.py', 'notes.md'):
                if os.path.exists(os.path.join(cand, fn)):
                    shutil.copy(os.path.join(cand, fn), os.path.join(dst, fn))
            json.dump(meta, open(os.path.join(dst, 'meta.json'), 'w'), indent=1)
        return 0 if ok else 1
    finally:
        subprocess.run(['git', '-C', '/repo', 'worktree', 'remove', '--force', wt], capture_output=True)
        shutil.rmtree(wt + '-evidence', ignore_errors=True)


if __name__ == '__main__':
    sys.exit(main())
