"""R-LEX-PRECEDENCE [C07]: the implemented terminal order is the documented one and reaches the regex
alternation unchanged, for both lexers; the keyword exception has its documented guards."""
from __future__ import annotations

import ast
from typing import Dict, List, Optional, Set, Tuple

from ..model import Repo, ClassInfo, FuncInfo, AnalysisError, norm, parent, ancestors, enclosing_stmt, const_str
from ..report import Ctx, RuleResult
from ..exprs import has_pat, find_pat

# docs/grammar.md, "Notes for when using a lexer": 1. highest priority first, 2. length of match (regexps: longest
# theoretical match), 3. length of literal / pattern definition, 4. name
DOCUMENTED = [('-', 'priority'), ('-', 'pattern.max_width'), ('-', 'len(pattern.value)'), ('+', 'name')]


def _key_features(lam: ast.AST) -> Optional[List[Tuple[str, str]]]:
    if isinstance(lam, ast.Lambda):
        arg = lam.args.args[0].arg
        body = lam.body
    elif isinstance(lam, (ast.FunctionDef,)):
        arg = lam.args.args[0].arg
        rets = [n.value for n in ast.walk(lam) if isinstance(n, ast.Return)]
        if len(rets) != 1:
            return None
        body = rets[0]
    else:
        return None
    if not isinstance(body, ast.Tuple):
        return None
    out = []
    for e in body.elts:
        sign = '+'
        if isinstance(e, ast.UnaryOp) and isinstance(e.op, ast.USub):
            sign = '-'
            e = e.operand
        out.append((sign, norm(e).replace(arg + '.', '')))
    return out


def run(ctx: Ctx) -> RuleResult:
    repo = ctx.repo
    res = RuleResult('R-LEX-PRECEDENCE', 'terminal order = documented order, carried unchanged into the regex alternation; keyword exception guarded')
    res.default_props = ['C07', 'C14']
    init = repo.func('lark.lexer:BasicLexer.__init__')
    site = '%s %s' % (init.loc(), init.qual)
    sorts = [n for n in init.body_nodes() if isinstance(n, ast.Call) and ((isinstance(n.func, ast.Attribute) and n.func.attr == 'sort')
                                                                           or (isinstance(n.func, ast.Name) and n.func.id == 'sorted'))]
    ok = len(sorts) == 1
    res.ob(site, 'the terminals are sorted once', ok)
    if not ok:
        res.finding(init, init.node, 'expected exactly one sort of the terminal list in BasicLexer.__init__, found %d' % len(sorts), construct='sort')
        return res
    srt = sorts[0]
    keyv = [k.value for k in srt.keywords if k.arg == 'key']
    feats = None
    if keyv:
        kv = keyv[0]
        if isinstance(kv, ast.Name):
            r = repo.resolve_global(init.module, kv.id)
            if isinstance(r, FuncInfo):
                kv = r.node
            else:
                nf = init.nested.get(kv.id)
                kv = nf.node if nf else kv
        feats = _key_features(kv)
    rev = any(k.arg == 'reverse' and isinstance(k.value, ast.Constant) and k.value.value for k in srt.keywords)
    ok = feats == DOCUMENTED and not rev
    res.ob(f_loc(init, srt), 'sort key %s == documented precedence %s' % (feats, DOCUMENTED), ok)
    if not ok:
        res.finding(init, enclosing_stmt(srt), 'terminals are ordered by %s%s; the documented precedence is priority, then maximal width, then '
                    'pattern length, then name' % (feats, ' (reversed)' if rev else ''), construct='sort-key:%s' % feats)
    # the sorted list is what the lexer keeps
    tgt = norm(srt.func.value) if isinstance(srt.func, ast.Attribute) else None
    if tgt is None:
        st = enclosing_stmt(srt)
        tgt = norm(st.targets[0]) if isinstance(st, ast.Assign) else None
    kept = [n for n in init.body_nodes() if isinstance(n, ast.Assign) and norm(n.targets[0]) == 'self.terminals']
    ok = len(kept) == 1 and norm(kept[0].value) == tgt and kept[0].lineno > srt.lineno
    res.ob(site, 'self.terminals is the sorted list', ok)
    if not ok:
        res.finding(init, kept[0] if kept else init.node, 'BasicLexer keeps a terminal list other than the sorted one', construct='kept-list')
    # _build_scanner: _create_unless(self.terminals ...) -> Scanner(<its result> ...)
    bs = repo.func('lark.lexer:BasicLexer._build_scanner')
    cu = [n for n in bs.body_nodes() if isinstance(n, ast.Call) and norm(n.func) == '_create_unless']
    sc = [n for n in bs.body_nodes() if isinstance(n, ast.Call) and norm(n.func) == 'Scanner']
    ok = len(cu) == 1 and len(sc) == 1 and norm(cu[0].args[0]) == 'self.terminals'
    if ok:
        st = enclosing_stmt(cu[0])
        first = st.targets[0].elts[0] if isinstance(st, ast.Assign) and isinstance(st.targets[0], ast.Tuple) else None
        ok = first is not None and norm(sc[0].args[0]) == norm(first)
    res.ob('%s %s' % (bs.loc(), bs.qual), 'the scanner is built from the sorted terminals minus the embedded keywords', ok)
    if not ok:
        res.finding(bs, bs.node, 'the scanner is not built from _create_unless(self.terminals, ...)[0]', construct='scanner-input')
    # _create_unless preserves order
    cuf = repo.func('lark.lexer:_create_unless')
    tparam_ = cuf.positional_names()[0]
    keep_ = find_pat(cuf.body_nodes(), '$new = [$t for $t in $ts if $t not in $emb]', {'ts': tparam_})
    ok = bool(keep_) and has_pat(cuf.body_nodes(), 'return ($new, $cb)', {'new': keep_[0][1]['new']}) and \
        has_pat(cuf.body_nodes(), '$emb.add($st)', {'emb': keep_[0][1]['emb']})
    res.ob('%s %s' % (cuf.loc(), cuf.qual), 'removing embedded keywords preserves the order', ok)
    if not ok:
        res.finding(cuf, cuf.node, '_create_unless does not return the terminals in their given order', construct='unless-order')
    # Scanner._build_mres: '|'.join(... for t in terminals[:k]) ; terminals = terminals[k:]
    bm = repo.func('lark.lexer:Scanner._build_mres')
    joins = [n for n in bm.body_nodes() if isinstance(n, ast.Call) and isinstance(n.func, ast.Attribute) and n.func.attr == 'join'
             and const_str(n.func.value) == '|']
    ok = len(joins) == 1 and isinstance(joins[0].args[0], ast.GeneratorExp)
    k = None
    if ok:
        g = joins[0].args[0].generators[0]
        it = g.iter
        ok = isinstance(it, ast.Subscript) and isinstance(it.slice, ast.Slice) and it.slice.lower is None and it.slice.step is None \
            and norm(it.value) == 'terminals' and not g.ifs
        k = norm(it.slice.upper) if ok else None
        from ..exprs import str_template as _stt
        tt_ = _stt(joins[0].args[0].elt)
        ok = ok and tt_ is not None and tt_[0] == '(?P<%s>%s)' and len(tt_[1]) == 2 and norm(tt_[1][0]).endswith('.name') and norm(tt_[1][1]).endswith('.pattern.to_regexp()')
    res.ob('%s %s' % (bm.loc(), bm.qual), 'alternation = named groups of terminals[:%s] in list order' % k, ok)
    if not ok:
        res.finding(bm, bm.node, 'the regex alternation is not built from the leading slice of the ordered terminal list, in order', construct='alternation')
    rest = [n for n in bm.body_nodes() if isinstance(n, ast.Assign) and norm(n.targets[0]) == 'terminals' and isinstance(n.value, ast.Subscript)]
    ok = len(rest) == 1 and isinstance(rest[0].value.slice, ast.Slice) and norm(rest[0].value.slice.lower) == k and rest[0].value.slice.upper is None
    res.ob('%s %s' % (bm.loc(), bm.qual), 'the remainder continues at terminals[%s:]' % k, ok)
    if not ok:
        res.finding(bm, rest[0] if rest else bm.node, 'chunking drops or repeats terminals (remainder is not terminals[%s:])' % k, construct='chunk-remainder')
    comp = find_pat(bm.body_nodes(), '$m = self.re_.compile($p, self.g_regex_flags)')
    ok = bool(comp) and has_pat(bm.body_nodes(), '$l.append($m)', {'m': comp[0][1]['m']}) and \
        any(isinstance(n, ast.Return) and isinstance(n.value, ast.Name) for n in bm.body_nodes())
    res.ob('%s %s' % (bm.loc(), bm.qual), 'chunks are kept in order', ok)
    if not ok:
        res.finding(bm, bm.node, 'regex chunks are not appended in order', construct='chunk-order')
    # Scanner.match: first chunk that matches wins; result (text, lastgroup)
    sm = repo.func('lark.lexer:Scanner.match')
    loops = [n for n in sm.body_nodes() if isinstance(n, ast.For)]
    ok = len(loops) == 1 and norm(loops[0].iter) == 'self._mres' and has_pat(list(ast.walk(loops[0])), 'return ($m.group(0), $m.lastgroup)')
    res.ob('%s %s' % (sm.loc(), sm.qual), 'chunks are tried in order; the first match gives (text, terminal name)', ok)
    if not ok:
        res.finding(sm, sm.node, 'Scanner.match does not return the first chunk\'s match as (group(0), lastgroup)', construct='match')
    # ---- the features of the key are computed from the regexp that is actually compiled ------------------------
    pat = repo.cls('lark.lexer:Pattern')
    pfam = {k.qual for k in [pat] + pat.all_subclasses()}
    n_uses = 0
    for f in repo.functions.values():
        if f.module.name not in ('lark.lexer', 'lark.parser_frontends'):
            continue
        for n in f.body_nodes():
            if not isinstance(n, ast.Call):
                continue
            fn = norm(n.func)
            if not (fn == 'get_regexp_width' or fn.endswith('.compile') or fn == '_get_match'):
                continue
            regex_args = n.args[1:2] if fn == '_get_match' else n.args[0:1]
            for a in regex_args:
                srcs = [a]
                if isinstance(a, ast.Name):
                    srcs = [x.value for x in f.body_nodes() if isinstance(x, ast.Assign)
                            and any(isinstance(t, ast.Name) and t.id == a.id for t in x.targets)] or [a]
                for e in srcs:
                    for x in ast.walk(e):
                        if isinstance(x, ast.Call) and isinstance(x.func, ast.Attribute) and x.func.attr == 'to_regexp':
                            n_uses += 1
                            res.ob(f_loc(f, n), '%s works on to_regexp() (pattern text with its flags)' % fn, True)
                        if isinstance(x, ast.Attribute) and x.attr in ('value', 'raw') and isinstance(x.ctx, ast.Load):
                            owner = f.owner_class
                            recv_is_pattern = (isinstance(x.value, ast.Name) and x.value.id == f.self_name() and owner is not None
                                               and owner.qual in pfam) or norm(x.value).endswith('.pattern')
                            if recv_is_pattern and not any(isinstance(p_, ast.Call) and norm(p_.func) == 're.escape'
                                                           for p_ in ancestors(x)):
                                res.ob(f_loc(f, n), '%s works on to_regexp(), not on the bare pattern text' % fn, False)
                                res.finding(f, enclosing_stmt(n), '%s is given the pattern\'s bare %s instead of to_regexp(): the flags are '
                                            'dropped, so width/validity is computed for a different regexp than the one the lexer compiles '
                                            '(the documented order uses the width of the real regexp)' % (fn, x.attr),
                                            construct='bare-pattern-text:' + norm(n))
    if n_uses < 4:
        raise AnalysisError('R-LEX-PRECEDENCE: found %d consumers of Pattern.to_regexp(), expected at least 4' % n_uses)
    # ---- every Scanner of a lexer is built with the lexer's own flags / re module / bytes mode ---------------------
    n_sc = 0
    for f in repo.functions_in('lark.lexer'):
        for n in f.body_nodes():
            if isinstance(n, ast.Call) and norm(n.func) == 'Scanner':
                n_sc += 1
                args = list(n.args) + [None] * 4
                kw = {k.arg: k.value for k in n.keywords}
                flags, remod, ub = args[1] or kw.get('g_regex_flags'), args[2] or kw.get('re_'), args[3] or kw.get('use_bytes')
                ok = flags is not None and norm(flags) in ('self.g_regex_flags', 'g_regex_flags') \
                    and remod is not None and norm(remod) in ('self.re', 're_') \
                    and ub is not None and norm(ub) in ('self.use_bytes', 'use_bytes')
                res.ob(f_loc(f, n), 'Scanner(%s, %s, %s): the lexer\'s own configuration' % (norm(flags) if flags is not None else None,
                                                                                          norm(remod) if remod is not None else None,
                                                                                          norm(ub) if ub is not None else None), ok,
                       props=['C07', 'C14'])
                if not ok:
                    res.finding(f, enclosing_stmt(n), 'a Scanner is built with flags/re module/bytes mode other than the lexer\'s own '
                                '(%s): this scanner matches differently from its siblings (e.g. scan()\'s start search ignores '
                                'g_regex_flags)' % norm(n)[:90], construct='scanner-config:' + norm(n)[:80], props=['C07', 'C14'])
    if n_sc < 3:
        raise AnalysisError('R-LEX-PRECEDENCE: found %d Scanner constructions, expected at least 3' % n_sc)
    # ---- every compilation of a terminal's regexp uses the global flags and the configured re module --------------
    n_cmp = 0
    for f in repo.functions.values():
        if f.module.name not in ('lark.lexer', 'lark.parser_frontends'):
            continue
        for n in f.body_nodes():
            if isinstance(n, ast.Call) and isinstance(n.func, ast.Attribute) and n.func.attr == 'compile':
                recv = norm(n.func.value)
                if recv in ('re', 'regex'):
                    res.ob(f_loc(f, n), 'terminal regexps are compiled with the configured re module', False, props=['C07'])
                    res.finding(f, enclosing_stmt(n), 'a terminal regexp is compiled with the %s module directly, not with the configured '
                                're/regex module' % recv, construct='compile-module:' + norm(n)[:60], props=['C07'])
                    continue
                if not (recv.endswith(('.re', '.re_', '.re_module')) or recv in ('re_',)):
                    continue
                n_cmp += 1
                flags = n.args[1] if len(n.args) > 1 else next((k.value for k in n.keywords if k.arg == 'flags'), None)
                ok = flags is not None and norm(flags).split('.')[-1] == 'g_regex_flags'
                res.ob(f_loc(f, n), '%s(<regexp>, %s): global flags applied' % (norm(n.func), norm(flags) if flags is not None else None), ok)
                if not ok:
                    res.finding(f, enclosing_stmt(n), 'a terminal regexp is compiled without the global g_regex_flags (%s): this matcher '
                                'disagrees with its siblings under e.g. re.I' % norm(n)[:80], construct='compile-flags:' + norm(n)[:80])
            if isinstance(n, ast.Call) and norm(n.func) == '_get_match':
                ok = len(n.args) == 4 and norm(n.args[3]).split('.')[-1] == 'g_regex_flags'
                res.ob(f_loc(f, n), 'keyword test matches with the global flags', ok)
                if not ok:
                    res.finding(f, enclosing_stmt(n), 'the keyword/identifier test matches without the global flags', construct='get-match-flags')
    if n_cmp < 3:
        raise AnalysisError('R-LEX-PRECEDENCE: found %d regexp compilation sites, expected at least 3' % n_cmp)
    # ---- keyword exception --------------------------------------------------------------------------------
    body = cuf
    # every statement that records a keyword for a regexp terminal runs only when the two priorities are equal -- as a guard
    # clause (`if a.priority != b.priority: continue`) or as an enclosing `if a.priority == b.priority:`
    from ..exprs import runs_only_if, find_pat as _fp
    recs = _fp(cuf.body_nodes(), '$u.append($st)') + _fp(cuf.body_nodes(), '$e.add($st)')
    ok = bool(recs)
    for call_, b_ in recs:
        loops_ = [a for a in ancestors(call_) if isinstance(a, ast.For) and isinstance(a.target, ast.Name)]
        names_ = [l.target.id for l in loops_]
        if b_['st'] not in names_ or len(names_) < 2:
            ok = False
            continue
        other = [x for x in names_ if x != b_['st']][0]
        want_ = ast.parse('%s.priority == %s.priority' % (b_['st'], other), mode='eval').body
        if not runs_only_if(enclosing_stmt(call_), want_):
            ok = False
    res.ob('%s %s' % (cuf.loc(), cuf.qual), 'keyword exception applies only between terminals of equal priority', ok)
    if not ok:
        res.finding(cuf, cuf.node, 'the keyword/identifier exception is no longer restricted to equal priorities', construct='unless-priority')
    # (the comparison may be one conjunct of a merged test)
    full = [c_ for n in cuf.body_nodes() if isinstance(n, ast.If) for c_ in ast.walk(n.test)
            if isinstance(c_, ast.Compare) and len(c_.ops) == 1 and isinstance(c_.ops[0], ast.Eq)
            and any(isinstance(x, ast.Call) and norm(x.func) == '_get_match' for x in (c_.left, c_.comparators[0]))]
    ok = len(full) == 1
    if ok:
        t = full[0]
        other = t.left if not isinstance(t.left, ast.Call) else t.comparators[0]
        call = t.comparators[0] if isinstance(t.comparators[0], ast.Call) else t.left
        ok = norm(other) == norm(call.args[2]) and 'to_regexp()' in norm(call.args[1])
    res.ob('%s %s' % (cuf.loc(), cuf.qual), 'a string terminal is a keyword of a regexp terminal only if the regexp matches it entirely', ok)
    if not ok:
        res.finding(cuf, cuf.node, 'the keyword test is not "the regexp matches the whole string"', construct='unless-fullmatch')
    gm = repo.func('lark.lexer:_get_match')
    gp = gm.positional_names()
    mm_ = find_pat(gm.body_nodes(), '$m = $re.match($rx, $s, $fl)')
    ok = bool(mm_) and has_pat(gm.body_nodes(), 'return $m.group(0)', {'m': mm_[0][1]['m']}) and \
        [mm_[0][1][k] for k in ('re', 'rx', 's', 'fl')] == gp[:4]
    res.ob('%s %s' % (gm.loc(), gm.qual), '_get_match returns the text matched at the start', ok)
    if not ok:
        res.finding(gm, gm.node, '_get_match changed', construct='get-match')
    from ..exprs import as_less
    emb = [n for n in cuf.body_nodes() if isinstance(n, ast.If) and as_less(n.test) is not None and as_less(n.test)[1] == '<='
           and norm(as_less(n.test)[0]).endswith('.pattern.flags') and norm(as_less(n.test)[2]).endswith('.pattern.flags')]
    ok = len(emb) == 1 and 'strtok' in norm(as_less(emb[0].test)[0]) and 'retok' in norm(as_less(emb[0].test)[2]) \
        and any(isinstance(x, ast.Call) and norm(x.func) == 'embedded_strs.add' for x in ast.walk(emb[0]))
    res.ob('%s %s' % (cuf.loc(), cuf.qual), 'the string terminal is dropped from the scanner only when its flags are a subset of the regexp\'s', ok)
    if not ok:
        res.finding(cuf, cuf.node, 'the flag-subset condition for embedding a keyword in its regexp changed', construct='unless-flags')
    uc = repo.func('lark.lexer:UnlessCallback.__call__')
    fm_ = find_pat(uc.body_nodes(), '$r = self.scanner.fullmatch($t.value)')
    ok = False
    if fm_:
        from ..exprs import runs_only_if as _roi
        r_, t_ = fm_[0][1]['r'], fm_[0][1]['t']
        sets_ = [a for a in uc.body_nodes() if isinstance(a, ast.Assign) and len(a.targets) == 1 and norm(a.targets[0]) == '%s.type' % t_ and norm(a.value) == r_]
        ok = len(sets_) == 1 and _roi(sets_[0], ast.parse('%s is not None' % r_, mode='eval').body)
    res.ob('%s %s' % (uc.loc(), uc.qual), 'a token is retyped as the keyword iff the keyword scanner matches its whole value', ok)
    if not ok:
        res.finding(uc, uc.node, 'UnlessCallback no longer retypes exactly on a full match', construct='unless-callback')
    fm = repo.func('lark.lexer:Scanner.fullmatch')
    ok = has_pat(fm.body_nodes(), 'for $m in self._mres:\n    $r = $m.fullmatch($t)\n    if $r:\n        return $r.lastgroup')
    res.ob('%s %s' % (fm.loc(), fm.qual), 'fullmatch uses re fullmatch', ok)
    if not ok:
        res.finding(fm, fm.node, 'Scanner.fullmatch is not a full match', construct='fullmatch')
    ok = (has_pat(cuf.body_nodes(), '$cb[$re.name] = UnlessCallback(Scanner($u, $$a, $$b, use_bytes=$$c))')
          or has_pat(cuf.body_nodes(), '$cb[$re.name] = UnlessCallback(Scanner($u, $$a, $$b, $$c))')) and \
        has_pat(cuf.body_nodes(), '$u.append($st)')
    res.ob('%s %s' % (cuf.loc(), cuf.qual), 'the callback is registered on the regexp terminal with a scanner over its keywords', ok)
    if not ok:
        res.finding(cuf, cuf.node, 'the keyword callback is not built from the collected keywords', construct='unless-register')
    # ---- next_token -----------------------------------------------------------------------------------------
    nt = repo.func('lark.lexer:BasicLexer.next_token')
    mres_ = find_pat(nt.body_nodes(), '$r = self.match($$t, $$p)')
    ok = bool(mres_) and any(isinstance(n, ast.If) and has_pat([n.test], 'not $r', {'r': mres_[0][1]['r']})
                             and any(isinstance(s, ast.Raise) and 'UnexpectedCharacters' in norm(s.exc) for s in n.body) for n in nt.body_nodes())
    res.ob('%s %s' % (nt.loc(), nt.qual), 'no match at the current offset raises UnexpectedCharacters (the input is covered completely)', ok)
    if not ok:
        res.finding(nt, nt.node, 'a position where no terminal matches is no longer reported', construct='no-match')
    ig_ = find_pat(nt.body_nodes(), '$ig = $ty in self.ignore_types')
    ok = bool(ig_) and any(isinstance(n, ast.If) and has_pat([n.test], 'not $ig', {'ig': ig_[0][1]['ig']})
                           and any(isinstance(s, ast.Return) for s in n.body) for n in nt.body_nodes())
    # (the same without the temporary)
    ok = ok or any(isinstance(n, ast.If) and has_pat([n.test], '$ty not in $me.ignore_types')
                   and any(isinstance(s, ast.Return) for s in n.body) for n in nt.body_nodes())
    # (or as a guard clause: every `return <token>` of the loop runs only when the type is not an ignored one)
    if not ok:
        from ..exprs import path_conditions
        rets_ = [r_ for r_ in nt.body_nodes() if isinstance(r_, ast.Return) and r_.value is not None and any(isinstance(a_, ast.While) for a_ in ancestors(r_))]
        def _not_ignored(r_):
            for t_, pol_ in path_conditions(r_):
                parts_ = list(t_.values) if isinstance(t_, ast.BoolOp) and ((pol_ and isinstance(t_.op, ast.And)) or (not pol_ and isinstance(t_.op, ast.Or))) else [t_]
                for q_ in parts_:
                    tx = norm(q_)
                    if 'ignore_types' in tx or (ig_ and tx in (ig_[0][1]['ig'], 'not ' + ig_[0][1]['ig'])):
                        neg = tx.startswith('not ') or ' not in ' in tx
                        if neg == pol_:
                            return True
            return False
        ok = bool(rets_) and all(_not_ignored(r_) for r_ in rets_)
    res.ob('%s %s' % (nt.loc(), nt.qual), 'ignored terminals are consumed but not returned', ok)
    if not ok:
        res.finding(nt, nt.node, 'the handling of ignored terminals in next_token changed', construct='ignored')
    # zero-width terminals are refused at construction (tokens are non-empty)
    ok = any(isinstance(n, ast.If) and has_pat([n.test], '$t.pattern.min_width == 0') and any(isinstance(s, ast.Raise) for s in n.body)
             for n in init.body_nodes())
    res.ob(site, 'zero-width terminals are refused (tokens are non-empty, lexing progresses)', ok)
    if not ok:
        res.finding(init, init.node, 'zero-width terminals are no longer refused', construct='zero-width')
    # ---- contextual lexer -------------------------------------------------------------------------------------
    cl = repo.cls('lark.lexer:ContextualLexer')
    ci = cl.methods['__init__']
    mk = [n for n in ci.body_nodes() if isinstance(n, ast.Call) and norm(n.func) == 'self.BasicLexer']
    ok = len(mk) == 2 and norm(cl.class_attrs.get('BasicLexer', ast.Constant(None))) == 'BasicLexer'
    res.ob('%s %s' % (ci.loc(), ci.qual), 'per-state lexers and the root lexer are instances of the same BasicLexer class', ok)
    if not ok:
        res.finding(ci, ci.node, 'the contextual lexer does not build its per-state and root lexers from one BasicLexer class', construct='ctx-class')
    cparam, aparam = (ci.positional_names() + ['conf', 'states', 'always_accept'])[0], (ci.positional_names() + ['conf', 'states', 'always_accept'])[2]
    acc_ = find_pat(ci.body_nodes(), '$a = set($a) | set($c.ignore) | set($aa)', {'c': cparam, 'aa': aparam})
    ok = bool(acc_) and has_pat(ci.body_nodes(), '$lc.terminals = [$$by[$n] for $n in $a if $n in $$by]', {'a': acc_[0][1]['a']})
    res.ob('%s %s' % (ci.loc(), ci.qual), 'a state\'s lexer knows the terminals the parser accepts there plus ignored and always-accepted ones', ok)
    if not ok:
        res.finding(ci, ci.node, 'the terminal set of a per-state lexer is no longer accepts | ignore | always_accept', construct='ctx-accepts')
    lx = cl.methods['lex']
    psparam = (lx.positional_names() + ['lexer_state', 'parser_state'])[1]
    sel_ = find_pat(lx.body_nodes(), '$l = self.lexers[$ps.position]', {'ps': psparam})
    ok = bool(sel_) and has_pat(lx.body_nodes(), '$l.next_token($$s, $ps)', {'l': sel_[0][1]['l'], 'ps': psparam}) and \
        any(isinstance(a, ast.While) for n, _ in sel_ for a in ancestors(n))
    if not ok:
        # the same without the temporary
        direct = find_pat(lx.body_nodes(), '$me.lexers[$ps.position].next_token($$s, $ps)', {'ps': psparam})
        ok = bool(direct) and any(isinstance(a, ast.While) for n, _ in direct for a in ancestors(n))
    res.ob('%s %s' % (lx.loc(), lx.qual), 'each token is lexed by the lexer of the parser\'s current state', ok)
    if not ok:
        res.finding(lx, lx.node, 'the contextual lexer does not pick the lexer by parser_state.position for every token', construct='ctx-select')
    ccl = repo.func('lark.parser_frontends:create_contextual_lexer')
    ok = has_pat(ccl.body_nodes(), '{$i: list($t.keys()) for $i, $t in $$pt.states.items()}')
    res.ob('%s %s' % (ccl.loc(), ccl.qual), 'accepted terminals per state are the keys of the parse table row', ok)
    if not ok:
        res.finding(ccl, ccl.node, 'per-state accepted terminals are not read off the parse table', construct='ctx-states')
    # everything except the scanner-configuration clause concerns C07 only (scan() uses the same lexers on both sides of
    # its comparison with parse(), so a precedence change does not by itself break C14)
    for fd in res.findings:
        if fd.props is None:
            fd.props = ['C07']
    for ob in res.obligations:
        ob.setdefault('props', ['C07'])
    # the width that orders terminals is measured on the same (category-substituted) expression the fallback compiles
    grw = repo.func('lark.utils:get_regexp_width')
    parsed = [c for c in grw.body_nodes() if isinstance(c, ast.Call) and norm(c.func).endswith('.parse') and c.args]
    compiled = [c for c in grw.body_nodes() if isinstance(c, ast.Call) and norm(c.func).endswith('.compile') and c.args]
    ok = len(parsed) == 1 and len(compiled) >= 1 and all(norm(c.args[0]) == norm(parsed[0].args[0]) for c in compiled) \
        and isinstance(parsed[0].args[0], ast.Name) and parsed[0].args[0].id not in grw.positional_names()
    res.ob('%s %s' % (grw.loc(), grw.qual), 'get_regexp_width measures the substituted expression (the one its fallback compiles)', ok)
    if not ok:
        res.finding(grw, parsed[0] if parsed else grw.node, 'get_regexp_width measures %s but compiles %s: with Unicode categories (regex module) '
                    'the width is wrong, and width is the second precedence key' % (
                        norm(parsed[0].args[0]) if parsed else '?', [norm(c.args[0]) for c in compiled]), construct='width-expr')
    # ---- alternatives inside one terminal: joined longest-first (re's alternation takes the first branch that matches) ----------------------
    te = repo.func('lark.load_grammar:TerminalTreeToPattern.expansions')
    srt = [c for c in te.body_nodes() if isinstance(c, ast.Call) and ((isinstance(c.func, ast.Attribute) and c.func.attr == 'sort') or norm(c.func) == 'sorted')]
    oka = len(srt) == 1
    whya = 'the alternatives are not sorted before they are joined'
    if oka:
        keyk = next((k.value for k in srt[0].keywords if k.arg == 'key'), None)
        rev = any(k.arg == 'reverse' and isinstance(k.value, ast.Constant) and k.value.value is True for k in srt[0].keywords)
        oka = isinstance(keyk, ast.Lambda) and isinstance(keyk.body, ast.Tuple) and len(keyk.body.elts) >= 2
        whya = 'the sort key is %s' % (norm(keyk) if keyk is not None else None)
        if oka:
            xv = keyk.args.args[0].arg

            def comp(e):
                neg_ = isinstance(e, ast.UnaryOp) and isinstance(e.op, ast.USub)
                return (norm(e.operand) if neg_ else norm(e)), (neg_ != rev)     # (text, descending?)
            parts = [comp(e) for e in keyk.body.elts]
            oka = parts[0] == ('%s.max_width' % xv, True) and parts[1] == ('%s.min_width' % xv, True)
            whya = 'the alternatives are ordered by %s, expected widest maximum first, then widest minimum' % [('-' if d else '') + t for t, d in parts]
            if oka:
                # the sorted list is what is joined, in that order
                joined = [c for c in te.body_nodes() if isinstance(c, ast.Call) and isinstance(c.func, ast.Attribute) and c.func.attr == 'join' and const_str(c.func.value) == '|']
                oka = len(joined) == 1 and srt[0].lineno < joined[0].lineno
                whya = 'the alternatives are joined before they are sorted'
    res.ob('%s %s' % (te.loc(), te.qual), 'the alternatives of one terminal are joined widest first (max_width, then min_width, descending)', oka, props=['C07', 'C14', 'C01'])
    if not oka:
        res.finding(te, srt[0] if srt else te.node, 'the alternatives of a terminal are not joined longest-first (%s): `"if" | /i[a-z]*/` compiles to a regexp whose '
                    'first branch wins although a later one matches more, so the terminal no longer matches what it denotes' % whya, construct='alternatives-order',
                    props=['C07', 'C14', 'C01'])
    # ---- keyword exception: every string terminal is compared with every regexp terminal (no early exit from the collecting loops) ---------
    cu = repo.func('lark.lexer:_create_unless')
    inner_loops = [l for l in cu.body_nodes() if isinstance(l, ast.For) and any(isinstance(a, ast.For) for a in ancestors(l))]
    outer_loops = [l for l in cu.node.body if isinstance(l, ast.For)]
    exits = [x for l in inner_loops + outer_loops for x in ast.walk(l) if isinstance(x, (ast.Break, ast.Return))]
    okx = bool(inner_loops) and not exits
    res.ob('%s %s' % (cu.loc(), cu.qual), 'the loops that collect the keyword exceptions have no early exit (every pair of terminals is examined)', okx)
    if not okx:
        res.finding(cu, exits[0] if exits else cu.node, '_create_unless leaves a collecting loop early (%s): string terminals after the first one that is skipped are '
                    'never registered as exceptions of the regexp terminal -- keywords are lexed as identifiers' % (type(exits[0]).__name__.lower() if exits else 'loops not found'),
                    construct='unless:early-exit')
    # ---- %ignore: each statement ignores one name ----------------------------------------------------------------------------
    # (a terminal given by name is ignored under that name and nothing is defined; anything else gets one fresh __IGNORE_n definition)
    from ..exprs import path_counts
    ig = repo.func('lark.load_grammar:GrammarBuilder._ignore')
    isn = ig.self_name() or 'self'
    cs = path_counts(ig.node.body, lambda x: isinstance(x, ast.Call) and norm(x.func) == '%s._ignore_names.append' % isn)
    ok = cs == {1}
    res.ob('%s %s' % (ig.loc(), ig.qual), 'every path through _ignore records exactly one ignored name', ok)
    if not ok:
        res.finding(ig, ig.node, '_ignore records %s names on some path: a terminal ignored by name is ignored a second time under a fresh '
                    '__IGNORE_n definition with the same pattern (two terminals with one pattern: the collision check and the precedence order '
                    'see a terminal the grammar does not have), or nothing is ignored' % sorted(cs), construct='ignore-once')
    # ---- %ignore: a node of a variadic kind is unpacked into one name only after its length was tested ----------------------------
    # (kinds read from the meta-grammar table RULES: K is variadic when one of its productions mentions a helper `_h` that mentions itself)
    from ..exprs import runs_only_if
    lgm = repo.module('lark.load_grammar')
    table = None
    for st_ in lgm.tree.body:
        if isinstance(st_, ast.Assign) and len(st_.targets) == 1 and norm(st_.targets[0]) == 'RULES' and isinstance(st_.value, ast.Dict):
            table = st_.value
    if table is None:
        raise AnalysisError('R-LEX-PRECEDENCE: the meta-grammar table RULES of lark.load_grammar is not a dict literal any more')
    prods = {}
    for k_, v_ in zip(table.keys, table.values):
        if isinstance(k_, ast.Constant) and isinstance(k_.value, str) and isinstance(v_, ast.List):
            prods[k_.value.lstrip('?!')] = [e_.value.split() for e_ in v_.elts if isinstance(e_, ast.Constant) and isinstance(e_.value, str)]
    variadic = {k_ for k_, ps_ in prods.items() for p_ in ps_ for h_ in p_
                if h_.startswith('_') and h_.islower() and any(h_ in q_ for q_ in prods.get(h_, []))}
    if not {'expansions', 'expansion'} <= variadic:
        raise AnalysisError('R-LEX-PRECEDENCE: expansions/expansion are not read as variadic node kinds from RULES (%s)' % sorted(variadic))
    n_unp = 0
    for st_ in ast.walk(ig.node):
        if not (isinstance(st_, ast.Assign) and len(st_.targets) == 1 and isinstance(st_.targets[0], (ast.Tuple, ast.List))
                and len(st_.targets[0].elts) == 1 and not isinstance(st_.targets[0].elts[0], ast.Starred)
                and isinstance(st_.value, ast.Attribute) and st_.value.attr == 'children' and isinstance(st_.value.value, ast.Name)):
            continue
        v_ = st_.value.value.id
        kinds = [k_ for k_ in sorted(variadic) if runs_only_if(st_, ast.parse('%s.data == %r' % (v_, k_), mode='eval').body)]
        if not kinds:
            continue
        n_unp += 1
        par_ = st_
        in_try = False
        while par_ is not None and par_ is not ig.node:
            par_ = parent(par_)
            if isinstance(par_, ast.Try) and par_.handlers:
                in_try = True
        ok = in_try or any(runs_only_if(st_, ast.parse(src_ % v_, mode='eval').body)
                           for src_ in ('len(%s.children) == 1', '1 == len(%s.children)'))
        res.ob('%s %s' % (ig.loc(st_), ig.qual), 'a %s node is unpacked into one name only where its length was tested to be 1' % kinds[0], ok)
        if not ok:
            res.finding(ig, st_, '_ignore unpacks the children of a %r node into a single name without having tested that there is exactly one '
                        '(the meta-grammar lets the node have any number): `%%ignore A | B` -- a well-formed statement -- makes the grammar loader '
                        'die with ValueError instead of defining the anonymous terminal' % kinds[0], construct='ignore:unpack-arity',
                        props=['C01', 'C02', 'C07', 'C14', 'C17'])
    if n_unp < 1:
        res.ob('%s %s' % (ig.loc(), ig.qual), '_ignore does not unpack a variadic node into a single name (nothing to test)', True)
    # ---- widths: (min, max) in that order everywhere ----------------------------------------------------------------------------------------
    pre = repo.cls('lark.lexer:PatternRE')
    for prop_, idx_ in (('min_width', 0), ('max_width', 1)):
        m_ = pre.methods.get(prop_)
        if m_ is None:
            raise AnalysisError('R-LEX-PRECEDENCE: PatternRE.%s not found' % prop_)
        rets_ = [r for r in m_.body_nodes() if isinstance(r, ast.Return) and r.value is not None]
        okw = len(rets_) == 1 and isinstance(rets_[0].value, ast.Subscript) and norm(rets_[0].value.value).endswith('._get_width()') and norm(rets_[0].value.slice) == str(idx_)
        res.ob('%s %s' % (m_.loc(), m_.qual), 'PatternRE.%s is component %d of the (min, max) width pair' % (prop_, idx_), okw)
        if not okw:
            res.finding(m_, m_.node, 'PatternRE.%s returns %s, expected component %d of _get_width() = (min, max): terminals are ordered by the wrong width'
                        % (prop_, [norm(r.value) for r in rets_], idx_), construct='width-component:%s' % prop_)
    gw = repo.func('lark.utils:get_regexp_width')
    # the regex-module fallback reports "unbounded" with the same constant the sre path uses (sre_parse.MAXWIDTH where it exists)
    # (the value the fallback returns as the maximum: `int(E)` in the handler of sre's error, E read through a local if there is one)
    hnd = [h for h in gw.body_nodes() if isinstance(h, ast.ExceptHandler)]
    gloc = {a.targets[0].id: a.value for a in gw.body_nodes() if isinstance(a, ast.Assign) and len(a.targets) == 1 and isinstance(a.targets[0], ast.Name)}
    mw = []
    for h in hnd:
        for r in ast.walk(h):
            if isinstance(r, ast.Return) and isinstance(r.value, ast.Tuple) and len(r.value.elts) == 2:
                e_ = r.value.elts[1]
                if isinstance(e_, ast.Call) and norm(e_.func) == 'int' and e_.args:
                    e_ = e_.args[0]
                if isinstance(e_, ast.Name) and e_.id in gloc:
                    e_ = gloc[e_.id]
                mw.append(ast.copy_location(ast.Assign(targets=[ast.Name(id='MAXWIDTH', ctx=ast.Store())], value=e_), r))
    if mw:
        okm = all(isinstance(a.value, ast.Call) and norm(a.value.func) == 'getattr' and len(a.value.args) == 3 and norm(a.value.args[0]) == 'sre_parse'
                  and const_str(a.value.args[1]) == 'MAXWIDTH' for a in mw)
        res.ob('%s %s' % (gw.loc(), gw.qual), 'the fallback for regex-only patterns reports an unbounded width as sre_parse.MAXWIDTH (when the interpreter has it)', okm)
        if not okm:
            res.finding(gw, mw[0], 'the regex-module fallback reports "unbounded" as %s while patterns the standard parser reads report sre_parse.MAXWIDTH: regex-only '
                        'patterns are ordered below every other unbounded regexp' % norm(mw[0].value), construct='width-unbounded')
    # every flag of a pattern is applied (no early exit from the wrapping loop)
    gf = repo.func('lark.lexer:Pattern._get_flags')
    floops = [l for l in gf.body_nodes() if isinstance(l, ast.For) and norm(l.iter).endswith('.flags')]
    if len(floops) != 1:
        raise AnalysisError('R-LEX-PRECEDENCE: Pattern._get_flags: cannot find the loop over the flags')
    exits_ = [x for x in ast.walk(floops[0]) if isinstance(x, (ast.Return, ast.Break))]
    okf = not exits_
    res.ob('%s %s' % (gf.loc(), gf.qual), 'every flag of the pattern is wrapped around the regexp (no early exit)', okf)
    if not okf:
        res.finding(gf, exits_[0], 'Pattern._get_flags leaves its loop at the first flag: a pattern with two flags is compiled with one of them', construct='flags-early-exit')
    # an ignored anonymous terminal has the default priority of any terminal
    igd = [c for c in ig.body_nodes() if isinstance(c, ast.Call) and norm(c.func) == 'Definition']
    if igd:
        okp = all(any(k.arg == 'options' and norm(k.value) == 'TOKEN_DEFAULT_PRIORITY' for k in c.keywords) or (len(c.args) >= 4 and norm(c.args[3]) == 'TOKEN_DEFAULT_PRIORITY') or
                  (len(c.args) >= 3 and norm(c.args[-1]) == 'TOKEN_DEFAULT_PRIORITY') for c in igd)
        res.ob('%s %s' % (ig.loc(), ig.qual), 'the terminal made for `%ignore <literal>` gets TOKEN_DEFAULT_PRIORITY', okp)
        if not okp:
            res.finding(ig, igd[0], 'the anonymous terminal made for an ignored literal / regexp does not get the default terminal priority (%s): it outranks '
                        'the grammar\'s own terminals of default priority' % norm(igd[0])[:90], construct='ignore-priority')
    # ---- the configured regexp module ----------------------------------------------------------------------------------------
    # a function that is handed the regexp module to use (self.re / conf.re_module / a parameter) does not reach for the global `re`
    n_cfg = 0
    for f in repo.functions.values():
        if not f.module.name.startswith('lark') or f.module.name.startswith('lark.tools'):
            continue
        conf = [n for n in f.body_nodes() if isinstance(n, ast.Attribute) and n.attr in ('re', 're_module') and isinstance(n.ctx, ast.Load)] + \
               [p for p in f.param_names() if p in ('re_', 're_module')]
        if not conf:
            continue
        n_cfg += 1
        uses = [n for n in f.body_nodes() if isinstance(n, ast.Name) and n.id == 're' and isinstance(n.ctx, ast.Load)]
        okf = not uses
        res.ob('%s %s' % (f.loc(), f.qual), 'uses the configured regexp module only, not the global `re`', okf)
        if not okf:
            st_ = enclosing_stmt(uses[0])
            res.finding(f, st_, 'this function is handed the regexp module to use (%s) but reaches for the global `re` in `%s`: with regex=True '
                        'part of the lexer is built with the other module (patterns only `regex` understands fail or match differently)'
                        % (norm(conf[0]) if not isinstance(conf[0], str) else conf[0], norm(st_)[:90]), construct='configured-re-module')
    res.require_instances(n_cfg, 5, 'functions with a configured regexp module')
    return res


def f_loc(f: FuncInfo, n: ast.AST) -> str:
    return '%s %s' % (f.loc(n), f.qual)
