"""R-STANDALONE-CLOSURE [C11 C16]: the module produced by lark.tools.standalone is closed under name
resolution for its supported API.

The generated module is reconstructed *statically*: EXTRACT_STANDALONE_FILES and the
`###{standalone` / `###}` line protocol are re-implemented over source text and the epilogue is read off
the string constants `gen_standalone` emits.  Nothing is generated, imported or executed.

(a) module level: every name used by a class header, decorator, default argument or class-body /
    module-level statement is bound earlier in the concatenation;
(b) every global name used inside a function of the module is bound somewhere in the module, is a
    builtin, or the function is one of the frozen build-from-grammar entry points the stand-alone does
    not support; names guarded by the file's own `try/except NameError` idiom are excused;
(c) no stand-alone section imports from the lark package itself.
"""
from __future__ import annotations

import ast
import builtins
import re
import symtable
from typing import Dict, List, Optional, Set, Tuple

from ..model import Repo, AnalysisError, norm, const_str
from ..report import Ctx, RuleResult

SA = 'lark.tools.standalone'

# Functions of the generated module that need the grammar compiler, which the stand-alone does not ship
# (documented: it only loads the embedded tables).  One row per function, with the names it may miss.
UNSUPPORTED = {
    'Lark.__init__': 'builds a parser from grammar text (load_grammar, cache handling)',
    'Lark.open': 'reads a grammar file and calls __init__',
    'Lark.open_from_package': 'FromPackageLoader is part of the grammar loader',
    'Lark._build_lexer': 'only called on instances built from a grammar (lexer-only mode / lex())',
    'Lark.save': 'only meaningful for instances built from a grammar (SerializeMemoizer is shipped, Rule/TerminalDef memo ok)',
    'Lark._load': None,     # supported: listed to make the contrast explicit (None = not excused)
    'LALR_Parser.__init__': 'runs LALR_Analyzer on a grammar',
    'BasicLexer.__init__': None,
    '_check_regex_collisions': 'guarded by has_interegular, which is False in the generated module',
    'ContextualLexer.__init__': None,
    'Serialize.memo_serialize': 'save side: the stand-alone only loads (Enumerator/_serialize are not shipped)',
    'Serialize.serialize': 'save side: the stand-alone only loads',
    'SerializeMemoizer.__init__': 'save side: the stand-alone only loads',
    'SerializeMemoizer.serialize': 'save side: the stand-alone only loads',
    'ParseTableBase.serialize': 'save side: the stand-alone only loads',
    'Lark._build_parser': 'only called from Lark.__init__ (build from grammar)',
    'UnexpectedEOF.__init__': 'raised only by the Earley parser, which the stand-alone module does not contain',
}
# (function, name) pairs excused by a guard the generated module itself establishes
GUARDED = {
    ('_check_regex_collisions', 'interegular'): 'only called under `if has_interegular`',
    ('ContextualLexer.__init__', 'interegular'): 'use dominated by `has_interegular and ...`',
    ('Lark._load', 'Grammar'): "dominated by `'grammar' in data`, which is only written under cache_grammar",
    ('Lark._load', 'regex'): 'only when the caller passes regex=True (requires the regex module to be importable: documented)',
    ('Lark._deserialize_lexer_conf', 'regex'): 'only when the caller passes regex=True',
}


def reconstruct(repo: Repo) -> Tuple[str, List[Tuple[str, int, int]], List[str]]:
    """Returns (module text, [(relpath, first line in text, last line)], epilogue lines)."""
    sm = repo.module(SA)
    files = sm.const('EXTRACT_STANDALONE_FILES')
    if not isinstance(files, list) or not files:
        raise AnalysisError('EXTRACT_STANDALONE_FILES is not a non-empty list')
    parts: List[str] = []
    spans = []
    line = 1
    gen = repo.func(SA + ':gen_standalone')
    prologue, epilogue = [], []
    loop_seen = False
    for n in ast.walk(gen.node):
        pass
    # emitted constants in source order, split at the file loop
    loop = [n for n in gen.node.body if isinstance(n, ast.For)]
    if len(loop) != 1:
        # other loops may have been added around the emitted constants: the file loop is the one over the file list
        loop = [n for n in loop if 'EXTRACT_STANDALONE_FILES' in norm(n.iter)]
    if len(loop) != 1:
        raise AnalysisError('gen_standalone: expected one loop over EXTRACT_STANDALONE_FILES')
    loop_line = loop[0].lineno

    def emitted(call: ast.Call) -> Optional[str]:
        if not (isinstance(call.func, ast.Name) and call.func.id == 'output' and call.args):
            return None
        a = call.args[0]
        if isinstance(a, ast.Constant) and isinstance(a.value, str):
            return a.value
        if isinstance(a, ast.BinOp) and isinstance(a.op, ast.Mod) and isinstance(a.left, ast.Constant) \
                and isinstance(a.left.value, str):
            try:
                return a.left.value % (('0',) * a.left.value.count('%s'))
            except Exception:
                return a.left.value
        return None
    def fold(e: ast.AST, env: Dict[str, str]) -> Optional[str]:
        if isinstance(e, ast.Constant) and isinstance(e.value, str):
            return e.value
        if isinstance(e, ast.Name) and e.id in env:
            return env[e.id]
        if isinstance(e, ast.BinOp) and isinstance(e.op, ast.Add):
            l, r = fold(e.left, env), fold(e.right, env)
            return l + r if l is not None and r is not None else None
        if isinstance(e, ast.JoinedStr):
            out_ = ''
            for v_ in e.values:
                if isinstance(v_, ast.Constant):
                    out_ += str(v_.value)
                elif isinstance(v_, ast.FormattedValue) and fold(v_.value, env) is not None and v_.format_spec is None:
                    out_ += fold(v_.value, env)
                else:
                    return None
            return out_
        return None

    # loops over a literal tuple of tuples / strings whose elements start with constants are unrolled (the same lines written
    # once per name): each output(...) in their body is emitted once per element with the loop variables bound
    unrolled: Dict[int, List[Dict[str, str]]] = {}
    for lp_ in [n for n in gen.body_nodes() if isinstance(n, ast.For) and isinstance(n.iter, (ast.Tuple, ast.List)) and n is not loop[0]]:
        envs = []
        for el in lp_.iter.elts:
            env: Dict[str, str] = {}
            if isinstance(lp_.target, ast.Name) and isinstance(el, ast.Constant) and isinstance(el.value, str):
                env[lp_.target.id] = el.value
            elif isinstance(lp_.target, ast.Tuple) and isinstance(el, (ast.Tuple, ast.List)):
                for tv, ev in zip(lp_.target.elts, el.elts):
                    if isinstance(tv, ast.Name) and isinstance(ev, ast.Constant) and isinstance(ev.value, str):
                        env[tv.id] = ev.value
            envs.append(env)
        for n_ in ast.walk(lp_):
            if isinstance(n_, ast.Call):
                unrolled[id(n_)] = envs
    calls = sorted([n for n in gen.body_nodes() if isinstance(n, ast.Call)], key=lambda c: (c.lineno, c.col_offset))
    for c in calls:
        envs = unrolled.get(id(c), [{}])
        for env in envs:
            s = emitted(c)
            if s is None and isinstance(c.func, ast.Name) and c.func.id == 'output' and c.args:
                s = fold(c.args[0], env)
            if s is None:
                continue
            (prologue if c.lineno < loop_line else epilogue).append(s)
    text = ''
    for s in prologue:
        if s.startswith('#'):
            continue
        text += s + '\n'
    for rel in files:
        mname = 'lark.' + rel[:-3].replace('/', '.')
        if mname.endswith('.__init__'):
            mname = mname[:-9]
        m = repo.module(mname)
        st = m.standalone_text()
        if not st.strip():
            raise AnalysisError('%s has no ###{standalone section' % m.relpath)
        first = text.count('\n') + 1
        text += st
        if not text.endswith('\n'):
            text += '\n'
        spans.append((m.relpath, first, text.count('\n')))
    # epilogue: keep what parses; 'NAME = (' lines become 'NAME = None'
    ep_lines = []
    seen_names = set()
    for s in epilogue:
        mm = re.match(r'^(\w+) = \($', s)
        if mm:
            if mm.group(1) not in seen_names:
                ep_lines.append('%s = None' % mm.group(1))
                seen_names.add(mm.group(1))
            continue
        if s in (')',) or s.startswith('%'):
            continue
        ep_lines.append(s)
    # join def + body lines
    ep_text = '\n'.join(ep_lines) + '\n'
    try:
        ast.parse(ep_text)
    except SyntaxError:
        # keep only individually parsable lines
        keep = []
        for l in ep_lines:
            try:
                ast.parse(l)
                keep.append(l)
            except SyntaxError:
                if l.startswith('def '):
                    keep.append(l + ' pass')
        ep_text = '\n'.join(keep) + '\n'
    text += ep_text
    return text, spans, ep_lines


def _where(spans, lineno: int) -> str:
    for rel, a, b in spans:
        if a <= lineno <= b:
            return rel
    return '<epilogue>'


def _module_bindings(tree: ast.Module) -> Dict[str, int]:
    """name -> first line where it is bound at module level (following if/try blocks)."""
    out: Dict[str, int] = {}

    def bind(name, line):
        out.setdefault(name, line)

    def visit(body):
        for n in body:
            if isinstance(n, (ast.FunctionDef, ast.AsyncFunctionDef, ast.ClassDef)):
                bind(n.name, n.lineno)
            elif isinstance(n, ast.Import):
                for a in n.names:
                    bind((a.asname or a.name).split('.')[0], n.lineno)
            elif isinstance(n, ast.ImportFrom):
                for a in n.names:
                    bind(a.asname or a.name, n.lineno)
            elif isinstance(n, (ast.Assign, ast.AnnAssign, ast.AugAssign)):
                tg = n.targets if isinstance(n, ast.Assign) else [n.target]
                if isinstance(n, ast.AnnAssign) and n.value is None:
                    continue
                for t in tg:
                    for x in ast.walk(t):
                        if isinstance(x, ast.Name):
                            bind(x.id, n.lineno)
            elif isinstance(n, (ast.If, ast.Try, ast.With, ast.For, ast.While)):
                for field in ('body', 'orelse', 'finalbody'):
                    visit(getattr(n, field, []))
                for h in getattr(n, 'handlers', []):
                    visit(h.body)
    visit(tree.body)
    return out


def _module_level_uses(tree: ast.Module):
    """(name, line, context) for names evaluated when the module body runs: module statements, class
    headers and bodies, decorators, default arguments -- not function bodies, not annotations."""
    out = []

    def expr_names(e, ctx):
        if e is None:
            return
        for x in ast.walk(e):
            if isinstance(x, ast.Name) and isinstance(x.ctx, ast.Load):
                out.append((x.id, x.lineno, ctx))

    def visit(body, ctx, class_locals: Optional[Set[str]] = None):
        for n in body:
            if isinstance(n, (ast.FunctionDef, ast.AsyncFunctionDef)):
                for d in n.decorator_list:
                    expr_names(d, ctx + ' decorator of ' + n.name)
                for d in list(n.args.defaults) + [k for k in n.args.kw_defaults if k is not None]:
                    expr_names(d, ctx + ' default of ' + n.name)
                if class_locals is not None:
                    class_locals.add(n.name)
            elif isinstance(n, ast.ClassDef):
                for b in n.bases:
                    expr_names(b, 'bases of class ' + n.name)
                for d in n.decorator_list:
                    expr_names(d, 'decorator of class ' + n.name)
                cl: Set[str] = set()
                start = len(out)
                visit(n.body, 'body of class ' + n.name, cl)
                # names bound in the class body itself are not module-level uses
                kept = [u for u in out[start:] if u[0] not in cl]
                del out[start:]
                out.extend(kept)
                if class_locals is not None:
                    class_locals.add(n.name)
            elif isinstance(n, (ast.Import, ast.ImportFrom)):
                if class_locals is not None:
                    for a in n.names:
                        class_locals.add((a.asname or a.name).split('.')[0])
            elif isinstance(n, ast.AnnAssign):
                if n.value is not None:
                    expr_names(n.value, ctx)
                if class_locals is not None and isinstance(n.target, ast.Name):
                    class_locals.add(n.target.id)
            elif isinstance(n, ast.Assign):
                expr_names(n.value, ctx)
                if class_locals is not None:
                    for t in n.targets:
                        for x in ast.walk(t):
                            if isinstance(x, ast.Name):
                                class_locals.add(x.id)
            elif isinstance(n, (ast.If, ast.While)):
                expr_names(n.test, ctx)
                visit(n.body, ctx, class_locals)
                visit(n.orelse, ctx, class_locals)
            elif isinstance(n, ast.Try):
                catches_name_error = any(h.type is not None and 'NameError' in norm(h.type) for h in n.handlers)
                start = len(out)
                visit(n.body, ctx, class_locals)
                if catches_name_error:
                    del out[start:]      # the file's own idiom: unbound names here are expected and handled
                for h in n.handlers:
                    visit(h.body, ctx, class_locals)
                visit(n.orelse, ctx, class_locals)
                visit(n.finalbody, ctx, class_locals)
            elif isinstance(n, (ast.With, ast.For)):
                visit(n.body, ctx, class_locals)
            elif isinstance(n, ast.Expr):
                expr_names(n.value, ctx)
            elif isinstance(n, (ast.AugAssign,)):
                expr_names(n.value, ctx)
                expr_names(n.target, ctx)
    visit(tree.body, 'module level')
    return out


def _functions(tree: ast.Module):
    """(qualname, node) of every function in the module (methods as Class.name, nested as outer.inner)."""
    out = []

    def visit(body, prefix):
        for n in body:
            if isinstance(n, (ast.FunctionDef, ast.AsyncFunctionDef)):
                out.append((prefix + n.name, n))
                visit(n.body, prefix + n.name + '.')
            elif isinstance(n, ast.ClassDef):
                visit(n.body, prefix + n.name + '.')
            elif isinstance(n, (ast.If, ast.Try, ast.With, ast.For, ast.While)):
                for field in ('body', 'orelse', 'finalbody'):
                    visit(getattr(n, field, []), prefix)
                for h in getattr(n, 'handlers', []):
                    visit(h.body, prefix)
    visit(tree.body, '')
    return out


def _global_uses(fn_node: ast.AST) -> List[Tuple[str, int]]:
    """Global (non-local, non-builtin resolved later) names loaded inside a function body, nested
    functions excluded (they are listed separately), annotations excluded."""
    local: Set[str] = set()
    a = fn_node.args
    for p in list(a.posonlyargs) + list(a.args) + list(a.kwonlyargs) + ([a.vararg] if a.vararg else []) + ([a.kwarg] if a.kwarg else []):
        local.add(p.arg)
    declared_global: Set[str] = set()
    uses: List[Tuple[str, int]] = []

    def walk(n, top=False):
        if isinstance(n, (ast.FunctionDef, ast.AsyncFunctionDef)) and not top:
            local.add(n.name)
            for d in n.decorator_list + list(n.args.defaults) + [k for k in n.args.kw_defaults if k is not None]:
                walk(d)
            return
        if isinstance(n, ast.ClassDef):
            local.add(n.name)
            for b in n.bases:
                walk(b)
            for st in n.body:
                walk(st)
            return
        if isinstance(n, ast.Lambda):
            sub_local = {p.arg for p in n.args.args}
            for x in ast.walk(n.body):
                if isinstance(x, ast.Name) and isinstance(x.ctx, ast.Load) and x.id not in sub_local:
                    uses.append((x.id, x.lineno))
            return
        if isinstance(n, (ast.ListComp, ast.SetComp, ast.DictComp, ast.GeneratorExp)):
            for g in n.generators:
                for x in ast.walk(g.target):
                    if isinstance(x, ast.Name):
                        local.add(x.id)
        if isinstance(n, ast.Global):
            declared_global.update(n.names)
        if isinstance(n, ast.Name):
            if isinstance(n.ctx, (ast.Store, ast.Del)):
                local.add(n.id)
            else:
                uses.append((n.id, n.lineno))
        if isinstance(n, (ast.Import, ast.ImportFrom)):
            for al in n.names:
                local.add((al.asname or al.name).split('.')[0])
        if isinstance(n, ast.ExceptHandler) and n.name:
            local.add(n.name)
        if isinstance(n, ast.arg):
            return
        if isinstance(n, ast.AnnAssign):
            walk(n.target)
            if n.value is not None:
                walk(n.value)
            return
        for c in ast.iter_child_nodes(n):
            if isinstance(n, (ast.FunctionDef, ast.AsyncFunctionDef)) and c is n.returns:
                continue
            if isinstance(n, (ast.FunctionDef, ast.AsyncFunctionDef)) and c is n.args:
                continue
            walk(c)
    walk(fn_node, top=True)
    # a nested function's free variables resolve in the enclosing function first: handled by caller
    return [(nm, ln) for nm, ln in uses if nm not in local or nm in declared_global], local


def run(ctx: Ctx) -> RuleResult:
    repo = ctx.repo
    res = RuleResult('R-STANDALONE-CLOSURE', 'the generated stand-alone module binds every name its supported API uses')
    text, spans, ep = reconstruct(repo)
    try:
        tree = ast.parse(text)
    except SyntaxError as e:
        res.ob('reconstructed module', 'the concatenated stand-alone sections parse', False)
        res.finding(SA, None, 'the concatenation of the stand-alone sections is not valid Python: %s (in %s)' % (
            e, _where(spans, e.lineno or 0)), construct='syntax', module=repo.module(SA))
        return res
    res.ob('reconstructed module', 'the concatenated stand-alone sections parse (%d lines from %d files)' % (
        text.count('\n'), len(spans)), True)
    res.tables['files'] = [s[0] for s in spans]
    res.tables['epilogue'] = ep
    bound = _module_bindings(tree)
    builtin = set(dir(builtins)) | {'__name__', '__file__', '__doc__'}
    # (c) no imports from the package (function-level imports are attributed to their function)
    in_func: Dict[int, str] = {}
    for q, node in _functions(tree):
        for x in ast.walk(node):
            if isinstance(x, (ast.Import, ast.ImportFrom)):
                in_func.setdefault(id(x), q)
    for n in ast.walk(tree):
        if isinstance(n, (ast.Import, ast.ImportFrom)) and id(n) in in_func and UNSUPPORTED.get(in_func[id(n)]):
            res.ob('%s (generated line %d)' % (_where(spans, n.lineno), n.lineno),
                   '%s inside %s: excused (%s)' % (norm(n), in_func[id(n)], UNSUPPORTED[in_func[id(n)]]), True)
            continue
        if isinstance(n, ast.ImportFrom):
            bad = (n.level and n.level > 0) or (n.module or '').split('.')[0] == 'lark'
            res.ob('%s (generated line %d)' % (_where(spans, n.lineno), n.lineno), 'import %s is not from the lark package'
                   % (n.module or '.'), not bad)
            if bad:
                res.finding(SA, None, 'stand-alone section of %s imports from the lark package: %s' % (
                    _where(spans, n.lineno), norm(n)), construct=norm(n), module=repo.module(SA))
        elif isinstance(n, ast.Import):
            for a in n.names:
                bad = a.name.split('.')[0] == 'lark'
                if bad:
                    res.ob(_where(spans, n.lineno), 'import %s' % a.name, False)
                    res.finding(SA, None, 'stand-alone section of %s imports lark' % _where(spans, n.lineno),
                                construct=norm(n), module=repo.module(SA))
    # (a) module-level definite binding
    n_a = 0
    for name, line, where in _module_level_uses(tree):
        if name in builtin:
            continue
        n_a += 1
        b = bound.get(name)
        ok = b is not None and b <= line
        if not ok:
            res.ob('%s (generated line %d)' % (_where(spans, line), line), '%s: %s bound before use' % (where, name), False)
            res.finding(SA, None, 'in the generated module, %s uses %s before it is bound (%s; section of %s)' % (
                where, name, 'bound later at line %d' % b if b else 'never bound', _where(spans, line)),
                construct='module-level:%s:%s' % (where, name), module=repo.module(SA))
    res.ob('reconstructed module', '%d module-level name uses are bound earlier in the concatenation' % n_a, True)
    # (b) function closure
    n_b = 0
    funcs = _functions(tree)
    locals_of: Dict[str, Set[str]] = {}
    used_unsupported: Set[str] = set()
    used_guarded: Set[Tuple[str, str]] = set()
    for q, node in funcs:
        uses, local = _global_uses(node)
        locals_of[q] = local
        # enclosing function locals
        enclosing: Set[str] = set()
        parts = q.split('.')
        for i in range(1, len(parts)):
            enclosing |= locals_of.get('.'.join(parts[:i]), set())
        # class-body names are NOT visible in methods; module names are
        missing = sorted({nm for nm, _ in uses if nm not in bound and nm not in builtin and nm not in enclosing})
        n_b += 1
        if not missing:
            continue
        reason = UNSUPPORTED.get(q)
        if reason is None and q not in UNSUPPORTED:
            # a helper that is only called from build-from-grammar entry points shares their excuse
            short = q.split('.')[-1]
            callers = [q2 for q2, node2 in funcs if q2 != q and any(
                (isinstance(x, ast.Attribute) and x.attr == short) or (isinstance(x, ast.Name) and x.id == short) for x in ast.walk(node2))]
            if callers and all(UNSUPPORTED.get(c_) for c_ in callers):
                reason = 'only used by %s' % ', '.join(sorted(callers))
        for nm in missing:
            line = [ln for x, ln in uses if x == nm][0]
            site = '%s (generated line %d) %s' % (_where(spans, line), line, q)
            if reason:
                used_unsupported.add(q)
                res.ob(site, 'unbound %s: excused, %s is a build-from-grammar entry point (%s)' % (nm, q, reason), True)
                continue
            g = GUARDED.get((q, nm))
            if g:
                used_guarded.add((q, nm))
                res.ob(site, 'unbound %s in %s: excused, %s' % (nm, q, g), True)
                continue
            res.ob(site, '%s uses global %s, which the generated module binds' % (q, nm), False)
            sect = _where(spans, line)
            props = ['C11', 'C16'] if sect in ('lark/visitors.py', 'lark/parse_tree_builder.py') else ['C11']
            res.finding(SA, None, 'the generated stand-alone module never binds `%s`, used by %s (section of %s): calling it '
                        'raises NameError' % (nm, q, sect), construct='unbound:%s:%s' % (q, nm),
                        module=repo.module(SA), props=props)
    res.ob('reconstructed module', 'global names of %d functions resolved against %d module-level bindings' % (n_b, len(bound)), True)
    res.tables['unsupported_used'] = sorted(used_unsupported)
    res.tables['guarded_used'] = sorted('%s:%s' % x for x in used_guarded)
    res.require_instances(len(spans), 14, 'files contributing stand-alone sections')
    res.require_instances(n_b, 250, 'functions in the reconstructed module')
    # the command line of the generator: every switch it registers is also in the list of options handed to Lark(...)
    # (a switch that is parsed but not forwarded is silently ignored: the generated parser is built with the default)
    tm = repo.module('lark.tools')
    n_arms = 0
    for lp_ in [x for x in tm.tree.body if isinstance(x, ast.For)]:
        arms = []
        for st_ in ast.walk(lp_):
            if isinstance(st_, ast.If):
                arms.append(st_.body)
                if st_.orelse and not (len(st_.orelse) == 1 and isinstance(st_.orelse[0], ast.If)):
                    arms.append(st_.orelse)
        for arm in arms:
            reg = any(isinstance(c_, ast.Call) and norm(c_.func).endswith('.add_argument') for s_ in arm for c_ in ast.walk(s_))
            if not reg:
                continue
            n_arms += 1
            fwd = any(isinstance(c_, ast.Call) and norm(c_.func) == 'options.append' for s_ in arm for c_ in ast.walk(s_))
            res.ob('lark/tools/__init__.py:%d' % arm[0].lineno, 'a registered command-line switch is also recorded in `options`', fwd)
            if not fwd:
                res.finding('lark.tools', arm[0], 'a command-line switch is registered with the argument parser but not added to `options`: the '
                            'generator accepts it and then builds the parser without it', construct='cli-flag-not-forwarded',
                            module=tm, props=['C11'])
    if n_arms < 2:
        raise AnalysisError('R-STANDALONE-CLOSURE: found %d flag-registration arms in lark/tools/__init__.py, expected 2' % n_arms)
    # the entry point of the generated module exists and calls the loader the module ships
    ok = 'Lark_StandAlone' in bound and 'Lark' in bound and 'DATA' in bound and 'MEMO' in bound \
        and 'Shift' in bound and 'Reduce' in bound
    res.ob('epilogue', 'Lark_StandAlone, Lark, DATA, MEMO, Shift, Reduce are bound', ok)
    if not ok:
        res.finding(SA, None, 'the generated module lacks one of Lark_StandAlone/Lark/DATA/MEMO/Shift/Reduce',
                    construct='epilogue', module=repo.module(SA))
    # the epilogue overrides Shift/Reduce with the integers the encoder used: 0 / 1
    vals = {}
    for l in ep:
        mm = re.match(r'^(Shift|Reduce) = (\d+)$', l)
        if mm:
            vals[mm.group(1)] = int(mm.group(2))
    k = repo.cls('lark.parsers.lalr_analysis:ParseTableBase')
    dec = k.methods.get('deserialize')
    want = {}
    if dec is not None:
        for n in dec.body_nodes():
            if isinstance(n, ast.IfExp) and isinstance(n.test, ast.Compare) and isinstance(n.body, ast.Tuple):
                try:
                    tag = ast.literal_eval(n.test.comparators[0])
                    want[norm(n.body.elts[0])] = tag
                    want[norm(n.orelse.elts[0])] = 1 - tag
                except Exception:
                    pass
    # the command line builds what Lark(grammar, parser='lalr') builds: its --lexer default is the lexer 'auto' resolves to for LALR
    tmod = repo.module('lark.tools')
    ladd = [c for c in ast.walk(tmod.tree) if isinstance(c, ast.Call) and isinstance(c.func, ast.Attribute) and c.func.attr == 'add_argument'
            and any(const_str(a) == '--lexer' for a in c.args)]
    if len(ladd) != 1:
        raise AnalysisError('R-STANDALONE-CLOSURE: cannot find the --lexer switch of lark.tools')
    dflt = next((k.value for k in ladd[0].keywords if k.arg == 'default'), None)
    lk_init = repo.func('lark.lark:Lark.__init__')
    auto = None
    for a in lk_init.body_nodes():
        if isinstance(a, ast.Assign) and norm(a.targets[0]).endswith('options.lexer') and const_str(a.value) in ('contextual', 'basic'):
            from ..exprs import path_conditions as _pcs
            if any("parser == 'lalr'" in norm(t) and pol for t, pol in _pcs(a)):
                auto = const_str(a.value)
    if auto is None:
        raise AnalysisError('R-STANDALONE-CLOSURE: cannot find what lexer="auto" resolves to for parser="lalr" in Lark.__init__')
    ok = dflt is not None and const_str(dflt) == auto
    res.ob('lark/tools/__init__.py:%d' % ladd[0].lineno, "the --lexer default of the command-line tools is %r, what Lark resolves 'auto' to for LALR" % auto, ok)
    if not ok:
        res.finding('lark.tools', ladd[0], "the command line's --lexer default is %s while Lark(parser='lalr') uses %r: a module generated without -l lexes "
                    'differently from the parser it was generated from' % (norm(dflt) if dflt is not None else None, auto), construct='cli-default-lexer', module=tmod)
    return res
