"""R-RECONS-PROTOCOL [C19]: the agreement between what tree matching leaves out and what writing puts back.

C19 as a whole (reconstruct(parse(text)) re-parses to an equal tree, for every grammar of the supported class) is a value-level round trip
and is not decided.  Decided here is the producer / consumer protocol the round trip rests on, each clause a necessary condition:

  r1  ONE PREDICATE.  The tree-matching rules are built from a rule's expansion *minus* the symbols for which `is_discarded_terminal` holds,
      and the writer re-inserts a literal *exactly* for the symbols for which the same function holds (opposite polarity, same callee);
      the predicate itself is `is_term and filter_out`.
  r2  ONE CHILD PER KEPT SYMBOL.  The writer walks `meta.orig_expansion` in order; every round either appends one literal or takes exactly
      one child (`next(<iterator over children>)`), never both, never neither (path vectors); a child that is a list is spliced, anything
      else appended; after the walk the iterator must be exhausted.
  r3  THE ORIGINAL EXPANSION TRAVELS.  `make_recons_rule(sym, <filtered expansion>, r.expansion)`: what the match tree carries as
      `orig_expansion` is the rule's own expansion, not the filtered one; `_MakeTreeMatch.__call__` stores it together with the mark
      `match_tree = True`, which is what the writer tests before treating a node as matched.
  r4  LITERALS.  The text written for a discarded terminal is `term_subs[name](sym)` when given, else the terminal's pattern value -- only if
      that pattern is a string (else NotImplementedError).
  r5  INLINED SYMBOLS AGREE.  The symbols kept as non-terminals in matching rules are those of rules that are inlined / expanded / aliased
      (`_name`, expand1, aliased); the same tests route the rule itself (yielded as a matching rule, or kept under its root name).
  r6  OUTPUT ORDER.  `_reconstruct` yields the written items in order, recursing into sub-trees; `reconstruct` appends every item in order,
      inserting one blank exactly between two identifier characters (when asked), and joins with ''.
"""
from __future__ import annotations

import ast
from typing import Dict, List, Optional, Set, Tuple

from ..model import Repo, FuncInfo, AnalysisError, norm, parent, ancestors, enclosing_stmt, const_str
from ..report import Ctx, RuleResult
from ..exprs import path_vectors, path_conditions, bool_relation, runs_only_if

TM = 'lark.tree_matcher:'
RC = 'lark.reconstruct:'


def _pe(text: str) -> ast.AST:
    return ast.parse(text, mode='eval').body


def _pred_polarity(node: ast.AST, call: ast.Call) -> Optional[bool]:
    """polarity with which `call` (a test) governs `node`: True = node runs when the call is true"""
    for t, pol in path_conditions(node):
        tt, p = t, pol
        while isinstance(tt, ast.UnaryOp) and isinstance(tt.op, ast.Not):
            tt, p = tt.operand, not p
        if tt is call:
            return p
    return None


def run(ctx: Ctx) -> RuleResult:
    repo = ctx.repo
    res = RuleResult('R-RECONS-PROTOCOL', 'what tree matching leaves out of a rule (is_discarded_terminal) is exactly what the writer puts back; one child per '
                                          'kept symbol; the original expansion travels with the match; output in order')
    # ---- r1: the predicate -------------------------------------------------------------------------------------------------------------
    pd = repo.func(TM + 'is_discarded_terminal')
    pp = pd.positional_names()[0]
    rets = [r for r in pd.body_nodes() if isinstance(r, ast.Return) and r.value is not None]
    ok = len(rets) == 1 and bool_relation(rets[0].value, _pe('%s.is_term and %s.filter_out' % (pp, pp))) == 'same'
    res.ob('%s %s' % (pd.loc(), pd.qual), 'r1: is_discarded_terminal(t) is `t.is_term and t.filter_out`', ok)
    if not ok:
        res.finding(pd, pd.node, 'is_discarded_terminal no longer means "a terminal that the tree builder filters out" (%s)' % [norm(r.value) for r in rets],
                    construct='r1:predicate')
    br = repo.func(TM + 'TreeMatcher._build_recons_rules')
    wt = repo.func(RC + 'WriteTokensTransformer.__default__')
    # the builder's filter
    comps = [c for c in br.body_nodes() if isinstance(c, (ast.ListComp, ast.GeneratorExp)) and norm(c.generators[0].iter).endswith('.expansion')]
    if len(comps) != 1:
        raise AnalysisError('R-RECONS-PROTOCOL: _build_recons_rules: cannot find the comprehension over the rule\'s expansion (%d candidates)' % len(comps))
    comp = comps[0]
    sv = norm(comp.generators[0].target)
    fcalls = [c for i_ in comp.generators[0].ifs for c in ast.walk(i_) if isinstance(c, ast.Call) and norm(c.func) == 'is_discarded_terminal']
    ok = len(comp.generators[0].ifs) == 1 and len(fcalls) == 1 and norm(fcalls[0].args[0]) == sv and \
        isinstance(comp.generators[0].ifs[0], ast.UnaryOp) and isinstance(comp.generators[0].ifs[0].op, ast.Not) and comp.generators[0].ifs[0].operand is fcalls[0]
    res.ob('%s %s' % (br.loc(comp), br.qual), 'r1: the matching rule keeps exactly the symbols that are not discarded terminals', ok)
    if not ok:
        res.finding(br, comp, 'the matching rules are built from the expansion filtered by %s, expected exactly `not is_discarded_terminal(%s)`: what matching '
                    'leaves out is no longer what the writer puts back' % ([norm(i_) for i_ in comp.generators[0].ifs], sv), construct='r1:builder-filter')
    # the writer's test
    wloops = [l for l in wt.node.body if isinstance(l, ast.For) and norm(l.iter).endswith('.orig_expansion')]
    if len(wloops) != 1:
        raise AnalysisError('R-RECONS-PROTOCOL: WriteTokensTransformer.__default__: cannot find the walk over meta.orig_expansion')
    wl = wloops[0]
    wsym = norm(wl.target)
    wcalls = [c for c in ast.walk(wl) if isinstance(c, ast.Call) and norm(c.func) == 'is_discarded_terminal']
    if len(wcalls) != 1:
        raise AnalysisError('R-RECONS-PROTOCOL: the writer does not test is_discarded_terminal exactly once per symbol (%d tests)' % len(wcalls))
    wc = wcalls[0]
    out_names = {norm(r.value) for r in wt.node.body if isinstance(r, ast.Return) and r.value is not None}
    if len(out_names) != 1:
        raise AnalysisError('R-RECONS-PROTOCOL: the writer does not return one list')
    out = next(iter(out_names))
    nexts = [c for c in ast.walk(wl) if isinstance(c, ast.Call) and norm(c.func) == 'next' and c.args]
    lits = [c for c in ast.walk(wl) if isinstance(c, ast.Call) and norm(c.func) == out + '.append' and _pred_polarity(enclosing_stmt(c), wc) is True]
    ok = norm(wc.args[0]) == wsym and len(nexts) == 1 and _pred_polarity(enclosing_stmt(nexts[0]), wc) is False and len(lits) == 1
    why = 'test on %s; a child is taken under polarity %s; literal appended under polarity True at %d places' % (
        norm(wc.args[0]), _pred_polarity(enclosing_stmt(nexts[0]), wc) if nexts else None, len(lits))
    res.ob('%s %s' % (wt.loc(wc), wt.qual), 'r1: the writer inserts a literal exactly for discarded terminals and takes a child exactly for the others', ok)
    if not ok:
        res.finding(wt, wc, 'the writer\'s use of is_discarded_terminal changed (%s): literals are written for symbols that have a child, or children are taken '
                    'for symbols that were filtered out' % why, construct='r1:writer-test')
    # ---- r2: one action per symbol --------------------------------------------------------------------------------------------------------
    iters = [a for a in wt.node.body if isinstance(a, ast.Assign) and isinstance(a.value, ast.Call) and norm(a.value.func) == 'iter' and a.value.args]
    chpar = wt.positional_names()[1] if len(wt.positional_names()) > 1 else 'children'
    okit = len(iters) == 1 and norm(iters[0].value.args[0]) == chpar and nexts and norm(nexts[0].args[0]) == norm(iters[0].targets[0])
    is_lit = lambda n_: isinstance(n_, ast.Call) and norm(n_.func) == out + '.append' and any(n_ is x for x in lits)       # noqa: E731
    is_next = lambda n_: isinstance(n_, ast.Call) and norm(n_.func) == 'next'                                                # noqa: E731
    vecs = path_vectors(wl.body, [is_lit, is_next])
    ok = okit and vecs == {(1, 0), (0, 1)}
    res.ob('%s %s' % (wt.loc(wl), wt.qual), 'r2: every round of the walk either writes one literal or takes one child of `%s` (paths: %s)' % (chpar, sorted(vecs)), ok)
    if not ok:
        res.finding(wt, wl, 'a round of the writer\'s walk over the expansion does (literals written, children taken) = %s, expected exactly one of the two%s: '
                    'children end up under the wrong symbols' % (sorted(vecs), '' if okit else '; the children are not taken from iter(%s)' % chpar), construct='r2:one-per-symbol')
    # the child goes to the output: spliced if a list, appended otherwise
    if nexts:
        xs = parent(nexts[0])
        xv = norm(xs.targets[0]) if isinstance(xs, ast.Assign) else None
        splice = [a for a in ast.walk(wl) if isinstance(a, ast.AugAssign) and norm(a.target) == out and norm(a.value) == xv] + \
                 [c for c in ast.walk(wl) if isinstance(c, ast.Call) and norm(c.func) == out + '.extend' and c.args and norm(c.args[0]) == xv]
        app = [c for c in ast.walk(wl) if isinstance(c, ast.Call) and norm(c.func) == out + '.append' and c.args and norm(c.args[0]) == xv]
        ok = xv is not None and len(splice) == 1 and len(app) == 1 and runs_only_if(enclosing_stmt(splice[0]) if not isinstance(splice[0], ast.AugAssign) else splice[0],
                                                                                     _pe('isinstance(%s, list)' % xv)) \
            and not runs_only_if(enclosing_stmt(app[0]), _pe('isinstance(%s, list)' % xv))
        pv = path_vectors(wl.body, [lambda n_: (isinstance(n_, ast.AugAssign) and norm(n_.target) == out) or (isinstance(n_, ast.Call) and norm(n_.func) in (out + '.append', out + '.extend')
                                                                                                               and not is_lit(n_)), is_next])
        ok = ok and pv == {(0, 0), (1, 1)}
        res.ob('%s %s' % (wt.loc(wl), wt.qual), 'r2: the child taken is written: spliced when it is a list, appended otherwise', ok)
        if not ok:
            res.finding(wt, nexts[0], 'the child taken for a kept symbol is not written exactly once (spliced if a list, appended otherwise): paths %s' % sorted(pv),
                        construct='r2:child-written')
    # exhausted afterwards
    after = wt.node.body[wt.node.body.index(wl) + 1:]
    ok = any(isinstance(a, ast.Assert) and any(isinstance(c, ast.Call) and norm(c.func) == 'is_iter_empty' for c in ast.walk(a.test)) for a in after)
    res.ob('%s %s' % (wt.loc(), wt.qual), 'r2: after the walk every child has been used (assert is_iter_empty)', ok)
    if not ok:
        res.finding(wt, wt.node, 'the writer no longer checks that every child of the node was used: surplus children are silently dropped from the output',
                    construct='r2:exhausted')
    ie = repo.func(RC + 'is_iter_empty')
    vals = {}
    for r in ie.body_nodes():
        if isinstance(r, ast.Return) and isinstance(r.value, ast.Constant):
            in_handler = any(isinstance(a, ast.ExceptHandler) for a in ancestors(r))
            vals[in_handler] = r.value.value
    ok = vals == {True: True, False: False}
    res.ob('%s %s' % (ie.loc(), ie.qual), 'r2: is_iter_empty answers True exactly when next() raises StopIteration', ok)
    if not ok:
        res.finding(ie, ie.node, 'is_iter_empty no longer answers True exactly for an exhausted iterator (%s)' % vals, construct='r2:is-iter-empty')
    # ---- r3: the original expansion travels ------------------------------------------------------------------------------------------------
    mk = [c for c in br.body_nodes() if isinstance(c, ast.Call) and norm(c.func) == 'make_recons_rule' and len(c.args) == 3]
    if len(mk) != 1:
        raise AnalysisError('R-RECONS-PROTOCOL: _build_recons_rules: cannot find make_recons_rule(sym, expansion, old_expansion)')
    loc_ = {a.targets[0].id: a.value for a in br.body_nodes() if isinstance(a, ast.Assign) and len(a.targets) == 1 and isinstance(a.targets[0], ast.Name)}
    a1 = mk[0].args[1]
    a1v = loc_.get(a1.id) if isinstance(a1, ast.Name) else a1
    rv = norm(comp.generators[0].iter)
    ok = a1v is comp and norm(mk[0].args[2]) == rv
    res.ob('%s %s' % (br.loc(mk[0]), br.qual), 'r3: the matching rule is made of (filtered expansion, original expansion %s)' % rv, ok)
    if not ok:
        res.finding(br, mk[0], 'make_recons_rule is given (%s, %s): the match tree must carry the rule\'s own expansion (%s), with the discarded terminals, for '
                    'the writer to walk' % (norm(mk[0].args[1]), norm(mk[0].args[2]), rv), construct='r3:orig-expansion')
    mr = repo.func(TM + 'make_recons_rule')
    mp = mr.positional_names()
    mtm = [c for c in mr.body_nodes() if isinstance(c, ast.Call) and norm(c.func) == '_MakeTreeMatch' and len(c.args) == 2]
    rl = [c for c in mr.body_nodes() if isinstance(c, ast.Call) and norm(c.func) == 'Rule' and len(c.args) >= 2]
    ok = len(mtm) == 1 and len(mp) >= 3 and norm(mtm[0].args[1]) == mp[2] and len(rl) == 1 and norm(rl[0].args[1]) == mp[1] and norm(rl[0].args[0]) == mp[0]
    res.ob('%s %s' % (mr.loc(), mr.qual), 'r3: make_recons_rule(origin, expansion, old) = Rule(origin, expansion, alias=_MakeTreeMatch(name, old))', ok)
    if not ok:
        res.finding(mr, mr.node, 'make_recons_rule no longer builds Rule(origin, expansion) carrying _MakeTreeMatch(..., old_expansion)', construct='r3:make-rule')
    mc = repo.func(TM + '_MakeTreeMatch.__call__')
    sn = mc.self_name() or 'self'
    sets = {norm(a.targets[0]).split('.')[-1]: norm(a.value) for a in mc.body_nodes() if isinstance(a, ast.Assign) and len(a.targets) == 1
            and isinstance(a.targets[0], ast.Attribute) and norm(a.targets[0].value).endswith('.meta')}
    init = repo.func(TM + '_MakeTreeMatch.__init__')
    ip = init.positional_names()
    stores = {norm(a.targets[0]): norm(a.value) for a in init.body_nodes() if isinstance(a, ast.Assign) and len(a.targets) == 1}
    exp_field = next((k.split('.')[-1] for k, v in stores.items() if len(ip) > 1 and v == ip[1]), None)
    ok = sets.get('match_tree') == 'True' and exp_field is not None and sets.get('orig_expansion') == '%s.%s' % (sn, exp_field)
    res.ob('%s %s' % (mc.loc(), mc.qual), 'r3: a matched node is marked match_tree = True and carries orig_expansion = the expansion the rule was made with', ok)
    if not ok:
        res.finding(mc, mc.node, '_MakeTreeMatch.__call__ sets %s: the writer recognises matched nodes by meta.match_tree and walks meta.orig_expansion' % sets,
                    construct='r3:mark')
    gd = [i_ for i_ in wt.node.body if isinstance(i_, ast.If) and 'match_tree' in norm(i_.test)]
    ok = len(gd) == 1 and any(isinstance(x, ast.Return) for x in gd[0].body) and \
        (bool_relation(gd[0].test, _pe("not getattr(meta, 'match_tree', False)")) == 'same' or bool_relation(gd[0].test, _pe('not meta.match_tree')) == 'same')
    res.ob('%s %s' % (wt.loc(), wt.qual), 'r3: nodes without the mark are rebuilt unchanged', ok)
    if not ok:
        res.finding(wt, gd[0] if gd else wt.node, 'the writer no longer leaves unmatched nodes alone exactly when meta.match_tree is absent / false', construct='r3:guard')
    # ---- r4: literals ------------------------------------------------------------------------------------------------------------------------
    lit = lits[0] if lits else None
    ok = False
    why = 'no literal written'
    region = wl            # where the literal is computed: the loop, or a helper function the loop delegates to
    r4_sym = wsym
    if lit is not None:
        srcs = [lit.args[0]]
        if isinstance(lit.args[0], ast.Name):
            ds_ = [a for a in ast.walk(wl) if isinstance(a, ast.Assign) and len(a.targets) == 1 and norm(a.targets[0]) == lit.args[0].id]
            if len(ds_) == 1:
                srcs = [ds_[0].value]
        if len(srcs) == 1 and isinstance(srcs[0], ast.Call) and isinstance(srcs[0].func, (ast.Name, ast.Attribute)):
            hname = srcs[0].func.id if isinstance(srcs[0].func, ast.Name) else srcs[0].func.attr
            hs = [h for h in repo.functions.values() if h.module is wt.module and h.name == hname and h is not wt]
            if len(hs) == 1 and any(norm(a_) == wsym for a_ in srcs[0].args):
                hp = hs[0].positional_names()
                off = 0 if isinstance(srcs[0].func, ast.Name) else 0
                r4_sym = hp[[norm(a_) for a_ in srcs[0].args].index(wsym) + off]
                region = hs[0].node
    if lit is not None:
        wsym_, wsym = wsym, r4_sym
        v = lit.args[0].id if isinstance(lit.args[0], ast.Name) and region is wl else '<return>'
        if region is wl:
            defs = [a for a in ast.walk(wl) if isinstance(a, ast.Assign) and len(a.targets) == 1 and norm(a.targets[0]) == v]
        else:
            # the helper's returns play the part of the assignments
            defs = [ast.copy_location(ast.Assign(targets=[ast.Name(id='<return>', ctx=ast.Store())], value=r_.value), r_) for r_ in ast.walk(region)
                    if isinstance(r_, ast.Return) and r_.value is not None]
            for d_, r_ in zip(defs, [r_ for r_ in ast.walk(region) if isinstance(r_, ast.Return) and r_.value is not None]):
                d_._parent = getattr(r_, '_parent', None)
                d_._ret = r_
        wl_ = wl
        wl = region
        subs = [a for a in defs if 'term_subs[%s.name](%s)' % (wsym, wsym) in norm(a.value)]
        wloc = {a.targets[0].id: norm(a.value) for a in ast.walk(wl) if isinstance(a, ast.Assign) and len(a.targets) == 1 and isinstance(a.targets[0], ast.Name)}

        def full(e) -> str:
            t_ = norm(e)
            head = t_.split('.')[0]
            return wloc[head] + t_[len(head):] if head in wloc and head != v else t_
        pats = [a for a in defs if full(a.value).endswith('.pattern.value') and '[%s.name]' % wsym in full(a.value)]
        ok = len(defs) == 2 and len(subs) == 1 and len(pats) == 1
        why = 'the literal is %s' % [norm(a.value) for a in defs]
        if ok:
            anchor_ = getattr(pats[0], '_ret', pats[0])
            in_handler = any(isinstance(a, ast.ExceptHandler) and a.type is not None and 'KeyError' in norm(a.type) for a in ancestors(anchor_))
            tdef = norm(pats[0].value)[:-len('.pattern.value')]
            tdef_full = full(pats[0].value)[:-len('.pattern.value')]
            guards = [r for r in ast.walk(wl) if isinstance(r, ast.Raise) and 'NotImplementedError' in norm(r)]
            ok = in_handler and len(guards) == 1 and (runs_only_if(guards[0], _pe('not isinstance(%s.pattern, PatternStr)' % tdef)) or runs_only_if(guards[0], _pe('not isinstance(%s.pattern, PatternStr)' % tdef_full))) \
                and guards[0].lineno < getattr(pats[0], '_ret', pats[0]).lineno
            why = 'pattern value used as fallback of term_subs=%s, refused unless the pattern is a string=%s' % (in_handler, len(guards) == 1)
    if lit is not None:
        wl, wsym = wl_, wsym_
    res.ob('%s %s' % (wt.loc(), wt.qual), 'r4: a discarded terminal is written as term_subs[name](sym), else as the value of its string pattern (regexps refused)', ok)
    if not ok:
        res.finding(wt, lit if lit is not None else wt.node, 'the text written for a discarded terminal changed (%s)' % why, construct='r4:literal')
    # ---- r5: which symbols stay non-terminals / how the rule is routed ---------------------------------------------------------------------------
    nts = [a for a in br.body_nodes() if isinstance(a, ast.Assign) and isinstance(a.value, ast.SetComp) and len(a.value.generators) == 1 and len(a.value.generators[0].ifs) == 1]
    nts = [a for a in nts if 'startswith' in norm(a.value.generators[0].ifs[0])]
    if len(nts) != 1:
        raise AnalysisError('R-RECONS-PROTOCOL: _build_recons_rules: cannot find the set of symbols kept as non-terminals')
    ntv = norm(nts[0].targets[0])
    g0 = nts[0].value.generators[0]
    s0 = norm(g0.target)
    e1 = [a for a in br.body_nodes() if isinstance(a, ast.Assign) and isinstance(a.value, ast.SetComp) and any('.options.expand1' in norm(i_) for i_ in a.value.generators[0].ifs)]
    # the alias table: what gets `<r>.alias` appended under `<r>.origin` (a defaultdict, or a dict through setdefault)
    al_names = set()
    for c in br.body_nodes():
        if isinstance(c, ast.Call) and isinstance(c.func, ast.Attribute) and c.func.attr == 'append' and c.args and norm(c.args[0]).endswith('.alias'):
            recv = c.func.value
            if isinstance(recv, ast.Subscript) and norm(recv.slice).endswith('.origin'):
                al_names.add(norm(recv.value))
            elif isinstance(recv, ast.Call) and isinstance(recv.func, ast.Attribute) and recv.func.attr == 'setdefault' and recv.args and norm(recv.args[0]).endswith('.origin'):
                al_names.add(norm(recv.func.value))
    if len(e1) != 1 or len(al_names) != 1:
        raise AnalysisError('R-RECONS-PROTOCOL: _build_recons_rules: cannot find the expand1 set / the alias table')
    E1, AL = norm(e1[0].targets[0]), next(iter(al_names))
    want = "%s.name.startswith('_') or %s in %s or %s in %s" % (s0, s0, E1, s0, AL)
    ok = bool_relation(g0.ifs[0], _pe(want)) == 'same'
    res.ob('%s %s' % (br.loc(nts[0]), br.qual), 'r5: symbols stay non-terminals in matching rules iff their rule is inlined, expand1 or aliased', ok)
    if not ok:
        res.finding(br, nts[0], 'the symbols kept as non-terminals are chosen by %s, expected %s' % (norm(g0.ifs[0]), want), construct='r5:nonterminals')
    elt = comp.elt
    ok = isinstance(elt, ast.IfExp) and bool_relation(elt.test, _pe('%s in %s' % (sv, ntv))) in ('same', 'negated')
    if ok:
        keep, term = (elt.body, elt.orelse) if bool_relation(elt.test, _pe('%s in %s' % (sv, ntv))) == 'same' else (elt.orelse, elt.body)
        ok = norm(keep) == sv and norm(term) == 'Terminal(%s.name)' % sv
    res.ob('%s %s' % (br.loc(comp), br.qual), 'r5: a kept symbol is itself if it stays a non-terminal, else the terminal of its name (a sub-tree is matched like a token)', ok)
    if not ok:
        res.finding(br, comp, 'the element of the filtered expansion is %s, expected `%s if %s in %s else Terminal(%s.name)`' % (norm(elt), sv, sv, ntv, sv),
                    construct='r5:element')
    rulev = next((k for k, v in loc_.items() if v is mk[0]), None)
    returned = {norm(r.value) for r in br.body_nodes() if isinstance(r, ast.Return) and r.value is not None}
    yr = [y for y in br.body_nodes() if isinstance(y, ast.Yield) and isinstance(y.value, ast.Name) and norm(y.value) == rulev] + \
         [c for c in br.body_nodes() if isinstance(c, ast.Call) and isinstance(c.func, ast.Attribute) and c.func.attr == 'append' and c.args
          and norm(c.args[0]) == rulev and norm(c.func.value) in returned]
    ok = False
    why = 'the matching rule is never yielded'
    if len(yr) == 1 and rulev is not None:
        symv = norm(mk[0].args[0])
        conds = path_conditions(enclosing_stmt(yr[0]))
        own = [(t, pol) for t, pol in conds if any(isinstance(x, ast.Name) and x.id == symv for x in ast.walk(t))]
        conj = ' and '.join('(%s)' % norm(t) if pol else '(not (%s))' % norm(t) for t, pol in own) or 'True'
        want2 = "(not (%s in %s and len(%s) != 1)) and (%s.name.startswith('_') or %s in %s)" % (symv, E1, norm(mk[0].args[1]), symv, symv, E1)
        ok = bool_relation(_pe(conj), _pe(want2)) == 'same'
        why = 'the matching rule is yielded under %s, expected %s' % (conj, want2)
    res.ob('%s %s' % (br.loc(), br.qual), 'r5: a rule is itself a matching rule iff it is inlined or expand1 (and then not a multi-symbol expand1 alternative)', ok)
    if not ok:
        res.finding(br, yr[0] if yr else br.node, 'routing of the matching rules changed (%s)' % why, construct='r5:routing')
    # ---- r7: the rule set a root is matched with ------------------------------------------------------------------------------------------------
    mt = repo.func(TM + 'TreeMatcher.match_tree')
    msn = mt.self_name() or 'self'
    km = repo.cls(TM + 'TreeMatcher')
    # the shared list self.rules is never changed after construction (a root's own rules must not leak into it)
    bad_mut = []
    for m_ in km.methods.values():
        if m_.name == '__init__':
            continue
        sn_ = m_.self_name() or 'self'
        aliases_ = {a.targets[0].id for a in m_.body_nodes() if isinstance(a, ast.Assign) and len(a.targets) == 1 and isinstance(a.targets[0], ast.Name)
                    and norm(a.value) == '%s.rules' % sn_}
        targets_ = {'%s.rules' % sn_} | aliases_
        for x in m_.body_nodes():
            if isinstance(x, ast.AugAssign) and norm(x.target) in targets_:
                bad_mut.append((m_, x))
            if isinstance(x, ast.Call) and isinstance(x.func, ast.Attribute) and x.func.attr in ('append', 'extend', 'insert', 'sort', 'reverse', 'remove', 'pop', 'clear') \
                    and norm(x.func.value) in targets_:
                bad_mut.append((m_, x))
    ok = not bad_mut
    res.ob('%s %s' % (km.module.loc(km.node), km.qual), 'r7: the shared rule list self.rules is not changed after construction', ok)
    if not ok:
        m_, x = bad_mut[0]
        res.finding(m_, x, 'the shared list of matching rules is changed in place (%s): the rules of one root stay in it, and a later node of another kind is '
                    'matched -- regrouped -- with them' % norm(x)[:80], construct='r7:shared-rules')
    cat = [b_ for b_ in mt.body_nodes() if isinstance(b_, ast.BinOp) and isinstance(b_.op, ast.Add) and norm(b_.left) == '%s.rules' % msn]
    if len({norm(b_) for b_ in cat}) == 1:
        cat = cat[:1]
    if len(cat) != 1:
        if not bad_mut:
            raise AnalysisError('R-RECONS-PROTOCOL: match_tree: cannot find `self.rules + <rules of the root>`')
    else:
        right = cat[0].right
        ok = isinstance(right, ast.Call) and norm(right.func) == '_best_rules_from_group' and len(right.args) == 1 and norm(right.args[0]).startswith('%s.rules_for_root[' % msn)
        res.ob('%s %s' % (mt.loc(cat[0]), mt.qual), 'r7: a root is matched with the shared rules plus the best of its own rules (one per distinct matching rule)', ok)
        if not ok:
            res.finding(mt, cat[0], 'the rules of the root are added as %s, expected _best_rules_from_group(self.rules_for_root[...]): alternatives that differ '
                        'only in filtered literals give the same matching rule twice' % norm(right)[:80], construct='r7:root-rules')
    # ---- r6: output order -----------------------------------------------------------------------------------------------------------------------
    rr = repo.func(RC + 'Reconstructor._reconstruct')
    lp = [l for l in rr.node.body if isinstance(l, ast.For)]
    ok = len(lp) == 1
    if ok:
        iv = norm(lp[0].target)
        vec = path_vectors(lp[0].body, [lambda n_: isinstance(n_, (ast.Yield, ast.YieldFrom))])
        rec = [y for y in ast.walk(lp[0]) if isinstance(y, ast.YieldFrom)]
        pl = [y for y in ast.walk(lp[0]) if isinstance(y, ast.Yield)]
        ok = vec == {(1,)} and len(rec) == 1 and len(pl) == 1 and norm(pl[0].value) == iv and norm(rec[0].value).endswith('._reconstruct(%s)' % iv) \
            and runs_only_if(enclosing_stmt(rec[0]), _pe('isinstance(%s, Tree)' % iv)) and 'write_tokens.transform' in norm(lp[0].iter) + ' '.join(norm(a.value) for a in rr.node.body if isinstance(a, ast.Assign))
    res.ob('%s %s' % (rr.loc(), rr.qual), 'r6: every written item is yielded once, in order; sub-trees are reconstructed in place', ok)
    if not ok:
        res.finding(rr, rr.node, '_reconstruct no longer yields every written item exactly once in order (recursing into sub-trees)', construct='r6:walk')
    rf = repo.func(RC + 'Reconstructor.reconstruct')
    lp = [l for l in rf.node.body if isinstance(l, ast.For)]
    ok = len(lp) == 1
    why = 'not one loop over the items'
    if ok:
        iv = norm(lp[0].target)
        apps = [c for c in ast.walk(lp[0]) if isinstance(c, ast.Call) and isinstance(c.func, ast.Attribute) and c.func.attr == 'append']
        item_apps = [c for c in apps if norm(c.args[0]) == iv]
        sp = [c for c in apps if const_str(c.args[0]) == ' ']
        vec = path_vectors(lp[0].body, [lambda n_: n_ in item_apps])
        ok = len(item_apps) == 1 and vec == {(1,)} and len(sp) == 1 and sp[0].lineno < item_apps[0].lineno and norm(sp[0].func) == norm(item_apps[0].func)
        why = 'every item must be appended once, a blank (if any) before it'
        if ok:
            prevs = [a for a in lp[0].body if isinstance(a, ast.Assign) and norm(a.value) == iv]
            prev = norm(prevs[0].targets[0]) if len(prevs) == 1 else None
            flag = rf.positional_names()[2] if len(rf.positional_names()) > 2 else 'insert_spaces'
            want = '%s and %s and %s and is_id_continue(%s[-1]) and is_id_continue(%s[0])' % (flag, prev, iv, prev, iv)
            conds = path_conditions(enclosing_stmt(sp[0]))
            conj = ' and '.join('(%s)' % norm(t) if pol else '(not (%s))' % norm(t) for t, pol in conds) or 'True'
            ok = prev is not None and bool_relation(_pe(conj), _pe(want)) == 'same'
            why = 'a blank is inserted under %s, expected %s' % (conj, want)
            if ok:
                rets_ = [r for r in rf.node.body if isinstance(r, ast.Return)]
                ok = len(rets_) == 1 and norm(rets_[0].value) == "''.join(%s)" % norm(item_apps[0].func.value)
                why = 'the result is %s' % (norm(rets_[0].value) if rets_ else None)
    res.ob('%s %s' % (rf.loc(), rf.qual), 'r6: items are joined in order; one blank exactly between two identifier characters when insert_spaces', ok)
    if not ok:
        res.finding(rf, rf.node, 'reconstruct() no longer joins the items in order with a blank exactly between two identifier characters (%s): the text '
                    're-lexes differently' % why, construct='r6:join')
    return res
