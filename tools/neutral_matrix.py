#!/venv/bin/python
"""Behaviour-preserving edits and the checks: regenerate neutral/MATRIX.md and neutral/matrix.json.

usage: tools/neutral_matrix.py [--file <candidate dir> <id>] [id ...]
A neutral edit (neutral/<id>/patch.diff + notes.md) is a refactoring of code some property depends on, written by a
sub-agent that saw only the property text and a scratch worktree (DESIGN §8), which keeps the whole test suite green
and changes no behaviour.  Every check must stay silent on it.  For each edit: a scratch git worktree of /repo's HEAD
(under /tmp, removed afterwards), the patch applied, every registered rule run once on that tree in-process,
findings attributed to properties as ./check does, known findings excluded.  Anything reported is a FALSE ALARM of
the framework.  `--file` first confirms a candidate (patch applies, the unedited suite passes with it) and copies it
into /verif/neutral/<id>/.  Nothing here runs lark except the confirmation's test-suite run."""
import json, os, re, subprocess, sys, tempfile, shutil, time
from concurrent.futures import ProcessPoolExecutor

VERIF = os.path.dirname(os.path.dirname(os.path.abspath(__file__)))
sys.path.insert(0, VERIF)
NEU = os.path.join(VERIF, 'neutral')


def apply_patch(wt, patch):
    for cmd in (['git', '-C', wt, 'apply', patch], ['git', '-C', wt, 'apply', '-C1', patch]):
        if subprocess.run(cmd, capture_output=True).returncode == 0:
            return True
    return subprocess.run('patch -p1 -F3 -s < %s' % patch, shell=True, cwd=wt, capture_output=True).returncode == 0


def scratch():
    wt = tempfile.mkdtemp(prefix='neutral-', dir='/tmp')
    os.rmdir(wt)
    subprocess.run(['git', '-C', '/repo', 'worktree', 'add', '--detach', wt, 'HEAD'], check=True, capture_output=True)
    return wt


def drop(wt):
    subprocess.run(['git', '-C', '/repo', 'worktree', 'remove', '--force', wt], capture_output=True)
    shutil.rmtree(wt, ignore_errors=True)


def confirm(args):
    cand, nid = args
    wt = scratch()
    try:
        if not apply_patch(wt, os.path.join(cand, 'patch.diff')):
            return nid, False, 'patch does not apply'
        env = dict(os.environ, PYTHONPATH=wt, PYTHONDONTWRITEBYTECODE='1')
        r = subprocess.run(['/venv/bin/python', '-m', 'pytest', '-q', '-p', 'no:cacheprovider', '--timeout=900',
                            '--continue-on-collection-errors'], cwd=wt, env=env, capture_output=True, text=True)
        summ = [l for l in (r.stdout + r.stderr).splitlines() if re.search(r'\d+ (passed|failed)', l)]
        tail = summ[-1].strip() if summ else ''
        ok = r.returncode == 0 and 'failed' not in tail
        if ok:
            dst = os.path.join(NEU, nid)
            os.makedirs(dst, exist_ok=True)
            for fn in ('patch.diff', 'notes.md'):
                if os.path.exists(os.path.join(cand, fn)):
                    shutil.copy(os.path.join(cand, fn), os.path.join(dst, fn))
            json.dump({'id': nid, 'suite': tail, 'repo_head': subprocess.run(['git', '-C', '/repo', 'rev-parse', '--short', 'HEAD'],
                                                                               capture_output=True, text=True).stdout.strip()},
                      open(os.path.join(dst, 'meta.json'), 'w'), indent=1)
        return nid, ok, tail
    finally:
        drop(wt)


def one(nid):
    from sa import registry
    from sa.model import Repo, AnalysisError
    from sa.report import Ctx, split_known
    wt = scratch()
    out = {'id': nid, 'reported': {}, 'errors': {}, 'applies': True}
    try:
        if not apply_patch(wt, os.path.join(NEU, nid, 'patch.diff')):
            out['applies'] = False
            return out
        repo = Repo(wt)
        ctx = Ctx(repo, 'quick')
        results = {}
        for rule in sorted(registry.RULES):
            try:
                results[rule] = registry.rule_fn(rule)(ctx)
            except AnalysisError as e:
                results[rule] = e
            except Exception as e:
                results[rule] = AnalysisError('internal error: %r' % (e,))
        for prop, spec in sorted(registry.PROPERTIES.items()):
            fs, errs, seen = [], [], set()
            for rule in spec['rules']:
                r = results[rule]
                if isinstance(r, Exception):
                    errs.append('%s: %s' % (rule, str(r)[:200]))
                    continue
                for f in r.findings:
                    if (f.props is not None and prop not in f.props) or f.key in seen:
                        continue
                    seen.add(f.key)
                    fs.append(f)
            known, new, _ = split_known(fs, prop)
            if new:
                out['reported'][prop] = sorted({'%s {%s}' % (f.rule, f.key.split(' :: ', 1)[-1][:110]) for f in new})
            if errs:
                out['errors'][prop] = errs
        return out
    finally:
        drop(wt)


def title_of(nid):
    n = os.path.join(NEU, nid, 'notes.md')
    if os.path.exists(n):
        for line in open(n).read().splitlines():
            line = line.strip().lstrip('#').strip()
            if line:
                return re.sub(r'^n\d\s*[-:–—]+\s*', '', line)[:140]
    return ''


def main():
    argv = sys.argv[1:]
    if argv[:1] == ['--file']:
        pairs = list(zip(argv[1::2], argv[2::2]))
        with ProcessPoolExecutor(int(os.environ.get('VERIF_JOBS', '8'))) as ex:
            for nid, ok, tail in ex.map(confirm, pairs):
                print(nid, 'filed' if ok else 'REJECTED', tail)
        return
    ids = argv or sorted(d for d in os.listdir(NEU) if os.path.isfile(os.path.join(NEU, d, 'patch.diff')))
    t0 = time.time()
    with ProcessPoolExecutor(int(os.environ.get('VERIF_JOBS', '10'))) as ex:
        rows = list(ex.map(one, ids))
    head = subprocess.run(['git', '-C', '/repo', 'rev-parse', '--short', 'HEAD'], capture_output=True, text=True).stdout.strip()
    if not argv:
        json.dump({'repo_head': head, 'rows': rows}, open(os.path.join(NEU, 'matrix.json'), 'w'), indent=1)
        with open(os.path.join(NEU, 'MATRIX.md'), 'w') as f:
            f.write('# Behaviour-preserving edits and the checks\n\nRegenerated by `tools/neutral_matrix.py` against /repo HEAD `%s`.  '
                    'Every row should read *silent*; anything else is a false alarm (VIOLATION on correct code) or an undecided run '
                    '(ANALYSIS-ERROR: the rule refuses to judge a shape it does not recognise).\n\n' % head)
            f.write('| edit | what | verdict | detail |\n|---|---|---|---|\n')
            for r in rows:
                if not r['applies']:
                    f.write('| %s | %s | – | patch no longer applies to HEAD |\n' % (r['id'], title_of(r['id'])))
                    continue
                if r['reported']:
                    v = 'FALSE ALARM'
                    d = '; '.join('**%s**: %s' % (p, ', '.join(x)) for p, x in sorted(r['reported'].items()))
                elif r['errors']:
                    v = 'undecided'
                    d = '; '.join('**%s**: %s' % (p, ', '.join(x)) for p, x in sorted(r['errors'].items()))
                else:
                    v, d = 'silent', ''
                f.write('| %s | %s | %s | %s |\n' % (r['id'], title_of(r['id']).replace('|', '/'), v, d.replace('|', '/')))
            n = len([r for r in rows if r['applies']])
            fa = len([r for r in rows if r['reported']])
            un = len([r for r in rows if not r['reported'] and r['errors']])
            f.write('\n%d edits apply: %d silent, %d false alarms, %d undecided.\n' % (n, n - fa - un, fa, un))
    for r in rows:
        tag = 'NO-APPLY' if not r['applies'] else ('FALSE-ALARM' if r['reported'] else ('undecided' if r['errors'] else 'silent'))
        print(r['id'], tag, '; '.join('%s: %s' % (p, ', '.join(v)) for p, v in sorted({**r['errors'], **r['reported']}.items()))[:400])
    print('%d edits in %.0fs' % (len(rows), time.time() - t0))


if __name__ == '__main__':
    main()
