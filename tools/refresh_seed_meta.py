#!/venv/bin/python
"""Recompute the `checks` section of seeded/<id>/meta.json with the rules as they are now (the section is written when a
seed is confirmed, and goes stale when rules are strengthened afterwards).  In memory: the patch is applied as an overlay
to /repo's working tree, every rule runs once, and each property's verdict is derived as its check would.

usage: tools/refresh_seed_meta.py [glob of seed ids, default *]"""
import fnmatch, json, os, sys
from concurrent.futures import ProcessPoolExecutor
from pathlib import Path

VERIF = os.path.dirname(os.path.dirname(os.path.abspath(__file__)))
sys.path.insert(0, VERIF)


def one(sid):
    from sa import registry
    from sa.model import Repo
    from sa.report import Ctx, split_known
    from sa.patching import overlay_from_patch
    d = os.path.join(VERIF, 'seeded', sid)
    ov = overlay_from_patch(Path(os.environ.get('VERIF_REPO', '/repo')), open(os.path.join(d, 'patch.diff')).read())
    if ov is None:
        return sid, None
    ctx = Ctx(Repo(overlay=ov))
    results = {}
    for rule in sorted(registry.RULES):
        try:
            results[rule] = registry.rule_fn(rule)(ctx)
        except Exception as e:
            results[rule] = e
    caught, errors, reports = [], [], {}
    for p, spec in sorted(registry.PROPERTIES.items()):
        fs, seen, err = [], set(), False
        for rule in spec['rules']:
            r = results[rule]
            if isinstance(r, Exception):
                err = True
                continue
            for f in r.findings:
                if (f.props is not None and p not in f.props) or f.key in seen:
                    continue
                seen.add(f.key)
                fs.append(f)
        _known, new, _ = split_known(fs, p)
        if new:
            caught.append(p)
            reports[p] = ['%s:%s: [%s] %s -- %s  {%s}' % (f.file, f.line, f.rule, f.where, f.message[:200], f.key.split(' :: ')[-1][:80]) for f in new][:4]
        elif err:
            errors.append(p)
    mp = os.path.join(d, 'meta.json')
    meta = json.load(open(mp))
    meta['checks'] = {'caught_by': caught, 'analysis_error': errors, 'reports': reports}
    json.dump(meta, open(mp, 'w'), indent=1)
    return sid, caught


def main():
    pat = sys.argv[1] if len(sys.argv) > 1 else '*'
    ids = sorted(d for d in os.listdir(os.path.join(VERIF, 'seeded'))
                 if fnmatch.fnmatch(d, pat) and os.path.exists(os.path.join(VERIF, 'seeded', d, 'meta.json')))
    with ProcessPoolExecutor(int(os.environ.get('JOBS', '8'))) as ex:
        for sid, caught in ex.map(one, ids):
            print(sid, 'patch does not apply' if caught is None else caught)


if __name__ == '__main__':
    main()
