"""Canonical form of the syntax trees the rules look at.

Rules must react to what the code does, not to how it is spelled.  Formatting and quoting disappear in `ast`; the
rewrites below remove a few more behaviour-preserving spellings, so that a maintainer's clean-up (introducing or
inlining a temporary, writing a conditional expression as an if statement, putting the constant on the other side of
`==`, adding a docstring) leaves every rule's view of the code unchanged.  Each rewrite is behaviour-preserving on its
own terms (stated per rewrite); positions of the original nodes are kept for reporting.

  N1  docstrings are dropped (a body left empty gets `pass`).
  N2  `<constant> == x`, `None is x`, `Discard is not res` ...: in a single symmetric comparison (==, !=, is, is not) of two
      side-effect-free operands, a constant -- or else a module-level looking name (sentinel, class) -- goes to the right;
      `0 < x` becomes `x > 0`.
  N3  `t = a if c else b` and `return a if c else b` become if statements (same evaluation order: c, then one arm).
  N4  a temporary that is assigned once in its function, read once, and read by the very next statement -- as the whole
      test of an `if`, the whole value of a `return`/assignment/expression statement, or anywhere in that statement's
      header when the temporary's expression is side-effect free -- is substituted into its use.

  N7  an if statement with both arms whose test is negative (`not X`, `a != b`, `a is not b`, `a not in b`) is turned round:
      positive test, arms swapped.

The twins of sa/twins.py generate the opposite spellings for the whole package; the thorough tier checks that every
rule reports the same findings on them.
"""
from __future__ import annotations

import ast
import copy as _copy
from typing import Dict, List, Optional, Set

SYM = (ast.Eq, ast.NotEq, ast.Is, ast.IsNot)
MIRROR = {ast.Lt: ast.Gt, ast.Gt: ast.Lt, ast.LtE: ast.GtE, ast.GtE: ast.LtE}


def pure(e: ast.AST) -> bool:
    for x in ast.walk(e):
        if isinstance(x, (ast.Call, ast.Await, ast.Yield, ast.YieldFrom, ast.NamedExpr, ast.Lambda, ast.ListComp, ast.SetComp,
                          ast.DictComp, ast.GeneratorExp)):
            return False
    return True


def _is_const(e: ast.AST) -> bool:
    if isinstance(e, ast.Constant):
        return True
    if isinstance(e, ast.UnaryOp) and isinstance(e.operand, ast.Constant):
        return True
    if isinstance(e, (ast.Tuple, ast.List)) and all(_is_const(x) for x in e.elts):
        return True
    return False


def _rank(e: ast.AST) -> int:
    """Which operand of a symmetric comparison goes to the right: constants (3), then module-level looking names --
    sentinels, classes: a bare Name starting with an upper-case letter, or Class.ATTR -- (2), then calls-free
    expressions built from those (1); everything else (0) stays on the left.  Equal ranks keep the source order."""
    if _is_const(e):
        return 3
    if isinstance(e, ast.Name) and e.id[:1].isupper():
        return 2
    if isinstance(e, ast.Attribute) and isinstance(e.value, ast.Name) and e.value.id[:1].isupper() and e.attr.isupper():
        return 2
    return 0


class _N13(ast.NodeTransformer):
    """getattr(x, '<identifier>') with exactly two arguments is x.<identifier>."""
    def visit_Call(self, n):
        self.generic_visit(n)
        if isinstance(n.func, ast.Name) and n.func.id == 'getattr' and len(n.args) == 2 and not n.keywords \
                and isinstance(n.args[1], ast.Constant) and isinstance(n.args[1].value, str) and n.args[1].value.isidentifier() \
                and not n.args[1].value.startswith('__'):
            return ast.copy_location(ast.Attribute(value=n.args[0], attr=n.args[1].value, ctx=ast.Load()), n)
        return n


class _N2(ast.NodeTransformer):
    def visit_Compare(self, n):
        self.generic_visit(n)
        if len(n.ops) == 1 and isinstance(n.ops[0], SYM) and pure(n.left) and pure(n.comparators[0]):
            l, r = n.left, n.comparators[0]
            if (_rank(l), ) > (_rank(r), ):
                n.left, n.comparators = r, [l]
        elif len(n.ops) == 1 and type(n.ops[0]) in MIRROR and pure(n.left) and pure(n.comparators[0]) \
                and _is_const(n.left) and not _is_const(n.comparators[0]):
            # 0 < x  ->  x > 0
            n.left, n.comparators, n.ops = n.comparators[0], [n.left], [MIRROR[type(n.ops[0])]()]
        return n


def _blocks(node: ast.AST):
    for field in ('body', 'orelse', 'finalbody'):
        b = getattr(node, field, None)
        if isinstance(b, list) and b and isinstance(b[0], ast.stmt):
            yield field, b
    if isinstance(node, ast.Try):
        for h in node.handlers:
            yield 'handler', h.body
    if isinstance(node, ast.Match):     # pragma: no cover
        for c in node.cases:
            yield 'case', c.body


def _n1(tree: ast.AST):
    for node in ast.walk(tree):
        if isinstance(node, (ast.FunctionDef, ast.AsyncFunctionDef, ast.ClassDef)):
            b = node.body
            if b and isinstance(b[0], ast.Expr) and isinstance(b[0].value, ast.Constant) and isinstance(b[0].value.value, str):
                doc = b[0]
                node.body = b[1:] or [ast.copy_location(ast.Pass(), doc)]


def _n3_stmt(st: ast.stmt) -> ast.stmt:
    if isinstance(st, ast.Assign) and len(st.targets) == 1 and isinstance(st.value, ast.IfExp) and pure(st.targets[0]):
        v = st.value
        a = ast.copy_location(ast.Assign(targets=[_copy.deepcopy(st.targets[0])], value=v.body), st)
        b = ast.copy_location(ast.Assign(targets=[_copy.deepcopy(st.targets[0])], value=v.orelse), st)
        return ast.copy_location(ast.If(test=v.test, body=[a], orelse=[b]), st)
    if isinstance(st, ast.Return) and isinstance(st.value, ast.IfExp):
        v = st.value
        return ast.copy_location(ast.If(test=v.test, body=[ast.copy_location(ast.Return(value=v.body), st)],
                                        orelse=[ast.copy_location(ast.Return(value=v.orelse), st)]), st)
    return st


def _n3(tree: ast.AST):
    changed = True
    while changed:
        changed = False
        for node in ast.walk(tree):
            for field, b in _blocks(node):
                for i, st in enumerate(b):
                    new = _n3_stmt(st)
                    if new is not st:
                        b[i] = new
                        changed = True


def _n4_function(fn: ast.AST):
    stores: Dict[str, int] = {}
    loads: Dict[str, int] = {}
    for x in ast.walk(fn):
        if isinstance(x, ast.Name):
            d = stores if isinstance(x.ctx, (ast.Store, ast.Del)) else loads
            d[x.id] = d.get(x.id, 0) + 1
        elif isinstance(x, (ast.Global, ast.Nonlocal)):
            for nm in x.names:
                stores[nm] = 99
        elif isinstance(x, ast.ExceptHandler) and x.name:
            stores[x.name] = stores.get(x.name, 0) + 1
    a = fn.args
    params = {p.arg for p in a.posonlyargs + a.args + a.kwonlyargs}
    if a.vararg:
        params.add(a.vararg.arg)
    if a.kwarg:
        params.add(a.kwarg.arg)
    cand = {n for n, c in stores.items() if c == 1 and loads.get(n, 0) == 1 and n not in params}
    if not cand:
        return
    # names touched by nested scopes are left alone (closures read them later)
    for x in ast.walk(fn):
        if x is not fn and isinstance(x, (ast.FunctionDef, ast.AsyncFunctionDef, ast.Lambda, ast.ClassDef, ast.ListComp, ast.SetComp,
                                          ast.DictComp, ast.GeneratorExp)):
            for y in ast.walk(x):
                if isinstance(y, ast.Name):
                    cand.discard(y.id)
    if not cand:
        return

    def header_exprs(st: ast.stmt) -> List[ast.AST]:
        if isinstance(st, ast.If):
            return [st.test]
        if isinstance(st, ast.Return):
            return [st.value] if st.value is not None else []
        if isinstance(st, ast.Assign):
            return [st.value]
        if isinstance(st, ast.AugAssign):
            return [st.value]
        if isinstance(st, ast.Expr):
            return [st.value]
        if isinstance(st, ast.Raise):
            return [x for x in (st.exc, st.cause) if x is not None]
        if isinstance(st, ast.Assert):
            return [st.test]
        return []

    def block(stmts: List[ast.stmt]):
        i = 0
        while i < len(stmts) - 1:
            s = stmts[i]
            if isinstance(s, ast.Assign) and len(s.targets) == 1 and isinstance(s.targets[0], ast.Name) and s.targets[0].id in cand:
                v = s.targets[0].id
                nxt = stmts[i + 1]
                hs = header_exprs(nxt)
                uses = [x for h in hs for x in ast.walk(h) if isinstance(x, ast.Name) and x.id == v and isinstance(x.ctx, ast.Load)]
                whole = len(hs) >= 1 and isinstance(hs[0], ast.Name) and hs[0].id == v and not isinstance(nxt, (ast.AugAssign,))
                first_arg = False
                if len(uses) == 1 and hs and isinstance(hs[0], ast.Call) and not isinstance(nxt, ast.AugAssign):
                    c0 = hs[0]
                    # v is a direct argument of the call that is the statement's value, and everything evaluated before it is
                    # side-effect free: the temporary's expression is evaluated at the same point either way
                    for k_, a_ in enumerate(c0.args):
                        if a_ is uses[0]:
                            first_arg = pure(c0.func) and all(pure(x) for x in c0.args[:k_])
                if len(uses) == 1 and (whole or first_arg or pure(s.value)):
                    target = uses[0]

                    class Sub(ast.NodeTransformer):
                        def visit_Name(self_, n):
                            return s.value if n is target else n
                    if isinstance(nxt, ast.If):
                        nxt.test = Sub().visit(nxt.test)
                    elif isinstance(nxt, ast.Return):
                        nxt.value = Sub().visit(nxt.value)
                    elif isinstance(nxt, (ast.Assign, ast.AugAssign, ast.Expr)):
                        nxt.value = Sub().visit(nxt.value)
                    elif isinstance(nxt, ast.Raise):
                        if nxt.exc is not None:
                            nxt.exc = Sub().visit(nxt.exc)
                        if nxt.cause is not None:
                            nxt.cause = Sub().visit(nxt.cause)
                    elif isinstance(nxt, ast.Assert):
                        nxt.test = Sub().visit(nxt.test)
                    del stmts[i]
                    cand.discard(v)
                    if i > 0:
                        i -= 1          # the previous statement may now be an adjacent definition of something in this one
                    continue
            i += 1

    for node in ast.walk(fn):
        if node is not fn and isinstance(node, (ast.FunctionDef, ast.AsyncFunctionDef, ast.ClassDef)):
            continue
        for field, b in _blocks(node):
            block(b)


def _n4(tree: ast.AST):
    for fn in ast.walk(tree):
        if isinstance(fn, (ast.FunctionDef, ast.AsyncFunctionDef)):
            _n4_function(fn)


_NEG = {ast.NotEq: ast.Eq, ast.IsNot: ast.Is, ast.NotIn: ast.In}


def _n7(tree: ast.AST):
    for node in ast.walk(tree):
        if isinstance(node, ast.If) and node.orelse:
            t = node.test
            if isinstance(t, ast.UnaryOp) and isinstance(t.op, ast.Not):
                node.test = t.operand
                node.body, node.orelse = node.orelse, node.body
            elif isinstance(t, ast.Compare) and len(t.ops) == 1 and type(t.ops[0]) in _NEG:
                t.ops = [_NEG[type(t.ops[0])]()]
                node.body, node.orelse = node.orelse, node.body


def _note_frozen(tree: ast.AST):
    for c in ast.walk(tree):
        if isinstance(c, ast.ClassDef) and any('dataclass' in ast.unparse(d) and 'frozen=True' in ast.unparse(d) for d in c.decorator_list):
            FROZEN_CLASSES.add(c.name)
            for c2 in ast.walk(tree):
                if isinstance(c2, ast.ClassDef) and any(isinstance(b, ast.Name) and b.id == c.name for b in c2.bases):
                    FROZEN_CLASSES.add(c2.name)


def normalise(tree: ast.Module) -> ast.Module:
    _note_frozen(tree)
    _n1(tree)
    _N13().visit(tree)
    _N2().visit(tree)
    _n3(tree)
    _n4(tree)
    _n3(tree)           # an inlined temporary may have produced `t = a if c else b`
    _n7(tree)
    normalise_local_more(tree)
    ast.fix_missing_locations(tree)
    return tree


# =================================================================================================
# Further local rewrites (N3y, N5, N8) and the whole-package pass (P1, P2)
#
#   N3y `yield a if c else b` as a statement becomes an if statement with two yields.
#   N5  copy propagation: `v = <side-effect-free expression>` (v stored once in the function, not a parameter, not used by a
#       nested scope) is substituted into all its uses when every use comes later in the same block (at any depth) and
#       nothing in between rebinds a name the expression reads, assigns an attribute/item of such a name, calls a method on
#       it or hands it to a call.  (`end = i + 1` used three times reads like `i + 1` written three times.)
#   N8  accumulation loops become comprehensions: `v = []` / `set()` / `{}` directly followed by a `for` whose body only
#       appends / adds / stores one element, possibly under `if` filters or `if ...: continue` guards, possibly through a
#       nested `for`; comprehension filters joined by `and` are split into separate `if` clauses.
#   N8b a list comprehension passed directly to frozenset/set/any/all/sum/tuple/sorted/min/max/join is a generator expression.
#   N9  a search loop `for T in IT: if C: S; break` (S not reading T) becomes `if any(C for T in IT): S`.
#   N11 `if a or b: <jump>` is split into consecutive ifs; N12 nested ifs without else arms are merged into one `and` test;
#       `not (a or b)` becomes `not a and not b` (De Morgan).
#   P1  keyword arguments of calls whose callee has one known signature in the package (function or class by name, method by
#       attribute name) are turned into positional ones as far as they continue the positional prefix.
#   P2  helpers the rules do not know by name are looked through: a call to a private (`_name`), small, non-recursive,
#       non-generator helper of the same module / class with a single exit is replaced by the helper's body with the arguments
#       substituted for the parameters.  "Known by name" = the identifier occurs in the rule sources (sa/rules, sa/facts.py,
#       known_findings.json): anchors stay what they are, code that a refactoring moved into a new helper stays visible at the
#       place the rules look at.  The helper itself remains in the model.

PURE_FUNCS = {'set', 'frozenset', 'len', 'tuple', 'list', 'sorted', 'str', 'int', 'isinstance', 'id', 'type', 'min', 'max', 'abs',
              'bool', 'dict', 'repr', 'ord', 'chr', 'float', 'bytes', 'hash', 'callable', 'issubclass', 'hasattr'}
PURE_METHODS = {'encode', 'decode', 'lower', 'upper', 'strip', 'lstrip', 'rstrip', 'startswith', 'endswith', 'format', 'join',
                'keys', 'values', 'items', 'get', 'isupper', 'islower', 'isdigit', 'end', 'start', 'group', 'span'}


def pure_call_ok(e: ast.AST) -> bool:
    """Side-effect free allowing calls of well-known pure builtins / string methods."""
    for x in ast.walk(e):
        if isinstance(x, (ast.Await, ast.Yield, ast.YieldFrom, ast.NamedExpr, ast.Lambda, ast.ListComp, ast.SetComp, ast.DictComp,
                          ast.GeneratorExp, ast.Starred)):
            return False
        if isinstance(x, ast.Call):
            if isinstance(x.func, ast.Name) and x.func.id in PURE_FUNCS:
                continue
            if isinstance(x.func, ast.Attribute) and x.func.attr in PURE_METHODS:
                continue
            return False
    return True


def _n3y(tree: ast.AST):
    for node in ast.walk(tree):
        for field, b in _blocks(node):
            for i, st in enumerate(b):
                if isinstance(st, ast.Expr) and isinstance(st.value, ast.Yield) and isinstance(st.value.value, ast.IfExp):
                    v = st.value.value
                    ya = ast.copy_location(ast.Expr(value=ast.copy_location(ast.Yield(value=v.body), st)), st)
                    yb = ast.copy_location(ast.Expr(value=ast.copy_location(ast.Yield(value=v.orelse), st)), st)
                    b[i] = ast.copy_location(ast.If(test=v.test, body=[ya], orelse=[yb]), st)


def _roots(e: ast.AST) -> Set[str]:
    return {x.id for x in ast.walk(e) if isinstance(x, ast.Name) and isinstance(x.ctx, ast.Load)}


def _kills(st: ast.AST, roots: Set[str], reads_heap: bool, var: str, paths: Optional[Set[str]] = None, self_name: Optional[str] = None) -> bool:
    """Can executing statement `st` change the value of an expression over `roots`?  `paths`: the access paths the expression
    reads from its heap roots (`self.options`, `line_ctr.char_pos`): only a store to one of them (or to a prefix / extension of
    it), or a non-pure method call on an object on such a path, counts -- a call on the function's own `self` does not (an
    object's methods do not usually rebind the attributes its constructor is reading)."""
    paths = paths or set()

    def related(p: str) -> bool:
        return any(q == p or q.startswith(p + '.') or q.startswith(p + '[') or p.startswith(q + '.') or p.startswith(q + '[') for q in paths)
    # in-place updates of a container that the expression inspects as a whole: S.append(x) changes len(S)
    for x in ast.walk(st):
        if isinstance(x, ast.Name) and isinstance(x.ctx, (ast.Store, ast.Del)) and x.id in roots:
            return True
        if isinstance(x, ast.ExceptHandler) and x.name in roots:
            return True
        if not reads_heap:
            continue
        if isinstance(x, (ast.Attribute, ast.Subscript)) and isinstance(x.ctx, (ast.Store, ast.Del)):
            base = x
            while isinstance(base, (ast.Attribute, ast.Subscript)):
                base = base.value
            if isinstance(base, ast.Name) and base.id in roots and (not paths or related(ast.unparse(x))):
                return True
        if isinstance(x, ast.Call):
            f = x.func
            if isinstance(f, ast.Attribute) and f.attr not in PURE_METHODS:
                base = f.value
                while isinstance(base, (ast.Attribute, ast.Subscript)):
                    base = base.value
                if isinstance(base, ast.Name) and base.id in roots:
                    recv = ast.unparse(f.value)
                    if recv == self_name:
                        continue
                    if not paths or related(recv):
                        return True
            # the object itself handed to a call: the callee may change it (a list passed down and appended to)
            for a in list(x.args) + [k.value for k in x.keywords]:
                if isinstance(a, ast.Name) and a.id in roots and a.id != self_name:
                    if isinstance(f, ast.Name) and (f.id in PURE_FUNCS or f.id in ('getattr', 'hasattr', 'partial')):
                        continue
                    return True
    return False


FROZEN_CLASSES: Set[str] = set()


def _n5_function(fn: ast.AST):
    changed = True
    rounds = 0
    while changed and rounds < 6:
        changed = False
        rounds += 1
        stores: Dict[str, int] = {}
        for x in ast.walk(fn):
            if isinstance(x, ast.Name) and isinstance(x.ctx, (ast.Store, ast.Del)):
                stores[x.id] = stores.get(x.id, 0) + 1
            elif isinstance(x, (ast.Global, ast.Nonlocal)):
                for nm in x.names:
                    stores[nm] = 99
            elif isinstance(x, ast.ExceptHandler) and x.name:
                stores[x.name] = stores.get(x.name, 0) + 1
        a = fn.args
        params = {p.arg for p in a.posonlyargs + a.args + a.kwonlyargs}
        if a.vararg:
            params.add(a.vararg.arg)
        if a.kwarg:
            params.add(a.kwarg.arg)
        nested: Set[str] = set()
        for x in ast.walk(fn):
            if x is not fn and isinstance(x, (ast.FunctionDef, ast.AsyncFunctionDef, ast.Lambda, ast.ClassDef)):
                for y in ast.walk(x):
                    if isinstance(y, ast.Name):
                        nested.add(y.id)
        for node in list(ast.walk(fn)):
            if node is not fn and isinstance(node, (ast.FunctionDef, ast.AsyncFunctionDef, ast.ClassDef)):
                continue
            for field, b in _blocks(node):
                for i, s in enumerate(b):
                    if not (isinstance(s, ast.Assign) and len(s.targets) == 1 and isinstance(s.targets[0], ast.Name)):
                        continue
                    v = s.targets[0].id
                    if v in params or v in nested or not pure_call_ok(s.value) or stores.get(v, 0) > 4:
                        continue
                    if stores.get(v) != 1:
                        # several definitions are fine when each one only feeds the statements that follow it in its own block
                        # (the same temporary written in two loops / two arms)
                        all_loads = [x for x in ast.walk(fn) if isinstance(x, ast.Name) and x.id == v and isinstance(x.ctx, ast.Load)]
                        defs_v = []
                        for node2 in ast.walk(fn):
                            for _f2, b2 in _blocks(node2):
                                for i2, s2 in enumerate(b2):
                                    if isinstance(s2, ast.Assign) and len(s2.targets) == 1 and isinstance(s2.targets[0], ast.Name) and s2.targets[0].id == v:
                                        defs_v.append((b2, i2))
                        if len(defs_v) != stores.get(v):
                            continue
                        covered = []
                        for b2, i2 in defs_v:
                            ids2 = {id(y) for st2 in b2[i2 + 1:] for y in ast.walk(st2)}
                            covered.append({id(x) for x in all_loads if id(x) in ids2})
                        if sum(len(c_) for c_ in covered) != len(all_loads) or len(set().union(*covered)) != len(all_loads):
                            continue
                        # ... and no definition sits in the region another one feeds (a conditional re-assignment reaches the same uses)
                        nested_def = False
                        def_stmts = [b2[i2] for b2, i2 in defs_v]
                        for b2, i2 in defs_v:
                            region = {id(y) for st2 in b2[i2 + 1:] for y in ast.walk(st2)}
                            if any(id(d_) in region for d_ in def_stmts if d_ is not b2[i2]):
                                nested_def = True
                        if nested_def:
                            continue
                    if isinstance(s.value, (ast.Constant, ast.List, ast.Dict, ast.Set, ast.Tuple)) or isinstance(s.value, ast.Name):
                        continue        # literals / plain aliases: containers are mutable objects, aliases are handled by the typer
                    if isinstance(s.value, ast.Call) and isinstance(s.value.func, ast.Name) and s.value.func.id in (
                            'set', 'list', 'dict', 'frozenset', 'tuple', 'sorted'):
                        continue        # a fresh container: an object with identity, not a value
                    if any(isinstance(x, ast.Slice) for x in ast.walk(s.value)):
                        continue        # a slice is a fresh container too
                    if sum(1 for _ in ast.walk(s.value)) > 40:
                        continue        # keep the canonical form readable (and the rewriting cheap)
                    if any(isinstance(x, ast.Subscript) and not isinstance(x.slice, ast.Slice) for x in ast.walk(s.value)):
                        # an item read can have an effect (defaultdict creates the entry): it must still happen where it happened --
                        # only propagated when the very next statement evaluates it unconditionally (in its header)
                        nxt_ = b[i + 1] if i + 1 < len(b) else None
                        hdr_ = []
                        if isinstance(nxt_, (ast.Assign, ast.AugAssign, ast.Expr, ast.Return)) and getattr(nxt_, 'value', None) is not None:
                            hdr_ = [nxt_.value] + (list(nxt_.targets) if isinstance(nxt_, ast.Assign) else [])
                        elif isinstance(nxt_, (ast.If, ast.While)):
                            hdr_ = [nxt_.test]
                        elif isinstance(nxt_, ast.For):
                            hdr_ = [nxt_.iter]
                        if not any(isinstance(y, ast.Name) and y.id == v and isinstance(y.ctx, ast.Load) for h_ in hdr_ for y in ast.walk(h_)):
                            continue
                    # every load of v lies in a later statement of this block
                    later = b[i + 1:]
                    inside = {id(x) for st in later for x in ast.walk(st)}
                    loads = [x for x in ast.walk(fn) if isinstance(x, ast.Name) and x.id == v and isinstance(x.ctx, ast.Load)]
                    if stores.get(v) != 1:
                        loads = [x for x in loads if id(x) in inside]
                    if len(loads) < 1 or not all(id(x) in inside for x in loads):
                        continue
                    # loops containing the definition re-execute it: uses must not be reached from an earlier iteration -> fine,
                    # the definition dominates them in every iteration
                    last = max(j for j, st in enumerate(later) if any(id(x) in {id(y) for y in ast.walk(st)} for x in loads))
                    roots = _roots(s.value)
                    # roots whose *state* the expression reads (attribute / item / non-pure method): a call on them or with them may
                    # change the value.  A root that is only used bare or as the receiver of a pure (string-like) method is a value.
                    heap_roots: Set[str] = set()
                    for x in ast.walk(s.value):
                        if isinstance(x, (ast.Attribute, ast.Subscript)):
                            par_is_pure_call = False
                            if isinstance(x, ast.Attribute) and x.attr in PURE_METHODS:
                                par_is_pure_call = True
                            if not par_is_pure_call:
                                base = x
                                while isinstance(base, (ast.Attribute, ast.Subscript)):
                                    base = base.value
                                if isinstance(base, ast.Name):
                                    heap_roots.add(base.id)
                    # maximal attribute / item paths the expression reads
                    read_paths: Set[str] = set()
                    inner_ids = set()
                    for x in ast.walk(s.value):
                        if isinstance(x, (ast.Attribute, ast.Subscript)) and id(x) not in inner_ids:
                            read_paths.add(ast.unparse(x))
                            y = x.value
                            while isinstance(y, (ast.Attribute, ast.Subscript)):
                                inner_ids.add(id(y))
                                y = y.value
                    self_nm = fn.args.args[0].arg if fn.args.args else None
                    # parameters annotated with a frozen dataclass of the package are values: nothing can change what they hold
                    for a_ in fn.args.posonlyargs + fn.args.args + fn.args.kwonlyargs:
                        if a_.arg in heap_roots and a_.annotation is not None and \
                                ast.unparse(a_.annotation).strip('\'"').split('[')[0] in FROZEN_CLASSES:
                            heap_roots = heap_roots - {a_.arg}
                    # what can change the value only matters up to the last use -- or anywhere inside a loop that also holds a use
                    last_line = max(getattr(x, 'lineno', 0) for x in loads)

                    def _relevant_kill(region: ast.AST) -> bool:
                        for sub in ast.walk(region):
                            if not isinstance(sub, ast.stmt):
                                continue
                            in_loop_with_use = any(isinstance(l_, (ast.For, ast.While)) and any(id(x) in {id(y) for y in ast.walk(l_)} for x in loads)
                                                   and any(sub is z for z in ast.walk(l_)) for l_ in ast.walk(region) if isinstance(l_, (ast.For, ast.While)))
                            if getattr(sub, 'lineno', 0) > last_line and not in_loop_with_use:
                                continue
                            # only the statement's own effects (not those of statements nested in it: they are visited themselves)
                            own = sub
                            if isinstance(sub, (ast.If, ast.For, ast.While, ast.With, ast.Try)):
                                hdr = [getattr(sub, 'test', None), getattr(sub, 'iter', None), getattr(sub, 'target', None)] + \
                                    [it.context_expr for it in getattr(sub, 'items', [])] + [it.optional_vars for it in getattr(sub, 'items', [])]
                                own = ast.Module(body=[ast.Expr(value=h) for h in hdr if h is not None], type_ignores=[])
                                if isinstance(sub, (ast.For,)) and sub.target is not None:
                                    if any(isinstance(x, ast.Name) and x.id in roots for x in ast.walk(sub.target)):
                                        return True
                            if _kills(own, roots - heap_roots, False, v) or _kills(own, heap_roots, True, v, read_paths, self_nm):
                                return True
                        return False
                    for x in ast.walk(s.value):
                        # an object whose *state* a call inside the expression inspects (len(S), sorted(d), set(kw)) is read through the heap
                        if isinstance(x, ast.Call):
                            for a_ in list(x.args) + [k_.value for k_ in x.keywords]:
                                if isinstance(a_, ast.Name):
                                    heap_roots.add(a_.id)
                                    read_paths.add(a_.id)
                    if any(_relevant_kill(st) for st in later[:last + 1]):
                        continue
                    ids = {id(x) for x in loads}

                    class Sub(ast.NodeTransformer):
                        def visit_Name(self_, n):
                            return _copy.deepcopy(s.value) if id(n) in ids else n
                    for j in range(len(later)):
                        b[i + 1 + j] = Sub().visit(later[j])
                    del b[i]
                    changed = True
                    break
                if changed:
                    break
            if changed:
                break


def _n5(tree: ast.AST):
    for fn in ast.walk(tree):
        if isinstance(fn, (ast.FunctionDef, ast.AsyncFunctionDef)):
            _n5_function(fn)


def _acc_body(body: List[ast.stmt], v: str, kind: str):
    """Reduce a loop body to (generators-and-filters, element) if all it does is add one element to accumulator v.
    Returns (clauses, elt) where clauses is a list of ('if', test) / ('for', target, iter), or None."""
    body = [s for s in body if not isinstance(s, ast.Pass)]
    clauses: List[tuple] = []
    # leading guards: if c: continue
    while len(body) > 1 and isinstance(body[0], ast.If) and not body[0].orelse and len(body[0].body) == 1 \
            and isinstance(body[0].body[0], ast.Continue):
        clauses.append(('if', ast.UnaryOp(op=ast.Not(), operand=body[0].test)))
        body = body[1:]
    if len(body) != 1:
        return None
    s = body[0]
    if isinstance(s, ast.If) and not s.orelse:
        r = _acc_body(s.body, v, kind)
        if r is None:
            return None
        return clauses + [('if', s.test)] + r[0], r[1]
    if isinstance(s, ast.For) and not s.orelse:
        r = _acc_body(s.body, v, kind)
        if r is None:
            return None
        return clauses + [('for', s.target, s.iter)] + r[0], r[1]
    if kind in ('list', 'set') and isinstance(s, ast.Expr) and isinstance(s.value, ast.Call) and isinstance(s.value.func, ast.Attribute) \
            and isinstance(s.value.func.value, ast.Name) and s.value.func.value.id == v \
            and s.value.func.attr == ('append' if kind == 'list' else 'add') and len(s.value.args) == 1 and not s.value.keywords:
        return clauses, s.value.args[0]
    if kind == 'dict' and isinstance(s, ast.Assign) and len(s.targets) == 1 and isinstance(s.targets[0], ast.Subscript) \
            and isinstance(s.targets[0].value, ast.Name) and s.targets[0].value.id == v:
        return clauses, (s.targets[0].slice, s.value)
    return None


def _simplify_not(t: ast.AST) -> ast.AST:
    if isinstance(t, ast.UnaryOp) and isinstance(t.op, ast.Not):
        o = t.operand
        if isinstance(o, ast.UnaryOp) and isinstance(o.op, ast.Not):
            return o.operand
        inv = {ast.Eq: ast.NotEq, ast.NotEq: ast.Eq, ast.Is: ast.IsNot, ast.IsNot: ast.Is, ast.In: ast.NotIn, ast.NotIn: ast.In}
        if isinstance(o, ast.Compare) and len(o.ops) == 1 and type(o.ops[0]) in inv:
            return ast.Compare(left=o.left, ops=[inv[type(o.ops[0])]()], comparators=o.comparators)
    return t


def _n8(tree: ast.AST):
    for node in ast.walk(tree):
        for field, b in _blocks(node):
            i = 0
            while i < len(b) - 1:
                s, nxt = b[i], b[i + 1]
                kind = None
                if isinstance(s, ast.Assign) and len(s.targets) == 1 and isinstance(s.targets[0], ast.Name):
                    val = s.value
                    if isinstance(val, ast.List) and not val.elts:
                        kind = 'list'
                    elif isinstance(val, ast.Dict) and not val.keys:
                        kind = 'dict'
                    elif isinstance(val, ast.Call) and isinstance(val.func, ast.Name) and not val.args and not val.keywords \
                            and val.func.id in ('set', 'list', 'dict'):
                        kind = val.func.id
                if kind and isinstance(nxt, ast.For) and not nxt.orelse:
                    v = s.targets[0].id
                    r = _acc_body(nxt.body, v, kind)
                    used_elsewhere = any(isinstance(x, ast.Name) and x.id == v for x in ast.walk(nxt.iter))
                    if r is not None and not used_elsewhere:
                        clauses, elt = [('for', nxt.target, nxt.iter)] + r[0], r[1]
                        mentions = [x for c in clauses for part in c[1:] for x in ast.walk(part) if isinstance(x, ast.Name) and x.id == v]
                        eparts = elt if isinstance(elt, tuple) else (elt,)
                        mentions += [x for part in eparts for x in ast.walk(part) if isinstance(x, ast.Name) and x.id == v]
                        if not mentions:
                            gens: List[ast.comprehension] = []
                            for c in clauses:
                                if c[0] == 'for':
                                    gens.append(ast.comprehension(target=c[1], iter=c[2], ifs=[], is_async=0))
                                else:
                                    gens[-1].ifs.append(_simplify_not(c[1]))
                            if kind == 'list':
                                comp: ast.AST = ast.ListComp(elt=elt, generators=gens)
                            elif kind == 'set':
                                comp = ast.SetComp(elt=elt, generators=gens)
                            else:
                                comp = ast.DictComp(key=elt[0], value=elt[1], generators=gens)
                            s.value = ast.copy_location(comp, nxt)
                            del b[i + 1]
                            continue
                i += 1
    # a loop that only appends to an existing list:  for T in IT: [if C:] X.append(E)   ->   X.extend([E for T in IT if C])
    for node in ast.walk(tree):
        for field, b in _blocks(node):
            for i, st in enumerate(b):
                if not (isinstance(st, ast.For) and not st.orelse):
                    continue
                # find the single append at the bottom of the loop nest
                recv = None
                probe = st.body
                while True:
                    probe = [x for x in probe if not isinstance(x, ast.Pass)]
                    if len(probe) == 1 and isinstance(probe[0], (ast.If, ast.For)) and not probe[0].orelse:
                        probe = probe[0].body
                        continue
                    break
                if len(probe) == 1 and isinstance(probe[0], ast.Expr) and isinstance(probe[0].value, ast.Call) \
                        and isinstance(probe[0].value.func, ast.Attribute) and probe[0].value.func.attr == 'append' \
                        and len(probe[0].value.args) == 1 and pure(probe[0].value.func.value):
                    recv = probe[0].value.func.value
                if recv is None:
                    continue
                tnames = {x.id for x in ast.walk(st.target) if isinstance(x, ast.Name)}
                if any(isinstance(x, ast.Name) and x.id in tnames for x in ast.walk(recv)):
                    continue
                marker = '__acc__'
                fake_body = _copy.deepcopy(st.body)
                # reuse the accumulator analysis by renaming the receiver to a marker name
                class RN(ast.NodeTransformer):
                    def visit_Attribute(self_, n):
                        if n.attr == 'append' and ast.unparse(n.value) == ast.unparse(recv):
                            return ast.Attribute(value=ast.Name(id=marker, ctx=ast.Load()), attr='append', ctx=n.ctx)
                        self_.generic_visit(n)
                        return n
                fake_body = [RN().visit(x) for x in fake_body]
                r = _acc_body(fake_body, marker, 'list')
                if r is None:
                    continue
                clauses, elt = [('for', st.target, st.iter)] + r[0], r[1]
                if any(isinstance(x, ast.Name) and x.id == marker for c in clauses for part in c[1:] for x in ast.walk(part)):
                    continue
                gens: List[ast.comprehension] = []
                for c in clauses:
                    if c[0] == 'for':
                        gens.append(ast.comprehension(target=c[1], iter=c[2], ifs=[], is_async=0))
                    else:
                        gens[-1].ifs.append(_simplify_not(c[1]))
                comp = ast.copy_location(ast.ListComp(elt=elt, generators=gens), st)
                call = ast.Call(func=ast.Attribute(value=recv, attr='extend', ctx=ast.Load()), args=[comp], keywords=[])
                b[i] = ast.copy_location(ast.Expr(value=ast.copy_location(call, st)), st)
    # filters joined by `and` -> separate if clauses
    for node in ast.walk(tree):
        if isinstance(node, ast.comprehension):
            ifs: List[ast.AST] = []
            for t in node.ifs:
                if isinstance(t, ast.BoolOp) and isinstance(t.op, ast.And):
                    ifs.extend(t.values)
                else:
                    ifs.append(t)
            node.ifs = ifs


CONSUMERS = {'frozenset', 'set', 'any', 'all', 'sum', 'tuple', 'list', 'sorted', 'min', 'max', 'dict', 'fzset'}


def _n8b(tree: ast.AST):
    """A list comprehension handed straight to a consumer that only iterates it is a generator expression."""
    for c in ast.walk(tree):
        if isinstance(c, ast.Call) and len(c.args) >= 1 and isinstance(c.args[0], ast.ListComp) and not c.keywords \
                and ((isinstance(c.func, ast.Name) and c.func.id in CONSUMERS and len(c.args) == 1)
                     or (isinstance(c.func, ast.Attribute) and c.func.attr == 'join' and len(c.args) == 1)):
            lc = c.args[0]
            c.args[0] = ast.copy_location(ast.GeneratorExp(elt=lc.elt, generators=lc.generators), lc)


def _n9(tree: ast.AST):
    """for T in IT: if C: S...; break   (no else, S does not read T)   ->   if any(C for T in IT): S..."""
    for node in ast.walk(tree):
        for field, b in _blocks(node):
            for i, st in enumerate(b):
                if not (isinstance(st, ast.For) and not st.orelse and len(st.body) == 1 and isinstance(st.body[0], ast.If)
                        and not st.body[0].orelse and len(st.body[0].body) >= 2 and isinstance(st.body[0].body[-1], ast.Break)):
                    continue
                inner = st.body[0]
                S = inner.body[:-1]
                tnames = {x.id for x in ast.walk(st.target) if isinstance(x, ast.Name)}
                if any(isinstance(x, ast.Name) and x.id in tnames for s_ in S for x in ast.walk(s_)):
                    continue
                if any(isinstance(x, (ast.Break, ast.Continue)) for s_ in S for x in ast.walk(s_)):
                    continue
                gen = ast.GeneratorExp(elt=inner.test, generators=[ast.comprehension(target=st.target, iter=st.iter, ifs=[], is_async=0)])
                call = ast.Call(func=ast.Name(id='any', ctx=ast.Load()), args=[gen], keywords=[])
                b[i] = ast.copy_location(ast.If(test=ast.copy_location(call, st), body=S, orelse=[]), st)


def _neg_test(t: ast.AST) -> ast.AST:
    if isinstance(t, ast.UnaryOp) and isinstance(t.op, ast.Not):
        return t.operand
    neg = {ast.Eq: ast.NotEq, ast.NotEq: ast.Eq, ast.Is: ast.IsNot, ast.IsNot: ast.Is, ast.In: ast.NotIn, ast.NotIn: ast.In}
    if isinstance(t, ast.Compare) and len(t.ops) == 1 and type(t.ops[0]) in neg:
        return ast.copy_location(ast.Compare(left=t.left, ops=[neg[type(t.ops[0])]()], comparators=t.comparators), t)
    return ast.copy_location(ast.UnaryOp(op=ast.Not(), operand=t), t)


def _n16(tree: ast.AST):
    """N16  memo idiom:   if K not in D: D[K] = V        ->   if K in D: T = D[K]
                          T = D[K]                            else:      T = D.setdefault(K, V)
    (K, D plain names; the statement pair is adjacent; T any store target not mentioning K or D)"""
    for node in ast.walk(tree):
        for field, b in _blocks(node):
            i = 0
            while i + 1 < len(b):
                st, nx = b[i], b[i + 1]
                if isinstance(st, ast.If) and not st.orelse and len(st.body) == 1 and isinstance(st.test, ast.Compare) and len(st.test.ops) == 1 \
                        and isinstance(st.test.ops[0], ast.NotIn) and isinstance(st.test.left, ast.Name) and isinstance(st.test.comparators[0], ast.Name):
                    K, D = st.test.left.id, st.test.comparators[0].id
                    a = st.body[0]
                    if isinstance(a, ast.Assign) and len(a.targets) == 1 and ast.unparse(a.targets[0]) == '%s[%s]' % (D, K) \
                            and isinstance(nx, ast.Assign) and len(nx.targets) == 1 and ast.unparse(nx.value) == '%s[%s]' % (D, K) \
                            and not any(isinstance(x, ast.Name) and x.id in (K, D) for x in ast.walk(nx.targets[0])):
                        T1, T2 = nx.targets[0], _copy.deepcopy(nx.targets[0])
                        look = ast.copy_location(ast.Assign(targets=[T1], value=nx.value), nx)
                        sd = ast.Call(func=ast.Attribute(value=ast.Name(id=D, ctx=ast.Load()), attr='setdefault', ctx=ast.Load()),
                                      args=[ast.Name(id=K, ctx=ast.Load()), a.value], keywords=[])
                        make = ast.copy_location(ast.Assign(targets=[T2], value=ast.copy_location(sd, a)), a)
                        test = ast.copy_location(ast.Compare(left=st.test.left, ops=[ast.In()], comparators=st.test.comparators), st.test)
                        b[i:i + 2] = [ast.fix_missing_locations(ast.copy_location(ast.If(test=test, body=[look], orelse=[make]), st))]
                        continue
                i += 1


def _n15(tree: ast.AST):
    """N15a  for T in IT: (if C: break)  else: S...        ->  if all(not C for T in IT): S...
       N15b  for T in IT: (if C: return False); return True   ->  return all(not C for T in IT)
             for T in IT: (if C: return True);  return False  ->  return any(C for T in IT)
    (the loop body is exactly the one if; evaluation order and short-circuiting are those of the loop)"""
    def quant(name: str, test: ast.AST, st: ast.For) -> ast.Call:
        gen = ast.GeneratorExp(elt=test, generators=[ast.comprehension(target=st.target, iter=st.iter, ifs=[], is_async=0)])
        return ast.copy_location(ast.Call(func=ast.Name(id=name, ctx=ast.Load()), args=[gen], keywords=[]), st)
    for node in ast.walk(tree):
        for field, b in _blocks(node):
            i = 0
            while i < len(b):
                st = b[i]
                if isinstance(st, ast.For) and len(st.body) == 1 and isinstance(st.body[0], ast.If) and not st.body[0].orelse and len(st.body[0].body) == 1:
                    inner = st.body[0]
                    act = inner.body[0]
                    tnames = {x.id for x in ast.walk(st.target) if isinstance(x, ast.Name)}
                    if isinstance(act, ast.Break) and st.orelse:
                        if not any(isinstance(x, ast.Name) and x.id in tnames for s_ in st.orelse for x in ast.walk(s_)):
                            b[i] = ast.copy_location(ast.If(test=quant('all', _neg_test(inner.test), st), body=st.orelse, orelse=[]), st)
                    elif isinstance(act, ast.Return) and not st.orelse and isinstance(act.value, ast.Constant) and isinstance(act.value.value, bool) \
                            and i + 1 < len(b) and isinstance(b[i + 1], ast.Return) and isinstance(b[i + 1].value, ast.Constant) \
                            and isinstance(b[i + 1].value.value, bool) and b[i + 1].value.value is (not act.value.value):
                        if act.value.value is False:
                            new = ast.Return(value=quant('all', _neg_test(inner.test), st))
                        else:
                            new = ast.Return(value=quant('any', inner.test, st))
                        b[i] = ast.copy_location(new, st)
                        del b[i + 1]
                i += 1


_in_test_position: Dict[int, bool] = {}


class _NotCmp(ast.NodeTransformer):
    def visit_FunctionDef(self, fn):
        if fn.name in ('__ne__', '__eq__'):
            return fn          # `return not (self == other)` IS the definition of !=: leave comparison methods alone
        self.generic_visit(fn)
        return fn

    """not (a in b) -> a not in b;  not (a == b) -> a != b;  not (a is b) -> a is not b;  not not x stays (truthiness)."""
    def visit_UnaryOp(self, n):
        self.generic_visit(n)
        if isinstance(n.op, ast.Not) and isinstance(n.operand, ast.Compare) and len(n.operand.ops) == 1:
            new = _simplify_not(n)
            if new is not n:
                return ast.copy_location(new, n)
        if isinstance(n.op, ast.Not) and isinstance(n.operand, ast.BoolOp):
            # De Morgan (truthiness view, which is all a test sees): not (a or b) -> not a and not b
            b = n.operand
            op = ast.And() if isinstance(b.op, ast.Or) else ast.Or()
            vals = [self.visit(ast.copy_location(ast.UnaryOp(op=ast.Not(), operand=v), v)) for v in b.values]
            return ast.copy_location(ast.BoolOp(op=op, values=vals), n)
        if isinstance(n.op, ast.Not) and isinstance(n.operand, ast.UnaryOp) and isinstance(n.operand.op, ast.Not) and _in_test_position.get(id(n)):
            return n.operand.operand
        return n


def _n11_n12(tree: ast.AST):
    """N12  `if a: (if b: S)` without else arms becomes `if a and b: S`.
       N11  `if a or b: <one jump statement>` without else becomes two consecutive ifs with the same jump."""
    changed = True
    while changed:
        changed = False
        for node in ast.walk(tree):
            for field, b in _blocks(node):
                i = 0
                while i < len(b):
                    st = b[i]
                    if isinstance(st, ast.If) and not st.orelse:
                        body = [x for x in st.body if not isinstance(x, ast.Pass)]
                        if len(body) == 1 and isinstance(body[0], ast.If) and not body[0].orelse:
                            inner = body[0]
                            vals = (list(st.test.values) if isinstance(st.test, ast.BoolOp) and isinstance(st.test.op, ast.And) else [st.test]) + \
                                (list(inner.test.values) if isinstance(inner.test, ast.BoolOp) and isinstance(inner.test.op, ast.And) else [inner.test])
                            st.test = ast.copy_location(ast.BoolOp(op=ast.And(), values=vals), st.test)
                            st.body = inner.body
                            changed = True
                            continue
                        if len(body) == 1 and isinstance(body[0], (ast.Return, ast.Continue, ast.Break, ast.Raise)) \
                                and isinstance(st.test, ast.BoolOp) and isinstance(st.test.op, ast.Or):
                            new = [ast.copy_location(ast.If(test=v, body=[_copy.deepcopy(body[0])], orelse=[]), st) for v in st.test.values]
                            b[i:i + 1] = new
                            changed = True
                            i += len(new)
                            continue
                    i += 1


def normalise_local_more(tree: ast.AST):
    _n3y(tree)
    _n8(tree)
    _n16(tree)
    _n15(tree)
    _n9(tree)
    _n5(tree)
    _n4(tree)
    _n3(tree)
    _n7(tree)
    _n8b(tree)
    _NotCmp().visit(tree)
    _n11_n12(tree)


import os as _os
import re as _re

_KNOWN: Optional[Set[str]] = None


def known_names() -> Set[str]:
    """Identifiers the rules mention: anchors are never looked through."""
    global _KNOWN
    if _KNOWN is None:
        here = _os.path.dirname(_os.path.abspath(__file__))
        names: Set[str] = set()
        files = [_os.path.join(here, 'facts.py'), _os.path.join(here, 'registry.py'), _os.path.join(here, '..', 'known_findings.json')]
        rd = _os.path.join(here, 'rules')
        files += [_os.path.join(rd, f) for f in _os.listdir(rd) if f.endswith('.py')]
        for f in files:
            try:
                names |= set(_re.findall(r'[A-Za-z_][A-Za-z0-9_]*', open(f, encoding='utf8').read()))
            except OSError:
                pass
        # ... and every function that existed when the rules were confirmed against the tree (frozen list): the rules were
        # written with those helpers as they are; only helpers that appear later are looked through
        try:
            import json as _json
            fz = _json.load(open(_os.path.join(here, 'frozen_names.json'), encoding='utf8'))
            names |= set(fz['functions']) | set(fz['module_names'])
        except OSError:
            pass
        _KNOWN = names
    return _KNOWN


def _params(fn: ast.FunctionDef) -> Optional[List[ast.arg]]:
    a = fn.args
    if a.vararg or a.kwarg or a.kwonlyargs:
        return None
    return list(a.posonlyargs) + list(a.args)


def _is_static(fn: ast.FunctionDef) -> bool:
    return any(isinstance(d, ast.Name) and d.id == 'staticmethod' for d in fn.decorator_list)


def _collect_defs(trees: Dict[str, ast.Module]):
    funcs: Dict[str, List[tuple]] = {}        # simple name -> [(module, fn)]   module-level functions
    classes: Dict[str, List[tuple]] = {}      # simple name -> [(module, cls)]
    methods: Dict[str, List[tuple]] = {}      # method name -> [(module, cls, fn)]
    for mname, tree in trees.items():
        for n in tree.body:
            if isinstance(n, ast.FunctionDef):
                funcs.setdefault(n.name, []).append((mname, n))
            elif isinstance(n, ast.ClassDef):
                classes.setdefault(n.name, []).append((mname, n))
        for c in ast.walk(tree):
            if isinstance(c, ast.ClassDef):
                for m in c.body:
                    if isinstance(m, ast.FunctionDef):
                        methods.setdefault(m.name, []).append((mname, c, m))
    return funcs, classes, methods


def _class_ctor_params(cls: ast.ClassDef, classes) -> Optional[List[str]]:
    """Positional parameter names of Class(...): its own __init__, a dataclass's fields, or the single package base's."""
    seen = 0
    c = cls
    while c is not None and seen < 6:
        seen += 1
        for m in c.body:
            if isinstance(m, ast.FunctionDef) and m.name == '__init__':
                ps = _params(m)
                return [p.arg for p in ps[1:]] if ps is not None else None
        if any('dataclass' in ast.unparse(d) for d in c.decorator_list):
            fields: List[str] = []
            chain = [c]
            for b in c.bases:
                if isinstance(b, ast.Name) and len(classes.get(b.id, [])) == 1:
                    chain.insert(0, classes[b.id][0][1])
            for k in chain:
                for st in k.body:
                    if isinstance(st, ast.AnnAssign) and isinstance(st.target, ast.Name) and not ast.unparse(st.annotation).startswith('ClassVar'):
                        if st.target.id not in fields:
                            fields.append(st.target.id)
            return fields
        nxt = None
        for b in c.bases:
            bn = b.id if isinstance(b, ast.Name) else None
            if bn and len(classes.get(bn, [])) == 1:
                nxt = classes[bn][0][1]
                break
        c = nxt
    return None


def _p1(trees: Dict[str, ast.Module]):
    funcs, classes, methods = _collect_defs(trees)

    def sig_by_name(name: str) -> Optional[List[str]]:
        sigs = []
        for _m, fn in funcs.get(name, []):
            ps = _params(fn)
            sigs.append(None if ps is None else [p.arg for p in ps])
        for _m, cls in classes.get(name, []):
            sigs.append(_class_ctor_params(cls, classes))
        if not sigs or any(x is None for x in sigs) or any(x != sigs[0] for x in sigs):
            return None
        return sigs[0]

    def sig_by_method(name: str) -> Optional[List[str]]:
        sigs = []
        for _m, _c, fn in methods.get(name, []):
            ps = _params(fn)
            if ps is None:
                return None
            sigs.append([p.arg for p in (ps if _is_static(fn) else ps[1:])])
        if not sigs or any(x != sigs[0] for x in sigs):
            return None
        return sigs[0]

    imported_modules: Dict[int, Set[str]] = {}
    for tree in trees.values():
        mods: Set[str] = set()
        for n in ast.walk(tree):
            if isinstance(n, ast.Import):
                mods |= {(a.asname or a.name).split('.')[0] for a in n.names}
            elif isinstance(n, ast.ImportFrom):
                mods |= {(a.asname or a.name) for a in n.names if a.name[:1].islower() and a.name not in funcs and a.name not in classes}
        imported_modules[id(tree)] = mods
    for tree in trees.values():
        for c in ast.walk(tree):
            if not isinstance(c, ast.Call) or not c.keywords or any(k.arg is None for k in c.keywords) \
                    or any(isinstance(a, ast.Starred) for a in c.args):
                continue
            if isinstance(c.func, ast.Name):
                sig = sig_by_name(c.func.id)
            elif isinstance(c.func, ast.Attribute):
                sig = sig_by_method(c.func.attr)
                if funcs.get(c.func.attr):
                    # a module-level function has the same name: use the method signature only when the receiver is an object
                    # (self / a local), not a module
                    recv = c.func.value
                    is_obj = isinstance(recv, ast.Name) and recv.id not in imported_modules.get(id(tree), set())
                    if not is_obj:
                        sig = None
                if sig is None and isinstance(c.func.value, ast.Name) and c.func.attr != '__init__':
                    # Class.method(...) / module.function(...)
                    sig = None
            else:
                sig = None
            if sig is None:
                continue
            kws = {k.arg: k for k in c.keywords}
            if not set(kws) <= set(sig):
                continue
            pos = len(c.args)
            while pos < len(sig) and sig[pos] in kws:
                c.args.append(kws.pop(sig[pos]).value)
                pos += 1
            c.keywords = [k for k in c.keywords if k.arg in kws]


class _Subst(ast.NodeTransformer):
    def __init__(self, mapping: Dict[str, ast.AST]):
        self.mapping = mapping

    def visit_Name(self, n):
        if isinstance(n.ctx, ast.Load) and n.id in self.mapping:
            return _copy.deepcopy(self.mapping[n.id])
        if isinstance(n.ctx, (ast.Store, ast.Del)) and n.id in self.mapping and isinstance(self.mapping[n.id], ast.Name):
            # a parameter the helper rebinds, bound to a plain variable of the caller: the rebinding is the caller's variable's
            return ast.copy_location(ast.Name(id=self.mapping[n.id].id, ctx=n.ctx), n)
        return n


def _rebinds_ok(stored: Set[str], mp: Dict[str, ast.AST]) -> bool:
    return all(isinstance(mp[p_], ast.Name) for p_ in stored & set(mp))


def _as_expr(stmts: List[ast.stmt]) -> Optional[ast.AST]:
    """The value a statement list returns, as one expression, when it only chooses between returns."""
    stmts = [s for s in stmts if not isinstance(s, ast.Pass)]
    if not stmts:
        return None
    s0 = stmts[0]
    if isinstance(s0, ast.Return) and s0.value is not None and len(stmts) == 1:
        return s0.value
    if isinstance(s0, ast.If):
        a = _as_expr(s0.body)
        b = _as_expr(s0.orelse) if s0.orelse and len(stmts) == 1 else (_as_expr(stmts[1:]) if not s0.orelse else None)
        if a is not None and b is not None:
            return ast.copy_location(ast.IfExp(test=s0.test, body=a, orelse=b), s0)
    return None


def _helper_shape(fn: ast.FunctionDef):
    """('expr', expr) for `return <expr>` bodies, ('stmts', [stmts], ret_expr or None) for single-exit statement bodies."""
    body = [s for s in fn.body if not isinstance(s, ast.Pass)]
    if not body or len(body) > 30:
        return None
    is_gen = False
    for x in ast.walk(fn):
        if isinstance(x, (ast.Yield, ast.YieldFrom)):
            is_gen = True
        if isinstance(x, (ast.Await, ast.Global, ast.Nonlocal)):
            return None
        if x is not fn and isinstance(x, (ast.FunctionDef, ast.AsyncFunctionDef, ast.ClassDef)):
            return None
        if isinstance(x, ast.Lambda):
            # a closed lambda (reads nothing but its own parameters) moves with the code it is in
            own = {a.arg for a in list(x.args.posonlyargs) + list(x.args.args) + list(x.args.kwonlyargs)}
            if x.args.vararg or x.args.kwarg or x.args.defaults or any(isinstance(y, ast.Name) and y.id not in own for y in ast.walk(x.body)):
                return None
    rets = [x for x in ast.walk(fn) if isinstance(x, ast.Return)]
    if is_gen:
        # a generator helper is looked through where it is delegated to (`yield from helper(...)`): its statements, yields included,
        # take the place of the delegation -- only when it never returns early
        return ('gen', body, None) if not rets else None
    if len(body) == 1 and isinstance(body[0], ast.Return) and body[0].value is not None:
        return ('expr', body[0].value)
    e = _as_expr(body)
    if e is not None:
        return ('expr', e)
    if not rets:
        return ('stmts', body, None)
    if len(rets) == 1 and rets[0] is body[-1]:
        return ('stmts', body[:-1], rets[0].value)
    # statements, then a pure choice between returns (`if c: return A` / `return B`)
    for k in range(1, len(body)):
        if any(isinstance(x, ast.Return) for s_ in body[:k] for x in ast.walk(s_)):
            break
        e = _as_expr(body[k:])
        if e is not None:
            return ('stmts', body[:k], e)
    return None


def _p2(trees: Dict[str, ast.Module]) -> int:
    known = known_names()
    funcs, classes, methods = _collect_defs(trees)
    n_inlined = 0
    local_defs: Dict[str, ast.FunctionDef] = {}

    def candidate(fn: ast.FunctionDef, nested_ok: bool = False) -> bool:
        nm = fn.name
        if nm.startswith('__') or nm in known or (not nm.startswith('_') and not nested_ok):
            return False
        if any(not (isinstance(d, ast.Name) and d.id in ('staticmethod', 'classmethod')) for d in fn.decorator_list):
            return False
        if _params(fn) is None:
            return False
        for x in ast.walk(fn):       # not recursive
            if isinstance(x, ast.Call) and ((isinstance(x.func, ast.Name) and x.func.id == nm)
                                            or (isinstance(x.func, ast.Attribute) and x.func.attr == nm)):
                return False
        return _helper_shape(fn) is not None

    def bind(fn: ast.FunctionDef, call: ast.Call, recv: Optional[ast.AST]) -> Optional[Dict[str, ast.AST]]:
        ps = _params(fn)
        names = [p.arg for p in ps]
        mapping: Dict[str, ast.AST] = {}
        if recv is not None:
            if not names:
                return None
            mapping[names[0]] = recv
            names = names[1:]
        if any(isinstance(a, ast.Starred) for a in call.args) or any(k.arg is None for k in call.keywords):
            return None
        if len(call.args) > len(names):
            return None
        for nme, a in zip(names, call.args):
            mapping[nme] = a
        for k in call.keywords:
            if k.arg not in names or k.arg in mapping:
                return None
            mapping[k.arg] = k.value
        defaults = fn.args.defaults
        allp = [p.arg for p in ps]
        for i, d in enumerate(defaults):
            pn = allp[len(allp) - len(defaults) + i]
            mapping.setdefault(pn, d)
        if any(nme not in mapping for nme in names):
            return None
        return mapping

    def resolve(mname: str, cls: Optional[ast.ClassDef], call: ast.Call):
        """(helper fn, receiver expr or None) for a call that can be looked through."""
        f = call.func
        if isinstance(f, ast.Name) and f.id in local_defs:
            # a local helper function of the function being rewritten (a closure: same scope, nothing to rebind)
            lf = local_defs[f.id]
            if candidate(lf, nested_ok=True):
                return lf, None
            return None
        if isinstance(f, ast.Name):
            cands = [fn for m_, fn in funcs.get(f.id, []) if m_ == mname]
            if len(cands) == 1 and candidate(cands[0]):
                return cands[0], None
            return None
        if isinstance(f, ast.Attribute):
            defs = methods.get(f.attr, [])
            if len(defs) != 1 or funcs.get(f.attr):
                return None
            m_, c_, fn = defs[0]
            if m_ != mname or not candidate(fn):
                return None
            if _is_static(fn):
                return fn, None
            is_cm = any(isinstance(d, ast.Name) and d.id == 'classmethod' for d in fn.decorator_list)
            if is_cm and not (isinstance(f.value, ast.Name) and f.value.id in ('cls', c_.name)):
                return None
            return fn, f.value
        return None

    for mname, tree in trees.items():
        # (enclosing class, function) pairs
        work = []
        for n in ast.walk(tree):
            if isinstance(n, ast.ClassDef):
                for m in n.body:
                    if isinstance(m, ast.FunctionDef):
                        work.append((n, m))
        for n in tree.body:
            if isinstance(n, ast.FunctionDef):
                work.append((None, n))
        for cls, fn in work:
            local_defs.clear()
            for x in ast.walk(fn):
                if x is not fn and isinstance(x, ast.FunctionDef):
                    # only helpers defined directly in this function's blocks (not inside another nested def)
                    local_defs[x.name] = x
            for _round in range(3):
                changed = False
                # expression helpers anywhere
                class ExprInline(ast.NodeTransformer):
                    def visit_Call(self_, c):
                        nonlocal changed, n_inlined
                        self_.generic_visit(c)
                        r = resolve(mname, cls, c)
                        if r is None or r[0] is fn:
                            return c
                        shape = _helper_shape(r[0])
                        if shape is None or shape[0] != 'expr':
                            return c
                        mp = bind(r[0], c, r[1])
                        if mp is None:
                            return c
                        changed = True
                        n_inlined += 1
                        r[0]._looked_through = True       # type: ignore[attr-defined]
                        return _Subst(mp).visit(_copy.deepcopy(shape[1]))
                ExprInline().visit(fn)
                # statement helpers at statement level
                for node in list(ast.walk(fn)):
                    if node is not fn and isinstance(node, (ast.FunctionDef, ast.AsyncFunctionDef, ast.ClassDef)):
                        continue
                    for field, b in _blocks(node):
                        i = 0
                        while i < len(b):
                            st = b[i]
                            call = None
                            if isinstance(st, ast.Expr) and isinstance(st.value, ast.YieldFrom) and isinstance(st.value.value, ast.Call):
                                rg = resolve(mname, cls, st.value.value)
                                shg = _helper_shape(rg[0]) if rg is not None and rg[0] is not fn else None
                                if shg is not None and shg[0] == 'gen':
                                    mpg = bind(rg[0], st.value.value, rg[1])
                                    if mpg is not None:
                                        storedg = {x.id for s_ in shg[1] for x in ast.walk(s_) if isinstance(x, ast.Name) and isinstance(x.ctx, (ast.Store, ast.Del))}
                                        if _rebinds_ok(storedg, mpg):
                                            newg = [_Subst(mpg).visit(_copy.deepcopy(s_)) for s_ in shg[1]]
                                            b[i:i + 1] = newg
                                            rg[0]._looked_through = True       # type: ignore[attr-defined]
                                            changed = True
                                            n_inlined += 1
                                            i += len(newg)
                                            continue
                            if isinstance(st, ast.Expr) and isinstance(st.value, ast.Call):
                                call = st.value
                            elif isinstance(st, (ast.Assign, ast.Return)) and isinstance(st.value, ast.Call):
                                call = st.value
                            r = resolve(mname, cls, call) if call is not None else None
                            if r is None and isinstance(st, (ast.Expr, ast.Assign, ast.Return, ast.Raise)):
                                # a statement helper called inside the statement's expression (e.g. after its temporary was
                                # inlined): its statements go in front, its result takes the call's place
                                done = False
                                for sub in ast.walk(st):
                                    if not isinstance(sub, ast.Call) or sub is call:
                                        continue
                                    r2 = resolve(mname, cls, sub)
                                    if r2 is None or r2[0] is fn:
                                        continue
                                    shape2 = _helper_shape(r2[0])
                                    if shape2 is None or shape2[0] != 'stmts' or shape2[2] is None:
                                        continue
                                    mp2 = bind(r2[0], sub, r2[1])
                                    if mp2 is None:
                                        continue
                                    stored2 = {x.id for s_ in shape2[1] for x in ast.walk(s_) if isinstance(x, ast.Name) and isinstance(x.ctx, (ast.Store, ast.Del))}
                                    if not _rebinds_ok(stored2, mp2):
                                        continue
                                    pre = [_Subst(mp2).visit(_copy.deepcopy(s_)) for s_ in shape2[1]]
                                    rv2 = _Subst(mp2).visit(_copy.deepcopy(shape2[2]))

                                    class Rep(ast.NodeTransformer):
                                        def visit_Call(self_, c):
                                            if c is sub:
                                                return rv2
                                            self_.generic_visit(c)
                                            return c
                                    b[i] = Rep().visit(st)
                                    b[i:i] = pre
                                    r2[0]._looked_through = True       # type: ignore[attr-defined]
                                    changed = True
                                    n_inlined += 1
                                    i += len(pre) + 1
                                    done = True
                                    break
                                if done:
                                    continue
                            if r is not None and r[0] is not fn:
                                shape = _helper_shape(r[0])
                                mp = bind(r[0], call, r[1]) if shape is not None and shape[0] == 'stmts' else None   # ('gen' helpers: only via yield from)
                                if mp is not None:
                                    # parameters that the helper rebinds cannot be substituted
                                    stored = {x.id for s_ in shape[1] for x in ast.walk(s_) if isinstance(x, ast.Name) and isinstance(x.ctx, (ast.Store, ast.Del))}
                                    if _rebinds_ok(stored, mp):
                                        new = [_Subst(mp).visit(_copy.deepcopy(s_)) for s_ in shape[1]]
                                        if shape[2] is not None:
                                            rv = _Subst(mp).visit(_copy.deepcopy(shape[2]))
                                            if isinstance(st, ast.Assign):
                                                new.append(ast.copy_location(ast.Assign(targets=st.targets, value=rv), st))
                                            elif isinstance(st, ast.Return):
                                                new.append(ast.copy_location(ast.Return(value=rv), st))
                                            elif not pure(rv):
                                                new.append(ast.copy_location(ast.Expr(value=rv), st))
                                        elif isinstance(st, ast.Assign):
                                            new.append(ast.copy_location(ast.Assign(targets=st.targets, value=ast.Constant(value=None)), st))
                                        elif isinstance(st, ast.Return):
                                            new.append(ast.copy_location(ast.Return(value=None), st))
                                        b[i:i + 1] = new
                                        r[0]._looked_through = True       # type: ignore[attr-defined]
                                        changed = True
                                        n_inlined += 1
                                        i += len(new)
                                        continue
                            i += 1
                if not changed:
                    break
            ast.fix_missing_locations(fn)
    return n_inlined


def _literal(v: ast.AST) -> bool:
    if isinstance(v, ast.Constant):
        return True
    if isinstance(v, ast.Tuple) and v.elts and all(isinstance(e, ast.Constant) for e in v.elts):
        return True
    # float('-inf') and the like: a constant written as a conversion of a literal
    if isinstance(v, ast.Call) and isinstance(v.func, ast.Name) and v.func.id in ('float', 'int', 'frozenset', 'bytes') and not v.keywords \
            and len(v.args) == 1 and _literal(v.args[0]):
        return True
    if isinstance(v, ast.UnaryOp) and isinstance(v.op, ast.USub) and _literal(v.operand):
        return True
    return False


def _p0(trees: Dict[str, ast.Module]):
    """P0  a module-level constant the rules do not know (a literal bound once to a new name: a refactoring that named a
    literal) is replaced by its literal wherever the name refers to it."""
    known = known_names()
    new_consts: Dict[str, Dict[str, ast.AST]] = {}
    counts: Dict[str, int] = {}
    for mname, tree in trees.items():
        seen: Dict[str, int] = {}
        for n in ast.walk(tree):
            if isinstance(n, ast.Name) and isinstance(n.ctx, (ast.Store, ast.Del)):
                seen[n.id] = seen.get(n.id, 0) + 1
        for n in tree.body:
            if isinstance(n, ast.Assign) and len(n.targets) == 1 and isinstance(n.targets[0], ast.Name) and _literal(n.value):
                nm = n.targets[0].id
                if nm not in known and seen.get(nm) == 1:
                    new_consts.setdefault(mname, {})[nm] = n.value
                    counts[nm] = counts.get(nm, 0) + 1
    if not new_consts:
        return
    for mname, tree in trees.items():
        mapping: Dict[str, ast.AST] = dict(new_consts.get(mname, {}))
        for n in ast.walk(tree):
            if isinstance(n, ast.ImportFrom):
                for a in n.names:
                    if counts.get(a.name) == 1 and a.name not in mapping:
                        for m2, cs in new_consts.items():
                            if a.name in cs and (n.module or '').split('.')[-1] == m2.split('.')[-1]:
                                mapping[a.asname or a.name] = cs[a.name]
        if not mapping:
            continue

        class Sub(ast.NodeTransformer):
            def visit_Name(self, n):
                if isinstance(n.ctx, ast.Load) and n.id in mapping:
                    return ast.copy_location(_copy.deepcopy(mapping[n.id]), n)
                return n
        Sub().visit(tree)


def _p3(trees: Dict[str, ast.Module]):
    """P3  the reverse of P2 for helpers the rules DO know: a private one-expression helper that existed when the rules were
    confirmed (sa/frozen_helpers.json) and has since been inlined and deleted is restored -- every occurrence of its expression
    (parameters as wildcards, bound consistently) in the functions of its module becomes a call again, and the helper is put
    back.  The occurrence must unify with the recorded expression exactly; anything else stays as it is."""
    import json as _json
    here = _os.path.dirname(_os.path.abspath(__file__))
    try:
        helpers = _json.load(open(_os.path.join(here, 'frozen_helpers.json'), encoding='utf8'))
    except OSError:
        return
    from .exprs import _unify          # structural matcher (symmetric comparisons match either way)
    for h in helpers:
        tree = trees.get(h['module'])
        if tree is None:
            continue
        # still there?
        holder = tree.body
        cls_node = None
        if h['class']:
            cls_node = next((c for c in tree.body if isinstance(c, ast.ClassDef) and c.name == h['class']), None)
            if cls_node is None:
                continue
            holder = cls_node.body
        if any(isinstance(n, ast.FunctionDef) and n.name == h['name'] for n in ast.walk(tree)):
            continue
        fn = ast.parse(h['source']).body[0]
        params = [a.arg for a in fn.args.posonlyargs + fn.args.args]
        is_static = any(isinstance(d, ast.Name) and d.id == 'staticmethod' for d in fn.decorator_list)
        ret = fn.body[-1].value

        class W(ast.NodeTransformer):
            def visit_Name(self, n):
                if n.id in params:
                    return ast.copy_location(ast.Name(id='__E_' + n.id, ctx=n.ctx), n)
                return n
        patt = W().visit(_copy.deepcopy(ret))
        restored = 0

        class R(ast.NodeTransformer):
            def generic_visit(self, node):
                node = super().generic_visit(node)
                nonlocal restored
                if isinstance(node, ast.expr) and type(node) is type(patt):
                    bnd: Dict[str, str] = {}
                    if _unify(patt, node, bnd) and all(('$$' + p_) in bnd for p_ in params):
                        args = [ast.parse(bnd['$$' + p_], mode='eval').body for p_ in params]
                        if h['class'] and not is_static:
                            func = ast.Attribute(value=args[0], attr=h['name'], ctx=ast.Load())
                            args = args[1:]
                        else:
                            func = ast.Name(id=h['name'], ctx=ast.Load())
                        restored += 1
                        return ast.copy_location(ast.Call(func=func, args=args, keywords=[]), node)
                return node
        scope = [cls_node] if cls_node is not None else [tree]
        for sc in scope:
            for f2 in ast.walk(sc):
                if isinstance(f2, ast.FunctionDef):
                    R().visit(f2)
        if restored:
            fn._restored = True            # type: ignore[attr-defined]
            ast.fix_missing_locations(fn)
            holder.append(fn)
            ast.fix_missing_locations(tree)


def normalise_package(trees: Dict[str, ast.Module]):
    for tree in trees.values():          # parent links would drag the whole module into every deepcopy
        for n in ast.walk(tree):
            n.__dict__.pop('_parent', None)
    _p0(trees)
    _p3(trees)
    _p1(trees)
    n = _p2(trees)
    if n:
        for tree in trees.values():
            normalise_local_more(tree)
            ast.fix_missing_locations(tree)
