"""Repository-specific tables for the resolver (DESIGN §2.2): field-type seeds and the finite set of
dynamic dispatch points.  Every row was confirmed by reading the constructors / call sites."""
from __future__ import annotations

from typing import Dict, List, Tuple

from .model import Repo, AnalysisError
from .resolve import Typer, CallGraph

L = 'lark.'

# (class qual, field) -> types.  Only what annotations and assignments do not already give.
FIELD_SEEDS: Dict[Tuple[str, str], List[str]] = {
    # the post-lexer and custom lexers are user objects behind package interfaces
    ('lark.parser_frontends:PostLexConnector', 'postlexer'): ['C:lark.lark:PostLex'],
    ('lark.parser_frontends:PostLexConnector', 'lexer'): ['C:lark.lexer:Lexer'],
    ('lark.common:LexerConf', 'postlex'): ['C:lark.lark:PostLex'],
    ('lark.lark:LarkOptions', 'postlex'): ['C:lark.lark:PostLex'],
    ('lark.parser_frontends:ParsingFrontend', 'lexer'): ['C:lark.lexer:Lexer', 'C:lark.parser_frontends:PostLexConnector'],
    ('lark.parser_frontends:ParsingFrontend', 'parser'): ['C:lark.parsers.lalr_parser:LALR_Parser',
                                                          'C:lark.parsers.earley:Parser',
                                                          'C:lark.parser_frontends:CYK_FrontEnd'],
    ('lark.lexer:LexerThread', 'lexer'): ['C:lark.lexer:Lexer', 'C:lark.parser_frontends:PostLexConnector'],
    ('lark.parsers.lalr_interactive_parser:InteractiveParser', 'parser'): ['C:lark.parsers.lalr_parser:_Parser'],
    ('lark.parsers.lalr_interactive_parser:InteractiveParser', 'parser_state'): ['C:lark.parsers.lalr_parser_state:ParserState'],
    ('lark.parsers.lalr_interactive_parser:InteractiveParser', 'lexer_thread'): ['C:lark.lexer:LexerThread'],
    ('lark.exceptions:UnexpectedInput', 'interactive_parser'): ['C:lark.parsers.lalr_interactive_parser:InteractiveParser'],
    ('lark.parsers.lalr_parser_state:ParserState', 'lexer'): ['C:lark.lexer:LexerThread'],
    ('lark.parsers.earley:Parser', 'term_matcher'): ['F:lark.parser_frontends:EarleyRegexpMatcher.match',
                                                     'F:lark.parser_frontends:_match_earley_basic'],
    ('lark.lark:Lark', 'parser'): ['C:lark.parser_frontends:ParsingFrontend'],
    ('lark.lark:Lark', 'lexer'): ['C:lark.lexer:BasicLexer'],
    ('lark.lark:Lark', 'options'): ['C:lark.lark:LarkOptions'],
    ('lark.parsers.lalr_parser:LALR_Parser', 'parser'): ['C:lark.parsers.lalr_parser:_Parser'],
    ('lark.parser_frontends:CYK_FrontEnd', 'parser'): ['C:lark.parsers.cyk:Parser'],
    ('lark.lexer:LexerState', 'line_ctr'): ['C:lark.lexer:LineCounter'],
}

_TREE_BUILDER_CALLS = [
    'lark.parse_tree_builder:ExpandSingleChild.__call__',
    'lark.parse_tree_builder:PropagatePositions.__call__',
    'lark.parse_tree_builder:ChildFilter.__call__',
    'lark.parse_tree_builder:ChildFilterLALR.__call__',
    'lark.parse_tree_builder:ChildFilterLALR_NoPlaceholders.__call__',
    'lark.parse_tree_builder:AmbiguousExpander.__call__',
    'lark.parse_tree_builder:AmbiguousIntermediateExpander.__call__',
    'lark.parse_tree_builder:inplace_transformer.f',
    'lark.parse_tree_builder:apply_visit_wrapper.f',
    'lark.parse_tree_builder:ParseTreeBuilder.create_callback.default_callback',
    'lark.tree:Tree.__init__',
    'EXTERNAL',
]

# (function qual, name-independent shape of the callee, see resolve.dispatch_shapes) -> targets
DISPATCH: Dict[Tuple[str, str], List[str]] = {
    ('lark.parsers.lalr_parser_state:ParserState.feed_token', '[*]'): _TREE_BUILDER_CALLS,
    ('lark.parsers.lalr_parser_state:ParserState.feed_token', '[<x>.type]'): ['EXTERNAL'],
    ('lark.parsers.earley_forest:ForestToParseTree._call_rule_func', 'self.callbacks[*]'): _TREE_BUILDER_CALLS,
    ('lark.parser_frontends:CYK_FrontEnd._apply_callback', 'self.callbacks[*]'): _TREE_BUILDER_CALLS,
    ('lark.parse_tree_builder:ExpandSingleChild.__call__', 'self.node_builder'): _TREE_BUILDER_CALLS,
    ('lark.parse_tree_builder:PropagatePositions.__call__', 'self.node_builder'): _TREE_BUILDER_CALLS,
    ('lark.parse_tree_builder:ChildFilter.__call__', 'self.node_builder'): _TREE_BUILDER_CALLS,
    ('lark.parse_tree_builder:ChildFilterLALR.__call__', 'self.node_builder'): _TREE_BUILDER_CALLS,
    ('lark.parse_tree_builder:ChildFilterLALR_NoPlaceholders.__call__', 'self.node_builder'): _TREE_BUILDER_CALLS,
    ('lark.parse_tree_builder:AmbiguousExpander.__call__', 'self.node_builder'): _TREE_BUILDER_CALLS,
    ('lark.parse_tree_builder:AmbiguousIntermediateExpander.__call__', 'self.node_builder'): _TREE_BUILDER_CALLS,
    ('lark.lexer:BasicLexer.next_token', 'self.callback[<x>.type]'): [
        'lark.lexer:UnlessCallback.__call__', 'lark.lexer:CallChain.__call__', 'EXTERNAL'],
    ('lark.lexer:CallChain.__call__', 'self.callback1'): ['lark.lexer:UnlessCallback.__call__', 'lark.lexer:CallChain.__call__', 'EXTERNAL'],
    ('lark.lexer:CallChain.__call__', 'self.callback2'): ['EXTERNAL'],
    # the embedded transformer's __default__ is user code
    ('lark.parse_tree_builder:ParseTreeBuilder.create_callback.default_callback', 'closure'): ['EXTERNAL'],
}

ENTRY_POINTS = ['lark.lark:Lark.parse', 'lark.lark:Lark.lex', 'lark.lark:Lark.scan', 'lark.lark:Lark.parse_interactive']

INTERACTIVE_API = [
    'lark.parsers.lalr_interactive_parser:InteractiveParser.' + m for m in (
        'feed_token', 'iter_parse', 'exhaust_lexer', 'feed_eof', 'copy', '__copy__', 'as_immutable', 'choices',
        'accepts', 'resume_parse', 'pretty', '__eq__')
] + [
    'lark.parsers.lalr_interactive_parser:ImmutableInteractiveParser.' + m for m in (
        'feed_token', 'exhaust_lexer', 'as_mutable', '__hash__')
]


_cache = {}


def build(repo: Repo):
    key = id(repo)
    if key not in _cache:
        for (q, _t), targets in DISPATCH.items():
            repo.func(q)
        typer = Typer(repo, FIELD_SEEDS)
        cg = CallGraph(repo, typer, DISPATCH)
        # one round of argument -> untyped-parameter propagation, then rebuild
        changed = False
        for _ in range(4):
            if not cg.propagate_args():
                break
            changed = True
            typer._env.clear()
            typer._ret.clear()
        if changed:
            typer._collect_field_assignments()
            typer._env.clear()
            typer._ret.clear()
            cg = CallGraph(repo, typer, DISPATCH)
        used = {(s.func.qual, s.text) for sites in cg.sites.values() for s in sites if s.kind == 'dispatch'}
        missing = [k for k in DISPATCH if k not in used]
        if missing:
            raise AnalysisError('dispatch table rows matched no call site (code moved?): %s' % missing)
        _cache[key] = (typer, cg)
    return _cache[key]
