"""Positive controls and the variant self-test (DESIGN §2.6, §2.7, Appendix E).

A variant is a list of text edits applied *in memory* (an overlay over the working tree: nothing is
written anywhere) plus the expected reaction of one rule: `fire` = the rule must report a finding it
does not report on the unmodified tree (optionally one whose key contains a given substring);
`silent` = the rule must report nothing new (neutral twin).  A variant whose anchor text is no longer
present in the tree is *skipped* (reported in the evidence), never counted as a failure: the tree under
analysis may have been edited.  An applied variant with the wrong reaction is an ANALYSIS-ERROR: the
checker is broken, the property is not.
"""
from __future__ import annotations

import os
import traceback
from concurrent.futures import ProcessPoolExecutor
from typing import Dict, List, Optional, Tuple

from .model import Repo, AnalysisError, repo_root
from .report import Ctx
from . import registry


class Variant:
    def __init__(self, rule: str, name: str, edits: List[Tuple[str, str, str]], expect: str = 'fire',
                 key: Optional[str] = None, quick: bool = False, note: str = ''):
        self.rule = rule
        self.name = name
        self.edits = edits          # (relpath, old text, new text); old must occur exactly once
        self.expect = expect        # fire | silent
        self.key = key
        self.quick = quick
        self.note = note


def global_twin_overlay(root=None) -> Dict[str, str]:
    """Whole-repository neutral twin: every top-level statement of every module is replaced by its
    ast.unparse form (layout, comments inside statements, quote style, parenthesisation all change;
    the ###{standalone markers, which live between statements, stay)."""
    import ast
    root = root or repo_root()
    out: Dict[str, str] = {}
    for p in sorted((root / 'lark').rglob('*.py')):
        rel = p.relative_to(root).as_posix()
        if '__pycache__' in rel or '/__pyinstaller/' in rel:
            continue
        src = p.read_text(encoding='utf8')
        lines = src.splitlines(True)
        try:
            tree = ast.parse(src)
        except SyntaxError:
            continue
        buf: List[str] = []
        cur = 1
        for node in tree.body:
            start = min([node.lineno] + [d.lineno for d in getattr(node, 'decorator_list', [])])
            end = node.end_lineno
            buf.extend(lines[cur - 1:start - 1])
            seg = ''.join(lines[start - 1:end])
            buf.append(seg if '###' in seg else ast.unparse(node) + '\n')
            cur = end + 1
        buf.extend(lines[cur - 1:])
        out[rel] = ''.join(buf)
    return out


def global_rename_overlay(root=None) -> Dict[str, str]:
    """Whole-repository neutral twin: every local variable (not parameters, not globals) of every function that
    has no nested function/lambda/class is renamed consistently (x -> x_r) and the function re-emitted with
    ast.unparse.  Rules must not depend on what locals are called."""
    import ast
    import copy as _copy
    root = root or repo_root()

    class Ren(ast.NodeTransformer):
        def __init__(self, names):
            self.names = names

        def visit_Name(self, n):
            if n.id in self.names:
                n.id = n.id + '_r'
            return n

        def visit_ExceptHandler(self, n):
            if n.name in self.names:
                n.name = n.name + '_r'
            self.generic_visit(n)
            return n

    def locals_of(fn):
        a = fn.args
        params = {x.arg for x in a.posonlyargs + a.args + a.kwonlyargs}
        if a.vararg:
            params.add(a.vararg.arg)
        if a.kwarg:
            params.add(a.kwarg.arg)
        names, glob = set(), set()
        for n in ast.walk(fn):
            if isinstance(n, (ast.Global, ast.Nonlocal)):
                glob |= set(n.names)
            if isinstance(n, ast.Name) and isinstance(n.ctx, ast.Store):
                names.add(n.id)
            if isinstance(n, ast.ExceptHandler) and n.name:
                names.add(n.name)
            if isinstance(n, (ast.Import, ast.ImportFrom)):
                for al in n.names:
                    glob.add((al.asname or al.name).split('.')[0])
        return names - params - glob

    out: Dict[str, str] = {}
    for p in sorted((root / 'lark').rglob('*.py')):
        rel = p.relative_to(root).as_posix()
        if '__pycache__' in rel or '/__pyinstaller/' in rel:
            continue
        src = p.read_text(encoding='utf8')
        lines = src.splitlines(True)
        try:
            tree = ast.parse(src)
        except SyntaxError:
            continue
        nested = set()
        for node in ast.walk(tree):
            if isinstance(node, (ast.FunctionDef, ast.Lambda)):
                for x in ast.walk(node):
                    if x is not node and isinstance(x, ast.FunctionDef):
                        nested.add(id(x))
        repl = []
        for fn in ast.walk(tree):
            if not isinstance(fn, ast.FunctionDef) or id(fn) in nested:
                continue
            if any(x is not fn and isinstance(x, (ast.FunctionDef, ast.Lambda, ast.ClassDef)) for x in ast.walk(fn)):
                continue
            names = locals_of(fn)
            if not names:
                continue
            start = min([fn.lineno] + [d.lineno for d in fn.decorator_list])
            end = fn.end_lineno
            if '###' in ''.join(lines[start - 1:end]):
                continue
            indent = len(lines[fn.lineno - 1]) - len(lines[fn.lineno - 1].lstrip())
            text = ast.unparse(Ren(names).visit(_copy.deepcopy(fn)))
            text = ''.join((' ' * indent + l if l.strip() else l) for l in text.splitlines(True)) + '\n'
            repl.append((start, end, text))
        for start, end, text in sorted(repl, reverse=True):
            lines[start - 1:end] = [text]
        new = ''.join(lines)
        try:
            ast.parse(new)
        except SyntaxError:
            continue
        out[rel] = new
    return out


def overlay_for(v: Variant, root=None) -> Optional[Dict[str, str]]:
    root = root or repo_root()
    if getattr(v, 'global_twin', False) == 'rename':
        return global_rename_overlay(root)
    if isinstance(getattr(v, 'global_twin', False), str) and v.global_twin.startswith('ast:'):
        from .twins import ast_twin_overlay
        return ast_twin_overlay(v.global_twin[4:], root)
    if getattr(v, 'global_twin', False):
        return global_twin_overlay(root)
    out: Dict[str, str] = {}
    for rel, old, new in v.edits:
        src = out.get(rel)
        if src is None:
            p = root / rel
            if not p.exists():
                return None
            src = p.read_text(encoding='utf8')
        if src.count(old) != 1:
            return None
        out[rel] = src.replace(old, new)
    return out


_base_cache: Dict[str, set] = {}


def _keys(rule: str, repo: Repo) -> set:
    ctx = Ctx(repo, 'quick')
    res = registry.rule_fn(rule)(ctx)
    return {f.key for f in res.findings}


def eval_variant(v: Variant) -> dict:
    d = {'rule': v.rule, 'name': v.name, 'expect': v.expect, 'status': 'ok', 'got': ''}
    try:
        ov = overlay_for(v)
        if ov is None:
            d['status'] = 'skipped'
            return d
        if v.rule not in _base_cache:
            try:
                _base_cache[v.rule] = _keys(v.rule, Repo())
            except AnalysisError:
                raise
        base = _base_cache[v.rule]
        try:
            keys = _keys(v.rule, Repo(overlay=ov))
            new = keys - base
        except AnalysisError as e:
            # the variant removed an anchor: the rule refuses to pass, which counts as firing
            keys = set()
            new = {'ANALYSIS-ERROR: %s' % e}
        if v.expect == 'fire':
            hit = [k for k in new if v.key is None or v.key in k or k.startswith('ANALYSIS-ERROR')]
            if not hit and v.key is not None and any(v.key in k for k in base & keys):
                # the tree under analysis already violates at this anchor: the control cannot add anything
                d['status'] = 'skipped'
                d['got'] = 'already reported on the unmodified tree'
            elif not hit:
                d['status'] = 'wrong'
                d['got'] = 'stayed silent (new findings: %s)' % sorted(new)[:3]
            else:
                d['got'] = sorted(hit)[0][:200]
        else:
            if new:
                d['status'] = 'wrong'
                d['got'] = 'reported %s' % sorted(new)[:3]
    except AnalysisError as e:
        d['status'] = 'wrong'
        d['got'] = 'analysis error on the unmodified tree: %s' % e
    except Exception:
        d['status'] = 'wrong'
        d['got'] = 'internal error: ' + traceback.format_exc()[-400:]
    return d


def variants_for(prop: str, tier: str) -> List[Variant]:
    from . import variants_table
    rules = registry.PROPERTIES[prop]['rules']
    out = []
    for v in variants_table.VARIANTS:
        if v.rule in rules and (tier == 'thorough' or v.quick):
            out.append(v)
    if tier == 'thorough':
        for r in rules:
            g = Variant(r, 'global-twin-statementwise-unparse', [], expect='silent')
            g.global_twin = True
            out.append(g)
            g2 = Variant(r, 'global-twin-rename-locals', [], expect='silent')
            g2.global_twin = 'rename'
            out.append(g2)
            from .twins import TWINS
            for kind in sorted(TWINS):
                g3 = Variant(r, 'global-twin-%s' % kind, [], expect='silent')
                g3.global_twin = 'ast:' + kind
                out.append(g3)
    return out


# ------------------------------------------------------------------------------------------------
# The corpus (thorough tier): the seeded changes that this property's rules are on record as reporting
# (seeded/matrix.json) must still be reported, and every behaviour-preserving edit (neutral/) must leave the
# property's rules silent.  Patches are applied in memory to the tree under analysis; one that no longer fits
# is skipped.  Corpus entries are whole-property: all rules serving the property are run on the overlay.
_VERIF = os.path.dirname(os.path.dirname(os.path.abspath(__file__)))
_prop_base: Dict[str, set] = {}


def _prop_keys(prop: str, repo: Repo, refused: Optional[list] = None) -> set:
    """Finding keys of the property's rules on `repo`.  With `refused` given, a rule that refuses to judge is recorded there and
    the others still run (as in runner.run_rules)."""
    ctx = Ctx(repo, 'quick')
    keys = set()
    for rule in registry.PROPERTIES[prop]['rules']:
        try:
            res = registry.rule_fn(rule)(ctx)
        except AnalysisError as e:
            if refused is None:
                raise
            refused.append(str(e))
            continue
        for f in res.findings:
            if f.props is None or prop in f.props:
                keys.add(f.key)
    return keys


def corpus_jobs(prop: str) -> List[tuple]:
    import json
    jobs: List[tuple] = []
    mj = os.path.join(_VERIF, 'seeded', 'matrix.json')
    if os.path.exists(mj):
        for row in json.load(open(mj))['rows']:
            if prop in row.get('caught_by', {}):
                jobs.append((prop, 'seeded', row['seed'], 'fire'))
    nd = os.path.join(_VERIF, 'neutral')
    if os.path.isdir(nd):
        for d in sorted(os.listdir(nd)):
            if os.path.isfile(os.path.join(nd, d, 'patch.diff')):
                jobs.append((prop, 'neutral', d, 'silent'))
    return jobs


def eval_corpus(job: tuple) -> dict:
    prop, kind, cid, expect = job
    d = {'rule': '<corpus:%s>' % kind, 'name': cid, 'expect': expect, 'status': 'ok', 'got': ''}
    try:
        from .patching import overlay_from_patch
        ov = overlay_from_patch(repo_root(), open(os.path.join(_VERIF, kind, cid, 'patch.diff'), encoding='utf8').read())
        if ov is None:
            d['status'] = 'skipped'
            return d
        if prop not in _prop_base:
            _prop_base[prop] = _prop_keys(prop, Repo())
        base = _prop_base[prop]
        refused: list = []
        new = _prop_keys(prop, Repo(overlay=ov), refused) - base
        err = refused[0] if refused else None
        if expect == 'fire':
            if not new:
                d['status'] = 'wrong'
                d['got'] = 'seeded change no longer reported' + (' (analysis error: %s)' % err[:120] if err else '')
            else:
                d['got'] = sorted(new)[0][:160]
        else:
            if new:
                d['status'] = 'wrong'
                d['got'] = 'false alarm on a behaviour-preserving edit: %s' % sorted(new)[:2]
            elif err:
                d['status'] = 'skipped'
                d['got'] = 'undecided on this edit (%s)' % err[:120]
    except AnalysisError as e:
        d['status'] = 'wrong'
        d['got'] = 'analysis error on the unmodified tree: %s' % e
    except Exception:
        d['status'] = 'wrong'
        d['got'] = 'internal error: ' + traceback.format_exc()[-400:]
    return d


def run_controls(prop: str, tier: str) -> List[dict]:
    vs = variants_for(prop, tier)
    cj = corpus_jobs(prop) if tier == 'thorough' else []
    if not vs and not cj:
        return []
    jobs = int(os.environ.get('VERIF_JOBS', '16'))
    if len(vs) + len(cj) <= 1 or jobs <= 1:
        return [eval_variant(v) for v in vs] + [eval_corpus(j) for j in cj]
    with ProcessPoolExecutor(max_workers=min(jobs, len(vs) + len(cj))) as ex:
        out = list(ex.map(eval_variant, vs))
        out += list(ex.map(eval_corpus, cj))
        return out
