"""Seeded variants (DESIGN Appendix E): `quick=True` ones double as positive controls on every run."""
from .variants import Variant

VARIANTS = []
