"""Determinism and priority rules [C05].

R-ORDER-DET      on the Earley path, no order-sensitive consumer iterates a collection whose order depends
                 on the hash seed; the ordered-set switch is wired; no id()/hash()/random in ordering.
R-PRIO-SIBLINGS  priority modes rewrite rules and terminals alike; the aggregator and the child ordering
                 point the same way; both child slots contribute; the sort key has the documented shape.
"""
from __future__ import annotations

import ast
from typing import Dict, List, Optional, Set, Tuple

from ..model import Repo, ClassInfo, FuncInfo, AnalysisError, norm, parent, ancestors, enclosing_stmt, const_str
from ..report import Ctx, RuleResult
from ..exprs import has_pat, find_pat

SCOPE_MODULES = ('lark.parsers.earley', 'lark.parsers.xearley', 'lark.parsers.earley_forest', 'lark.parsers.earley_common',
                 'lark.parsers.grammar_analysis', 'lark.parse_tree_builder')
SCOPE_FUNCS = ('lark.load_grammar:Grammar.compile', 'lark.utils:classify', 'lark.utils:dedup_list', 'lark.utils:bfs',
               'lark.utils:classify_bool', 'lark.load_grammar:SimplifyRule_Visitor.expansion', 'lark.load_grammar:SimplifyRule_Visitor.expansions')

# iterations over hash-ordered collections that are harmless, confirmed by reading (one row, one reason)
EXCEPTIONS = {
    ('lark.parsers.grammar_analysis:calculate_sets', '<loop filling FIRST/FOLLOW>'):
        'fills FIRST/FOLLOW dictionaries that are only ever indexed (never iterated) by the parsers',
    ('lark.parsers.earley_forest:ForestToPyDotVisitor.visit_packed_node_out', '[node.left, node.right]'): 'list display',
    ('lark.parsers.grammar_analysis:GrammarAnalyzer.__init__', 'Counter(rules).items()'):
        'builds the text of a GrammarError about duplicate rules (error path)',
}
ORDER_FREE_CALLS = {'set', 'frozenset', 'any', 'all', 'len', 'sum', 'fzset', 'OrderedSet' if False else 'set'}


def _unordered(ts: Set[str], e: ast.AST) -> bool:
    if isinstance(e, (ast.Set, ast.SetComp)):
        return True
    if any(t == 'C:lark.utils:OrderedSet' for t in ts):
        return False          # conditionally ordered collections (self.Set): ordered under ordered_sets=True (wiring checked)
    core = {t for t in ts if not t.startswith(('E:', 'K:'))}
    return bool(core) and core <= {'b:set', 'b:frozenset'}


def _consumer_order_free(n: ast.AST) -> Tuple[bool, str]:
    """Is the consumer of this iteration insensitive to the order?  n is the For / comprehension owner."""
    if isinstance(n, (ast.SetComp,)):
        return True, 'builds a set'
    if isinstance(n, ast.DictComp):
        return False, 'builds a dict (insertion order is observable)'
    if isinstance(n, (ast.GeneratorExp, ast.ListComp)):
        p = parent(n)
        if isinstance(p, ast.Call) and isinstance(p.func, ast.Name) and p.func.id in ('set', 'frozenset', 'any', 'all', 'sum', 'len', 'fzset', 'max', 'min'):
            return True, 'consumed by %s()' % p.func.id
        if isinstance(p, ast.Call) and isinstance(p.func, ast.Attribute) and p.func.attr in ('update', 'issubset', 'issuperset', 'union'):
            return True, 'consumed by set.%s' % p.func.attr
        if isinstance(p, ast.Call) and isinstance(p.func, ast.Attribute) and p.func.attr == 'join' and isinstance(parent(p), (ast.BinOp, ast.Call, ast.Raise)):
            pass
        return False, 'builds a sequence'
    if isinstance(n, ast.For):
        sinks = []
        for x in ast.walk(n):
            if x is n:
                continue
            if isinstance(x, (ast.Yield, ast.YieldFrom, ast.Break, ast.Return)):
                sinks.append(type(x).__name__)
            if isinstance(x, ast.Call) and isinstance(x.func, ast.Attribute) and x.func.attr in ('append', 'extend', 'insert', 'appendleft', 'setdefault'):
                sinks.append(x.func.attr)
            if isinstance(x, ast.Assign):
                for t in x.targets:
                    if isinstance(t, ast.Subscript):
                        sinks.append('dict/list store')
        if not sinks:
            return True, 'body only tests / adds to sets / raises'
        return False, 'body has order-sensitive effects: %s' % sorted(set(sinks))
    return False, 'unknown consumer'


def run_order(ctx: Ctx) -> RuleResult:
    repo, ty = ctx.repo, ctx.typer
    res = RuleResult('R-ORDER-DET', 'Earley path: no order-sensitive iteration over hash-ordered collections; ordered-set switch wired; '
                                    'no id()/hash()/random in ordering')
    funcs = [f for f in repo.functions.values() if f.module.name in SCOPE_MODULES or f.qual in SCOPE_FUNCS]
    n_iter = 0
    used_exc = set()
    for f in funcs:
        env = ty.env(f)
        for n in f.body_nodes():
            iters: List[Tuple[ast.AST, ast.AST]] = []
            if isinstance(n, ast.For):
                iters.append((n.iter, n))
            elif isinstance(n, (ast.ListComp, ast.SetComp, ast.DictComp, ast.GeneratorExp)):
                for g in n.generators:
                    iters.append((g.iter, n))
            elif isinstance(n, ast.Call) and isinstance(n.func, ast.Name) and n.func.id in ('sorted', 'list', 'tuple', 'next', 'min', 'max', 'deque') \
                    and n.args and not isinstance(n.args[0], (ast.GeneratorExp, ast.ListComp)):
                iters.append((n.args[0], n))
            for it, owner in iters:
                base = it
                if isinstance(base, ast.Call) and isinstance(base.func, ast.Name) and base.func.id in ('iter', 'reversed', 'enumerate') and base.args:
                    base = base.args[0]
                ts = ty.expr(f, base, env)
                n_iter += 1
                if not _unordered(ts, base):
                    continue
                site = '%s %s' % (f.loc(owner), f.qual)
                key = (f.qual, norm(base))
                returned = {x.id for r_ in f.body_nodes() if isinstance(r_, ast.Return) and r_.value is not None
                            for x in ast.walk(r_.value) if isinstance(x, ast.Name)}
                if isinstance(owner, ast.For) and f.qual == 'lark.parsers.grammar_analysis:calculate_sets' and isinstance(owner.target, ast.Name):
                    # every effect of the body is a store `<returned dict>[<loop variable>] = ...` (keyed by the element itself)
                    stores = [x for st_ in owner.body for x in ast.walk(st_) if isinstance(x, (ast.Assign, ast.AugAssign))]
                    others = [x for st_ in owner.body for x in ast.walk(st_)
                              if isinstance(x, (ast.Yield, ast.YieldFrom, ast.Break, ast.Return, ast.Delete))
                              or (isinstance(x, ast.Call) and isinstance(x.func, ast.Attribute) and x.func.attr in
                                  ('append', 'extend', 'insert', 'appendleft', 'setdefault', 'pop', 'remove'))]
                    if stores and not others and all(
                            isinstance(x, ast.Assign) and len(x.targets) == 1 and isinstance(x.targets[0], ast.Subscript)
                            and norm(x.targets[0].value) in returned and norm(x.targets[0].slice) == owner.target.id for x in stores):
                        key = (f.qual, '<loop filling FIRST/FOLLOW>')
                if key in EXCEPTIONS:
                    used_exc.add(key)
                    res.ob(site, 'iteration over hash-ordered %s: tabled (%s)' % (norm(base), EXCEPTIONS[key]), True)
                    continue
                if isinstance(owner, ast.Call):
                    nm = owner.func.id
                    if nm == 'sorted':
                        keyf = [k.value for k in owner.keywords if k.arg == 'key']
                        okk = not keyf or not any(isinstance(x, ast.Call) and isinstance(x.func, ast.Name) and x.func.id in ('id', 'hash')
                                                  for x in ast.walk(keyf[0]))
                        # sorted() is stable: ties keep the (hash-dependent) input order
                        res.ob(site, 'sorted(%s): input order is hash-dependent, ties are resolved by it' % norm(base), False)
                        res.finding(f, enclosing_stmt(owner), 'sorted() over the hash-ordered %s: elements that compare equal keep a '
                                    'hash-seed-dependent order' % norm(base), construct='sorted:' + norm(base))
                        continue
                    if nm in ('min', 'max'):
                        res.ob(site, '%s(%s): order-free up to ties' % (nm, norm(base)), True)
                        continue
                    res.ob(site, '%s(%s) fixes a hash-dependent order' % (nm, norm(base)), False)
                    res.finding(f, enclosing_stmt(owner), '%s() over the hash-ordered %s produces a hash-seed-dependent sequence'
                                % (nm, norm(base)), construct='%s:%s' % (nm, norm(base)))
                    continue
                free, why = _consumer_order_free(owner)
                res.ob(site, 'iteration over hash-ordered %s: %s' % (norm(base), why), free)
                if not free:
                    res.finding(f, enclosing_stmt(owner), 'iterates the hash-ordered collection %s and %s: the result depends on '
                                'PYTHONHASHSEED' % (norm(base), why), construct='iter:' + norm(base))
            # id()/hash() in sort keys, random/time
            if isinstance(n, ast.Call) and isinstance(n.func, ast.Name) and n.func.id == 'sorted' or \
                    (isinstance(n, ast.Call) and isinstance(n.func, ast.Attribute) and n.func.attr == 'sort'):
                for k in n.keywords:
                    if k.arg == 'key' and any(isinstance(x, ast.Call) and isinstance(x.func, ast.Name) and x.func.id in ('id', 'hash')
                                              for x in ast.walk(k.value)):
                        res.ob('%s %s' % (f.loc(n), f.qual), 'sort key does not use id()/hash()', False)
                        res.finding(f, enclosing_stmt(n), 'a sort key uses id()/hash(): the order changes from run to run', construct='sortkey:' + norm(k.value))
            if isinstance(n, ast.Call) and isinstance(n.func, ast.Name) and n.func.id in ('randint', 'random', 'choice', 'shuffle', 'time'):
                dbg = f.cls is not None and f.cls.name == 'ForestToPyDotVisitor'
                res.ob('%s %s' % (f.loc(n), f.qual), '%s(): %s' % (n.func.id, 'debug-only graph output' if dbg else 'on the parse path'), dbg)
                if not dbg:
                    res.finding(f, enclosing_stmt(n), 'randomness/time on the Earley path', construct='random:' + norm(n))
    res.tables['iterations_examined'] = n_iter
    res.require_instances(n_iter, 60, 'iterations on the Earley path')
    # ---- wiring of the ordered-set switch ------------------------------------------------------------
    init = repo.func('lark.parsers.earley:Parser.__init__')
    from ..exprs import match_cond
    osp = next((p_ for p_ in init.positional_names() if p_ == 'ordered_sets'), 'ordered_sets')
    ok = bool(match_cond(init.body_nodes(), osp, 'OrderedSet', 'set', target_src='$me.Set')) \
        and bool(match_cond(init.body_nodes(), osp, 'StableSymbolNode', 'SymbolNode', target_src='$me.SymbolNode'))
    res.ob('%s %s' % (init.loc(), init.qual), 'ordered_sets selects OrderedSet and StableSymbolNode', ok)
    if not ok:
        res.finding(init, init.node, 'ordered_sets no longer selects insertion-ordered sets for Earley columns and SPPF node children',
                    construct='wiring:set')
    dflt = {a.arg: d for a, d in zip(init.node.args.args[-len(init.node.args.defaults):], init.node.args.defaults)}
    ok = isinstance(dflt.get('ordered_sets'), ast.Constant) and dflt['ordered_sets'].value is True
    res.ob('%s %s' % (init.loc(), init.qual), 'ordered_sets defaults to True in the parser', ok)
    if not ok:
        res.finding(init, init.node, 'earley.Parser no longer defaults to ordered sets', construct='wiring:default')
    opts = repo.cls('lark.lark:LarkOptions').literal_attr('_defaults') or {}
    ok = opts.get('ordered_sets') is True
    res.ob('lark/lark.py LarkOptions._defaults', 'ordered_sets defaults to True in the options', ok)
    if not ok:
        res.finding('lark.lark:LarkOptions', None, 'the ordered_sets option no longer defaults to True', construct='wiring:option',
                    module=repo.module('lark.lark'))
    cep = repo.func('lark.parser_frontends:create_earley_parser')
    ok = any(k.arg == 'ordered_sets' and norm(k.value) == 'options.ordered_sets' for n in cep.body_nodes() if isinstance(n, ast.Call) for k in n.keywords)
    res.ob('%s %s' % (cep.loc(), cep.qual), 'the option reaches the parser', ok)
    if not ok:
        res.finding(cep, cep.node, 'options.ordered_sets is not passed to the Earley parser', construct='wiring:pass')
    ssn = repo.cls('lark.parsers.earley_forest:StableSymbolNode')
    ok = norm(ssn.class_attrs.get('Set', ast.Constant(None))) == 'OrderedSet'
    res.ob('%s %s' % (ssn.module.loc(ssn.node), ssn.qual), 'StableSymbolNode keeps its children in an OrderedSet', ok)
    if not ok:
        res.finding(ssn.qual, ssn.node, 'StableSymbolNode.Set is not OrderedSet', construct='wiring:stable', module=ssn.module)
    sn = repo.cls('lark.parsers.earley_forest:SymbolNode')
    i2 = sn.methods['__init__']
    ok = any(norm(x) == 'self._children = self.Set()' for x in i2.body_nodes() if isinstance(x, ast.Assign))
    res.ob('%s %s' % (i2.loc(), i2.qual), 'children live in self.Set()', ok)
    if not ok:
        res.finding(i2, i2.node, 'SymbolNode children are not kept in the class\'s Set type', construct='wiring:children')
    # every column / scan buffer is created through self.Set
    for fq in ('lark.parsers.earley:Parser.parse', 'lark.parsers.earley:Parser._parse.scan', 'lark.parsers.xearley:Parser._parse.scan'):
        f = repo.func(fq)
        bad = [n for n in f.body_nodes() if isinstance(n, ast.Call) and isinstance(n.func, ast.Name) and n.func.id == 'set' and
               isinstance(parent(n), ast.Assign) and norm(parent(n).targets[0]) in ('next_set', 'next_to_scan', 'to_scan', 'columns')]
        ok = not bad and any(isinstance(n, ast.Call) and norm(n.func) == 'self.Set' for n in f.body_nodes())
        res.ob('%s %s' % (f.loc(), f.qual), 'columns and scan buffers are created with self.Set', ok)
        if not ok:
            res.finding(f, f.node, 'a column / scan buffer is a plain set', construct='wiring:columns')
    # OrderedSet preserves insertion order
    os_ = repo.cls('lark.utils:OrderedSet')
    ok = any(norm(x) == 'self.d = dict.fromkeys(items)' for x in os_.methods['__init__'].body_nodes() if isinstance(x, ast.Assign)) and \
        any(isinstance(x, ast.Return) and norm(x.value) == 'iter(self.d)' for x in os_.methods['__iter__'].body_nodes()) and \
        any(norm(x) == 'self.d[item] = None' for x in os_.methods['add'].body_nodes() if isinstance(x, ast.Assign))
    res.ob('%s %s' % (os_.module.loc(os_.node), os_.qual), 'OrderedSet is a dict-backed insertion-ordered set', ok)
    if not ok:
        res.finding(os_.qual, os_.node, 'OrderedSet no longer iterates in insertion order', construct='orderedset', module=os_.module)
    # rule order is the position among the alternatives of its origin
    gc = repo.func('lark.load_grammar:Grammar.compile')
    ok = any(isinstance(n, ast.For) and norm(n.iter) == 'enumerate(expansions)' for n in gc.body_nodes()) and \
        any(isinstance(n, ast.Call) and norm(n.func) == 'Rule' and len(n.args) >= 3 and norm(n.args[2]) == 'i' for n in gc.body_nodes())
    res.ob('%s %s' % (gc.loc(), gc.qual), 'Rule.order is the alternative\'s position in the grammar', ok)
    if not ok:
        res.finding(gc, gc.node, 'Rule.order is no longer the index of the alternative among its rule\'s alternatives', construct='rule-order')
    return res


def run_prio(ctx: Ctx) -> RuleResult:
    repo = ctx.repo
    res = RuleResult('R-PRIO-SIBLINGS', 'priority modes treat rules and terminals alike; max-aggregation matches the child order; '
                                        'both child slots contribute; documented sort key')
    res.default_props = ['C05']
    init = repo.func('lark.lark:Lark.__init__')
    branches = []
    for n in init.body_nodes():
        if isinstance(n, ast.If) and norm(n.test) == "self.options.priority == 'invert'":
            branches.append(('invert', n.body))
            if len(n.orelse) == 1 and isinstance(n.orelse[0], ast.If) and norm(n.orelse[0].test) == 'self.options.priority is None':
                branches.append(('none', n.orelse[0].body))
    ok = [b for b, _ in branches] == ['invert', 'none']
    res.ob('%s %s' % (init.loc(), init.qual), 'priority modes invert / None are handled as sibling branches', ok)
    if not ok:
        res.finding(init, init.node, 'cannot find the `invert` / `None` priority branches', construct='prio:branches')
        return res
    for mode, body in branches:
        rules_loop = [s for s in body if isinstance(s, ast.For) and norm(s.iter) == 'self.rules']
        terms_loop = [s for s in body if isinstance(s, ast.For) and norm(s.iter) == 'self.terminals']
        okr = len(rules_loop) == 1
        okt = len(terms_loop) == 1
        site = '%s %s [%s]' % (init.loc(body[0]), init.qual, mode)
        if okr:
            rv = norm(rules_loop[0].target)
            asg = [x for x in ast.walk(rules_loop[0]) if isinstance(x, ast.Assign) and norm(x.targets[0]) == rv + '.options.priority']
            if mode == 'invert':
                okr = len(asg) == 1 and norm(asg[0].value) == '-%s.options.priority' % rv
            else:
                okr = len(asg) == 1 and norm(asg[0].value) == 'None'
        if okt:
            tv = norm(terms_loop[0].target)
            asg = [x for x in ast.walk(terms_loop[0]) if isinstance(x, ast.Assign) and norm(x.targets[0]) == tv + '.priority']
            if mode == 'invert':
                okt = len(asg) == 1 and norm(asg[0].value) == '-%s.priority' % tv
            else:
                okt = len(asg) == 1 and norm(asg[0].value) == '0'
        res.ob(site, 'mode %s rewrites every rule priority' % mode, okr)
        if not okr:
            res.finding(init, body[0], 'priority mode %r does not %s the priority of every rule' % (mode, 'negate' if mode == 'invert' else 'strip'),
                        construct='prio:%s:rules' % mode)
        res.ob(site, 'mode %s rewrites every terminal priority' % mode, okt)
        if not okt:
            res.finding(init, body[0], 'priority mode %r does not %s the priority of every terminal (dynamic lexers add terminal priorities)'
                        % (mode, 'negate' if mode == 'invert' else 'strip'), construct='prio:%s:terminals' % mode)
    # the modes update options objects in place: every Rule must own its options object, otherwise an object shared by the
    # alternatives of one rule is negated once per alternative
    gc = repo.func('lark.load_grammar:Grammar.compile')
    rule_calls = [n for n in gc.body_nodes() if isinstance(n, ast.Call) and norm(n.func) == 'Rule' and len(n.args) >= 5]
    ok = len(rule_calls) == 1
    if ok:
        ov = rule_calls[0].args[4]
        defs_ = [x for x in gc.body_nodes() if isinstance(x, ast.Assign) and any(norm(t) == norm(ov) for t in x.targets)] if isinstance(ov, ast.Name) else []

        def _fresh(e):
            if isinstance(e, ast.Call) and isinstance(e.func, ast.Name) and e.func.id in ('copy', 'deepcopy', 'RuleOptions'):
                return True
            if isinstance(e, ast.BoolOp) and isinstance(e.op, ast.Or):
                return all(_fresh(v) for v in e.values)
            return False
        same_loop = [d for d in defs_ if any(isinstance(a, ast.For) and any(rule_calls[0] is y for y in ast.walk(a)) for a in ancestors(d))]
        ok = bool(same_loop) and all(_fresh(d.value) for d in same_loop)
        bad_ = [norm(d) for d in same_loop if not _fresh(d.value)]
    res.ob('%s %s' % (gc.loc(), gc.qual), 'every compiled Rule gets its own RuleOptions object (copy / constructor on every path)', ok)
    if not ok:
        res.finding(gc, rule_calls[0] if rule_calls else gc.node, 'the alternatives of a rule share one RuleOptions object (%s) while priority=\'invert\' '
                    'negates rule.options.priority in place per Rule: a rule with two alternatives is negated twice and keeps its priority'
                    % (bad_[:2] if rule_calls and len(rule_calls) == 1 else '?'), construct='prio:options-shared', props=['C05', 'C10'])
    # ... and that object is a copy of the options of the rule the alternative belongs to (its `?`, `!`, priority, template source),
    # whichever arm builds it: a bare RuleOptions(...) would drop them for alternatives with an unmatched [..]
    if rule_calls and len(rule_calls) == 1 and same_loop:
        loop_ = next(a for a in ancestors(rule_calls[0]) if isinstance(a, ast.For) and any(d is y for d in same_loop for y in ast.walk(a)))
        # the rule's options: the name unpacked from the rules list in the enclosing loop
        outer_names = set()
        for a in ancestors(rule_calls[0]):
            if isinstance(a, ast.For):
                outer_names |= {x.id for x in ast.walk(a.target) if isinstance(x, ast.Name)}
                for st_ in a.body:
                    if isinstance(st_, ast.Assign) and isinstance(st_.targets[0], (ast.Tuple, ast.List)):
                        outer_names |= {x.id for x in ast.walk(st_.targets[0]) if isinstance(x, ast.Name)}
        optname = 'options' if 'options' in outer_names else None

        def derives(e) -> bool:
            return optname is not None and any(isinstance(x, ast.Call) and isinstance(x.func, ast.Name) and x.func.id in ('copy', 'deepcopy')
                                               and x.args and norm(x.args[0]) == optname for x in ast.walk(e))
        bad2 = [norm(d) for d in same_loop if not derives(d.value)]
        ok2 = optname is not None and not bad2
        res.ob('%s %s' % (gc.loc(), gc.qual), 'the RuleOptions of every alternative is a copy of its rule\'s options on every arm', ok2, props=['C03', 'C05'])
        if not ok2:
            res.finding(gc, rule_calls[0], 'an alternative\'s RuleOptions is not copied from the options of its rule (%s): the alternative loses the '
                        'rule\'s `?` / `!` modifiers and priority (e.g. the alternative of `?x: [A] B` in which [A] is unmatched is no longer inlined)'
                        % bad2[:2], construct='prio:options-derived', props=['C03', 'C05'])
    # helper rules generated by EBNF expansion carry no priority of their own (it would be added once per repetition)
    ro = [x for x in gc.body_nodes() if isinstance(x, ast.Assign) and len(x.targets) == 1 and norm(x.targets[0]).endswith('.rule_options')
          and 'ebnf' in norm(x.targets[0])]
    ok = bool(ro)
    if ok:
        v = ro[0].value
        vdefs = [x.value for x in gc.body_nodes() if isinstance(x, ast.Assign) and isinstance(v, ast.Name)
                 and any(isinstance(t, ast.Name) and t.id == v.id for t in x.targets)] or [v]
        for d in vdefs:
            arms = [d.body, d.orelse] if isinstance(d, ast.IfExp) else [d]
            for a in arms:
                good = (isinstance(a, ast.Constant) and a.value is None) or (
                    isinstance(a, ast.Call) and norm(a.func) == 'RuleOptions' and not any(k.arg == 'priority' for k in a.keywords) and len(a.args) <= 2)
                ok = ok and good
    res.ob('%s %s' % (gc.loc(), gc.qual), 'EBNF helper rules get fresh options without a priority', ok)
    if not ok:
        res.finding(gc, ro[0] if ro else gc.node, 'the helper rules of +/*/~ expansion inherit the user rule\'s options (and so its priority, '
                    'once per repetition): the total priority is no longer the sum over the rules applied', construct='prio:helper-options', props=['C03', 'C05', 'C09'])
    # aggregator vs ordering
    fsv = repo.cls('lark.parsers.earley_forest:ForestSumVisitor')
    so = fsv.methods['visit_symbol_node_out']
    agg = [n for n in so.body_nodes() if isinstance(n, ast.Call) and isinstance(n.func, ast.Name) and n.func.id in ('max', 'min')]
    pn = repo.cls('lark.parsers.earley_forest:PackedNode')
    sk = pn.methods['sort_key']
    ret = [n.value for n in sk.body_nodes() if isinstance(n, ast.Return)]
    key = [norm(e) for e in ret[0].elts] if ret and isinstance(ret[0], ast.Tuple) else []
    ch = repo.cls('lark.parsers.earley_forest:SymbolNode').methods['children']
    srt = [n for n in ch.body_nodes() if isinstance(n, ast.Call) and isinstance(n.func, ast.Name) and n.func.id == 'sorted']
    rev = any(k.arg == 'reverse' and isinstance(k.value, ast.Constant) and k.value.value for c in srt for k in c.keywords)
    ok = len(agg) == 1 and len(srt) == 1
    if ok:
        best_first_is_max = ('-self.priority' in key and not rev) or ('self.priority' in key and rev)
        ok = (agg[0].func.id == 'max') == best_first_is_max and has_pat(list(ast.walk(agg[0])), '($c.priority for $c in $n.children)')
    res.ob('%s %s' % (so.loc(), so.qual), 'a symbol node\'s priority is the %s over its children and the first child in sort order is that one '
           '(key %s, reverse=%s)' % (agg[0].func.id if agg else '?', key, rev), ok)
    if not ok:
        res.finding(so, so.node, 'the priority aggregated upwards (%s) is not the priority of the child that the ordering puts first '
                    '(sort key %s, reverse=%s): the reported optimum and the chosen derivation diverge' % (agg[0].func.id if agg else '?', key, rev),
                    construct='prio:direction')
    # (compared after expanding properties of PackedNode: `self.is_empty` and its definition written out are the same key)
    from ..exprs import expand_properties
    sks = sk.self_name() or 'self'
    key_x = [norm(expand_properties(pn, e, sks)) for e in ret[0].elts] if ret and isinstance(ret[0], ast.Tuple) else []
    want_x = [norm(expand_properties(pn, ast.parse(t, mode='eval').body, sks)) for t in ('%s.is_empty' % sks, '-%s.priority' % sks, '%s.rule.order' % sks)]
    ok = key_x == want_x
    res.ob('%s %s' % (sk.loc(), sk.qual), 'sort key is (is_empty, -priority, rule.order): non-empty first, then priority, then grammar order', ok)
    if not ok:
        res.finding(sk, sk.node, 'PackedNode.sort_key is %s, documented precedence is (is_empty, -priority, rule.order)' % key, construct='prio:sort-key')
    ok = srt and any(k.arg == 'key' and 'sort_key' in norm(k.value) for k in srt[0].keywords) and norm(srt[0].args[0]) == 'self._children'
    res.ob('%s %s' % (ch.loc(), ch.qual), 'children are sorted by sort_key', bool(ok))
    if not ok:
        res.finding(ch, ch.node, 'SymbolNode.children is no longer sorted by PackedNode.sort_key', construct='prio:children-sort')
    # both slots contribute
    po = fsv.methods['visit_packed_node_out']
    body = ' '.join(norm(s) for s in po.node.body)
    slots = [s for s in ('node.left', 'node.right') if "getattr(%s, 'priority', 0)" % s in body]
    ok = len(slots) == 2 and 'node.priority = priority' in body
    res.ob('%s %s' % (po.loc(), po.qual), 'a packed node adds the priorities of both child slots %s' % slots, ok)
    if not ok:
        res.finding(po, po.node, 'visit_packed_node_out adds only %s: the total priority of a derivation misses a subtree' % slots,
                    construct='prio:slots')
    # priority = <rule priority> if (the node is not an intermediate one and the rule has a priority) else 0  -- in any spelling
    from ..exprs import cond_values, bool_relation, pat as _pat, unify as _unify
    nparam = po.positional_names()[0] if po.positional_names() else 'node'
    want_t = _pat('not %s.parent.is_intermediate and %s.rule.options.priority' % (nparam, nparam))
    ok = False
    for tgt, test, va, vb, _n in cond_values(po.body_nodes()):
        rel = bool_relation(test, want_t)
        if rel == 'negated':
            va, vb = vb, va
        if rel and norm(va) == '%s.rule.options.priority' % nparam and norm(vb) == '0':
            ok = True
    res.ob('%s %s' % (po.loc(), po.qual), 'the rule\'s own priority is added once (on the completed node, not on intermediates)', ok)
    if not ok:
        res.finding(po, po.node, 'the rule priority is not added exactly once per applied rule', construct='prio:rule-once')
    # resolve: first successful child wins
    ftp = repo.cls('lark.parsers.earley_forest:ForestToParseTree')
    tp = ftp.methods['transform_packed_node']
    ok = any(isinstance(n, ast.If) and norm(n.test) == 'self.resolve_ambiguity and id(node.parent) in self._successful_visits'
             and any(isinstance(s, ast.Return) and norm(s.value) == 'Discard' for s in n.body) for n in tp.body_nodes())
    res.ob('%s %s' % (tp.loc(), tp.qual), 'under resolve, alternatives after the first successful one are discarded', ok)
    if not ok:
        res.finding(tp, tp.node, 'ambiguity=resolve no longer keeps exactly the first successful alternative in sort order', construct='prio:first-wins')
    vi = ftp.methods['visit']
    ok = any(norm(n) == 'self.prioritizer.visit(root)' for n in vi.body_nodes() if isinstance(n, ast.Expr)) or \
        any(isinstance(n, ast.Call) and norm(n.func) == 'self.prioritizer.visit' for n in vi.body_nodes())
    res.ob('%s %s' % (vi.loc(), vi.qual), 'priorities are computed before the forest is turned into a tree', ok)
    if not ok:
        res.finding(vi, vi.node, 'the prioritizer no longer runs before the tree is built', construct='prio:prepass')
    # terminal priorities: dynamic lexers use the terminal's priority, the basic lexer neutralises it
    tn = repo.cls('lark.parsers.earley_forest:TokenNode').methods['__init__']
    body = ' '.join(norm(s) for s in tn.node.body)
    tparam = next((p_ for p_ in tn.positional_names() if p_ == 'term'), 'term')
    ok = False
    for tgt, test, va, vb, _n in cond_values(tn.body_nodes()):
        rel = bool_relation(test, _pat('%s is not None' % tparam))
        if rel == 'negated':
            va, vb = vb, va
        if rel and tgt.endswith('.priority') and norm(va) == '%s.priority' % tparam and norm(vb) == '0':
            ok = True
    res.ob('%s %s' % (tn.loc(), tn.qual), 'a token node carries its terminal\'s priority unless overridden', ok)
    if not ok:
        res.finding(tn, tn.node, 'TokenNode no longer takes the terminal priority by default', construct='prio:token-default')
    # ... and a terminal without a declared priority has the neutral element of that sum (what an undeclared rule priority and a token
    # without terminal contribute above): otherwise every undeclared token shifts the total, and the count of tokens decides
    gm = repo.module('lark.grammar')
    dflt = [st_ for st_ in gm.tree.body if isinstance(st_, (ast.Assign, ast.AnnAssign)) and st_.value is not None
            and any(norm(t_) == 'TOKEN_DEFAULT_PRIORITY' for t_ in (st_.targets if isinstance(st_, ast.Assign) else [st_.target]))]
    if len(dflt) != 1:
        raise AnalysisError('R-PRIO-SIBLINGS: lark.grammar defines TOKEN_DEFAULT_PRIORITY %d times' % len(dflt))
    try:
        val_ = ast.literal_eval(dflt[0].value)
    except Exception:
        raise AnalysisError('R-PRIO-SIBLINGS: TOKEN_DEFAULT_PRIORITY is not a literal (%s)' % norm(dflt[0].value))
    ok = isinstance(val_, (int, float)) and not isinstance(val_, bool) and val_ == 0
    res.ob('%s TOKEN_DEFAULT_PRIORITY' % gm.loc(dflt[0]), 'an undeclared terminal priority is 0, the neutral element of the priority sum', ok)
    if not ok:
        res.finding('lark.grammar:<module>', dflt[0], 'TOKEN_DEFAULT_PRIORITY is %r: under the dynamic lexers every token of a terminal without a declared priority adds '
                    'that to the total of its derivation, so the derivation with fewer (or more) tokens wins whatever the declared priorities say'
                    % (val_,), construct='prio:default-neutral', module=gm)
    sc = repo.func('lark.parsers.earley:Parser._parse.scan')
    from ..exprs import call_args_by_name
    ok = any(isinstance(n, ast.Call) and norm(n.func) == 'TokenNode'
             and norm(call_args_by_name(repo, n, 'lark.parsers.earley_forest:TokenNode').get('priority', ast.Constant(value=None))) == '0'
             for n in sc.body_nodes())
    res.ob('%s %s' % (sc.loc(), sc.qual), 'with the basic lexer, token nodes have priority 0 (the lexer already used the priorities)', ok)
    if not ok:
        res.finding(sc, sc.node, 'the basic-lexer Earley scanner no longer neutralises terminal priorities', construct='prio:basic-zero')
    xs = repo.func('lark.parsers.xearley:Parser._parse.scan')
    ok = any(isinstance(n, ast.Call) and norm(n.func) == 'TokenNode' and not n.keywords and len(n.args) == 2 for n in xs.body_nodes())
    res.ob('%s %s' % (xs.loc(), xs.qual), 'with the dynamic lexers, token nodes carry the terminal priority', ok)
    if not ok:
        res.finding(xs, xs.node, 'the dynamic scanner overrides the terminal priority of token nodes', construct='prio:dynamic-term')
    # the initial priority of a symbol node is the identity of the aggregation (max -> -inf, min -> +inf): a node the pass never
    # reaches (the cyclic alternative, discarded on retreat) must lose against every real derivation
    sni = repo.cls('lark.parsers.earley_forest:SymbolNode').methods['__init__']
    inits = [a.value for a in sni.body_nodes() if isinstance(a, ast.Assign) and len(a.targets) == 1 and norm(a.targets[0]).endswith('.priority')]
    want_init = "float('-inf')" if (agg and agg[0].func.id == 'max') else "float('inf')"
    ok = len(inits) == 1 and norm(inits[0]) in (want_init, want_init.replace("'", '"'), '-math.inf' if 'max' in want_init or '-' in want_init else 'math.inf')
    res.ob('%s %s' % (sni.loc(), sni.qual), 'a symbol node starts with the identity of the %s aggregation (%s)' % (agg[0].func.id if agg else '?', want_init), ok)
    if not ok:
        res.finding(sni, sni.node, 'SymbolNode.priority starts at %s, not at %s: a node whose priority is never computed (cycle retreat) can outrank '
                    'real derivations under the %s aggregation' % ([norm(x) for x in inits], want_init, agg[0].func.id if agg else '?'),
                    construct='prio:init-identity')
    # user edits of the terminals (edit_terminals) come before the priority mode rewrites priorities: what the callback sets is
    # inverted / neutralised like everything else
    li = repo.func('lark.lark:Lark.__init__')
    from ..cfg import cfg_of
    g_ = cfg_of(li.node)
    edits = [enclosing_stmt(c) for c in li.body_nodes() if isinstance(c, ast.Call) and norm(c.func).endswith('.edit_terminals')]
    rewrites = [a for a in li.body_nodes() if isinstance(a, ast.Assign) and len(a.targets) == 1 and norm(a.targets[0]).endswith('.priority')
                and any(isinstance(l_, ast.For) and norm(l_.iter).endswith('.terminals') for l_ in ancestors(a))]
    ok = bool(edits) and bool(rewrites) and all(e_.lineno < r_.lineno for e_ in edits for r_ in rewrites) and \
        all(g_.node_of(r_) in g_.reachable([g_.node_of(e_)]) for e_ in edits for r_ in rewrites)
    res.ob('%s %s' % (li.loc(), li.qual), 'edit_terminals runs before the priority mode rewrites terminal priorities', ok)
    if not ok:
        res.finding(li, edits[0] if edits else li.node, 'edit_terminals runs after the priority mode (invert / None) has rewritten the terminal '
                    'priorities: priorities set by the callback escape the inversion / neutralisation', construct='prio:edit-order')
    # the prioritizer is enabled when any priority is set
    pi = repo.func('lark.parsers.earley:Parser.__init__')
    # (by path conditions: the two assignments enabling the pass run under "some rule has a priority" and under "the lexer is not
    #  the basic one and some terminal has a priority" -- however the tests are nested, merged or written as search loops)
    from ..exprs import path_conditions, find_pat as _fp
    enabling = _fp(pi.body_nodes(), '$me.forest_sum_visitor = ForestSumVisitor')

    def _conjuncts(st_):
        out_ = []
        for t_, pol_ in path_conditions(st_):
            if pol_ and isinstance(t_, ast.BoolOp) and isinstance(t_.op, ast.And):
                out_ += [(v_, True) for v_ in t_.values]
            else:
                out_.append((t_, pol_))
        return out_
    rule_arm = term_arm = False
    for a_, _b in enabling:
        cj = _conjuncts(a_)
        texts = [norm(t_) for t_, pol_ in cj if pol_]
        loops_ = [l_ for l_ in ancestors(a_) if isinstance(l_, ast.For)]
        if any('.options.priority is not None' in t_ for t_ in texts) or any('.options.priority is not None' in t_ and 'any(' in t_ for t_ in texts):
            rule_arm = True
        has_term = any(t_.endswith('.priority') and not t_.endswith('options.priority') for t_ in texts) or \
            any(has_pat([ast.parse(t_, mode='eval').body], 'any(($t.priority for $t in $$terms))') for t_ in texts)
        not_basic = any("lexer_type != 'basic'" in t_ for t_ in texts)
        if has_term and not_basic:
            term_arm = True
    ok = rule_arm and term_arm
    res.ob('%s %s' % (pi.loc(), pi.qual), 'the priority pass is enabled by any rule priority, or (dynamic lexers) any terminal priority', ok)
    if not ok:
        res.finding(pi, pi.node, 'the conditions enabling the priority pass changed', construct='prio:enable')
    return res
