#!/venv/bin/python
"""Validation of the canonical form (sa/normalise.py): write the package as the rules see it (every top-level statement replaced by the
unparse of its normalised tree; statements holding ###{standalone markers kept verbatim) into a scratch worktree under /tmp and run
lark's own test suite on it.  RC 0 = the rewrites preserved behaviour as far as the suite can tell.  Not part of any check: it runs lark."""
import sys, os, ast, shutil, subprocess, re
sys.path.insert(0,'/verif')
from sa.model import Repo
repo=Repo('/repo')
d='/tmp/normpkg'
shutil.rmtree(d, ignore_errors=True)
subprocess.run(['git','-C','/repo','worktree','prune'])
subprocess.run(['git','-C','/repo','worktree','add','-q','--detach',d,'HEAD'],check=True)
nfull=0; kept=0
for m in repo.modules.values():
    src=open(os.path.join('/repo',m.relpath)).read()
    lines=src.splitlines(True)
    orig=ast.parse(src)
    if len(orig.body)!=len(m.tree.body):
        print('skip (top-level count differs)', m.relpath); continue
    buf=[]; cur=1
    for o,nw in zip(orig.body, m.tree.body):
        start=min([o.lineno]+[x.lineno for x in getattr(o,'decorator_list',[])]); end=o.end_lineno
        buf.extend(lines[cur-1:start-1])
        seg=''.join(lines[start-1:end])
        if '###' in seg: buf.append(seg); kept+=1
        else: buf.append(ast.unparse(nw)+'\n'); nfull+=1
        cur=end+1
    buf.extend(lines[cur-1:])
    new=''.join(buf)
    ast.parse(new)
    open(os.path.join(d,m.relpath),'w').write(new)
print('normalised top-level statements',nfull,'kept verbatim',kept)
r=subprocess.run(['/venv/bin/python','-m','pytest','-q','-p','no:cacheprovider','--timeout=900','-q','--tb=line'],cwd=d,env=dict(os.environ,PYTHONPATH=d),capture_output=True,text=True)
print('RC', r.returncode)
print(r.stdout[-600:])
subprocess.run(['git','-C','/repo','worktree','remove','--force',d])
