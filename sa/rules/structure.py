"""General structural rules added after the third seeded-change round (DESIGN §3.9, §7).

R-CONFIG-FORWARD     an object that builds another object of its own class (a grammar builder loading an imported grammar)
                     hands every constructor parameter it keeps in a field of the same name on to the new object [C03].
R-OVERWRITTEN-STORE  a store into an item / attribute is not overwritten by the next statement before anything can read it
                     (an `else:` lost in front of a default assignment silently discards the conditional value) [C07 C10].
R-COPY-COVERS        a hand-written __copy__ / __deepcopy__ / copy() covers every field the constructor sets, deep copies are
                     unconditional, and ParserState.copy hands its lexer through so that the identity guard of
                     InteractiveParser.copy can recognise it [C13].
R-SPLIT-ARMS         where a function treats str and bytes in two arms of an isinstance(..., bytes) test and the arms are meant
                     to do the same thing (tabled sites), they are the same code up to the representation of constants and a
                     final decode [C15].
"""
from __future__ import annotations

import ast
import copy as _copy
from typing import Dict, List, Optional, Set, Tuple

from ..model import Repo, ClassInfo, FuncInfo, AnalysisError, norm, parent, ancestors, enclosing_stmt, const_str, core_stmts
from ..report import Ctx, RuleResult
from ..exprs import bind_call, cond_values, find_pat, has_pat, influences


# ------------------------------------------------------------------------------------------------
def run_config_forward(ctx: Ctx) -> RuleResult:
    repo, ty = ctx.repo, ctx.typer
    res = RuleResult('R-CONFIG-FORWARD', 'recursive construction forwards every configuration field to the nested object')
    n = 0
    for k in repo.classes.values():
        if not k.module.name.startswith('lark') or k.module.name.startswith('lark.tools'):
            continue
        init = k.methods.get('__init__')
        if init is None:
            continue
        sn = init.self_name()
        params = init.positional_names()
        # parameters kept as configuration: self.<p> = <p> (possibly `<p> or default`)
        kept: Set[str] = set()
        for a in init.body_nodes():
            if isinstance(a, ast.Assign) and len(a.targets) == 1 and isinstance(a.targets[0], ast.Attribute) \
                    and isinstance(a.targets[0].value, ast.Name) and a.targets[0].value.id == sn and a.targets[0].attr in params:
                if any(isinstance(x, ast.Name) and x.id == a.targets[0].attr for x in ast.walk(a.value)):
                    kept.add(a.targets[0].attr)
        if not kept:
            continue
        for m in k.swept_methods():
            if m.name in ('__init__', '__new__', 'copy', '__copy__', '__deepcopy__', '__reduce__'):
                continue
            msn = m.self_name()
            if msn is None:
                continue
            for c in m.body_nodes():
                if not (isinstance(c, ast.Call) and isinstance(c.func, ast.Name) and c.func.id == k.name):
                    continue
                n += 1
                bound, exact = bind_call(c, params)
                missing = []
                for p in sorted(kept):
                    a = bound.get(p)
                    if a is None or not any(isinstance(x, ast.Attribute) and x.attr == p and isinstance(x.value, ast.Name) and x.value.id == msn
                                            for x in ast.walk(a)):
                        missing.append(p)
                ok = not missing
                res.ob('%s %s' % (m.module.loc(c), m.qual), 'nested %s(...) receives this object\'s %s' % (k.name, sorted(kept)), ok)
                if not ok:
                    res.finding(m, c, 'the nested %s built here does not receive %s from the object that builds it: the nested object falls '
                                'back to the default, so a setting given to the outer object silently stops applying inside (e.g. '
                                'keep_all_tokens inside an imported grammar)' % (k.name, ', '.join('self.' + p for p in missing)),
                                construct='not-forwarded:%s:%s' % (k.name, ','.join(missing)))
    res.require_instances(n, 1, 'recursive construction sites')
    return res


# ------------------------------------------------------------------------------------------------
def _store_target(st: ast.AST) -> Optional[str]:
    if isinstance(st, ast.Assign) and len(st.targets) == 1 and isinstance(st.targets[0], (ast.Subscript, ast.Attribute)):
        return norm(st.targets[0])
    return None


def run_overwritten(ctx: Ctx) -> RuleResult:
    repo = ctx.repo
    res = RuleResult('R-OVERWRITTEN-STORE', 'no item / attribute store is overwritten by the next statement before it can be read')
    n = 0
    for f in repo.functions.values():
        if f.module.name.startswith('lark.tools') or isinstance(f.node, ast.Lambda):
            continue
        for node in ast.walk(f.node):
            if node is not f.node and isinstance(node, (ast.FunctionDef, ast.AsyncFunctionDef, ast.ClassDef)):
                continue
            for field in ('body', 'orelse', 'finalbody'):
                b = getattr(node, field, None)
                if not (isinstance(b, list) and b and isinstance(b[0], ast.stmt)):
                    continue
                b = core_stmts(b)
                for i in range(len(b) - 1):
                    a, c = b[i], b[i + 1]
                    t2 = _store_target(c)
                    if t2 is None:
                        continue
                    n += 1
                    first = None
                    if _store_target(a) == t2:
                        first = a
                    elif isinstance(a, ast.If) and a.body and _store_target(a.body[-1]) == t2 and (
                            not a.orelse or _store_target(a.orelse[-1]) == t2):
                        first = a.body[-1]
                    if first is None:
                        continue
                    # the second store may legitimately build on the first (x[k] = g(x[k])): then it reads it
                    reads = t2 in norm(c.value)
                    res.ob('%s %s' % (f.module.loc(c), f.qual), 'store to %s follows a store to the same place: it reads it first' % t2, reads)
                    if not reads:
                        res.finding(f, c, 'the value stored in %s just before (line %d) is overwritten here without having been read: the '
                                    'earlier, conditional value is lost (a missing `else:`?)' % (t2, first.lineno),
                                    construct='overwritten:%s' % t2)
    res.require_instances(n, 100, 'item/attribute stores examined')
    return res


# ------------------------------------------------------------------------------------------------
COPY_METHODS = ('__copy__', '__deepcopy__', 'copy')
# fields a copy method leaves out on purpose (one symbol, one reason)
COPY_EXCEPTIONS = {
    ('lark.tree:Tree.copy', '_meta'): 'public shallow copy: documented to copy data and children only; forks use __deepcopy__',
    ('lark.parsers.lalr_interactive_parser:InteractiveParser.copy', 'result'): 'result of the last feed of an immutable parser: an output, not state',
}


def _init_fields(k: ClassInfo) -> List[str]:
    out: List[str] = []
    for c in reversed(k.mro()):
        init = c.methods.get('__init__')
        if init is None:
            continue
        sn = init.self_name()
        for a in init.body_nodes():
            tg = a.targets if isinstance(a, ast.Assign) else [a.target] if isinstance(a, (ast.AnnAssign, ast.AugAssign)) else []
            for t in tg:
                if isinstance(t, ast.Attribute) and isinstance(t.value, ast.Name) and t.value.id == sn and t.attr not in out:
                    out.append(t.attr)
    return out


def _ctor_sets(k: ClassInfo) -> Dict[str, Set[str]]:
    """constructor parameter -> fields whose value depends on it."""
    init = k.find_method('__init__')
    out: Dict[str, Set[str]] = {}
    if init is None:
        return out
    sn = init.self_name()
    for a in init.body_nodes():
        if isinstance(a, ast.Assign):
            for t in a.targets:
                if isinstance(t, ast.Attribute) and isinstance(t.value, ast.Name) and t.value.id == sn:
                    for x in ast.walk(a.value):
                        if isinstance(x, ast.Name) and x.id in init.positional_names():
                            out.setdefault(x.id, set()).add(t.attr)
    return out


def run_copy_covers(ctx: Ctx) -> RuleResult:
    repo = ctx.repo
    res = RuleResult('R-COPY-COVERS', 'hand-written copies cover every field; deep copies are unconditional; the state copy keeps its lexer '
                                     'recognisable')
    scope = ('lark.lexer', 'lark.tree', 'lark.utils', 'lark.parsers.lalr_parser_state', 'lark.parsers.lalr_interactive_parser',
             'lark.parsers.lalr_parser')
    n = 0
    for k in repo.classes.values():
        if k.module.name not in scope:
            continue
        fields = _init_fields(k)
        slots = k.literal_attr('__slots__')
        if isinstance(slots, (list, tuple)):
            fields = [s for s in slots if isinstance(s, str) and not s.startswith('__')] or fields
        if not fields:
            continue
        for mname in COPY_METHODS:
            m = k.methods.get(mname)
            if m is None:
                continue
            sn = m.self_name()
            # the construction: type(self)(...) / cls(...) / ClassName(...)
            ctor = [c for c in m.body_nodes() if isinstance(c, ast.Call) and (
                norm(c.func) in ('type(%s)' % sn, k.name, 'self.__class__', '%s.__class__' % sn))]
            if len(ctor) != 1:
                continue
            n += 1
            c = ctor[0]
            init = k.find_method('__init__')
            bound, _ = bind_call(c, init.positional_names()) if init is not None else ({}, False)
            pset = _ctor_sets(k)
            covered: Set[str] = set()
            for p, a in bound.items():
                covered |= pset.get(p, set())
            # fields assigned on the new object afterwards:  new.<f> = ...
            st = enclosing_stmt(c)
            newvar = st.targets[0].id if isinstance(st, ast.Assign) and len(st.targets) == 1 and isinstance(st.targets[0], ast.Name) else None
            if newvar:
                for a in m.body_nodes():
                    if isinstance(a, ast.Assign):
                        for t in a.targets:
                            if isinstance(t, ast.Attribute) and isinstance(t.value, ast.Name) and t.value.id == newvar:
                                covered.add(t.attr)
            # fields the constructor derives without a parameter (constants, fresh containers) need no copying only if they never
            # change afterwards; a field that other methods assign must be carried over
            mutated: Set[str] = set()
            for c2 in k.mro():
                for m2 in c2.methods.values():
                    if m2.name in ('__init__',) + COPY_METHODS:
                        continue
                    s2 = m2.self_name()
                    for a in m2.body_nodes():
                        tg = a.targets if isinstance(a, ast.Assign) else [a.target] if isinstance(a, ast.AugAssign) else []
                        for t in tg:
                            if isinstance(t, ast.Attribute) and isinstance(t.value, ast.Name) and t.value.id == s2:
                                mutated.add(t.attr)
            missing = [f_ for f_ in fields if f_ not in covered and f_ in mutated and (m.qual, f_) not in COPY_EXCEPTIONS]
            ok = not missing
            res.ob('%s %s' % (m.loc(), m.qual), 'the copy carries over every field that changes after construction (%s)' % sorted(mutated & set(fields)), ok)
            if not ok:
                res.finding(m, m.node, '%s.%s builds the copy without %s: the copy starts with the constructor\'s default for a field the '
                            'original has since changed (positions / state of a fork are then wrong)' % (k.name, mname, ', '.join(missing)),
                            construct='copy-misses:%s' % ','.join(missing))
            # deep copies are unconditional: an argument that is a local must be a deep copy on every path
            if mname == '__deepcopy__':
                for p, a in bound.items():
                    if isinstance(a, ast.Name):
                        defs = [d for d in m.body_nodes() if isinstance(d, ast.Assign) and any(isinstance(t, ast.Name) and t.id == a.id for t in d.targets)]
                        shallow = [d for d in defs if not (isinstance(d.value, ast.Call) and norm(d.value.func) in ('deepcopy', 'copy.deepcopy'))
                                   and any(isinstance(x, ast.Attribute) and isinstance(x.value, ast.Name) and x.value.id == sn for x in ast.walk(d.value))]
                        okd = not shallow
                        res.ob('%s %s' % (m.loc(), m.qual), 'argument %s of the deep copy is a deep copy on every path' % a.id, okd)
                        if not okd:
                            res.finding(m, shallow[0], '%s.__deepcopy__ passes %s, which on some path is the original\'s own %s (not a copy): the copy '
                                        'and the original share it, and in-place updates of one show in the other' % (k.name, a.id, norm(shallow[0].value)),
                                        construct='deepcopy-conditional:%s' % a.id)
    res.require_instances(n, 3, 'hand-written copy methods')
    # ParserState.copy hands the lexer through: InteractiveParser.copy replaces the copied state's lexer only when it *is* the
    # interactive parser's thread, so a state copy that copies the lexer itself leaves the fork with two threads
    ipc = repo.func('lark.parsers.lalr_interactive_parser:InteractiveParser.copy')
    guarded = has_pat(ipc.body_nodes(), 'if $ps.lexer is $me.lexer_thread:\n    $ps.lexer = $lt')
    psc = repo.func('lark.parsers.lalr_parser_state:ParserState.copy')
    ssn = psc.self_name()
    ctor = [c for c in psc.body_nodes() if isinstance(c, ast.Call) and norm(c.func) == 'type(%s)' % ssn]
    ok = True
    if guarded and ctor:
        init = repo.cls('lark.parsers.lalr_parser_state:ParserState').find_method('__init__')
        bound, _ = bind_call(ctor[0], init.positional_names())
        a = bound.get('lexer')
        ok = a is not None and norm(a) == '%s.lexer' % ssn
    res.ob('%s %s' % (psc.loc(), psc.qual), 'the state copy keeps the original lexer object (the interactive parser\'s copy replaces it, '
                                           'recognising it by identity)', ok)
    if not ok:
        res.finding(psc, ctor[0], 'ParserState.copy no longer passes its own lexer object on: InteractiveParser.copy recognises the lexer thread by '
                    'identity before replacing it with the forked thread, so the fork ends up with two different lexer threads (its state lexes '
                    'from one, the interactive parser advances the other)', construct='state-copy-lexer')
    return res


# ------------------------------------------------------------------------------------------------
SPLIT_SITES = {
    'lark.exceptions:UnexpectedInput.get_context': 'builds the same caret display for str and bytes',
}


class _Unrepr(ast.NodeTransformer):
    """bytes constants -> str constants; a trailing .decode(...) is dropped."""
    def visit_Constant(self, n):
        if isinstance(n.value, bytes):
            return ast.copy_location(ast.Constant(value=n.value.decode('latin-1')), n)
        return n

    def visit_Call(self, n):
        self.generic_visit(n)
        if isinstance(n.func, ast.Attribute) and n.func.attr == 'decode':
            return n.func.value
        return n


def run_split_arms(ctx: Ctx) -> RuleResult:
    repo = ctx.repo
    res = RuleResult('R-SPLIT-ARMS', 'the str arm and the bytes arm of a representation split do the same thing')
    n = 0
    for fq, why in SPLIT_SITES.items():
        f = repo.func(fq)
        for st in f.body_nodes():
            if not (isinstance(st, ast.If) and st.orelse and any(
                    isinstance(c, ast.Call) and norm(c.func) == 'isinstance' and len(c.args) == 2 and 'bytes' in norm(c.args[1]) or
                    (isinstance(c, ast.Call) and norm(c.func) == 'isinstance' and len(c.args) == 2 and norm(c.args[1]) == 'str')
                    for c in ast.walk(st.test))):
                continue
            n += 1
            a = [norm(_Unrepr().visit(_strip(s))) for s in core_stmts(st.body)]
            b = [norm(_Unrepr().visit(_strip(s))) for s in core_stmts(st.orelse)]
            ok = a == b
            res.ob('%s %s' % (f.module.loc(st), f.qual), 'both arms are the same code up to the representation of constants (%s)' % why, ok)
            if not ok:
                diff = [(x, y) for x, y in zip(a, b) if x != y][:1] or [(a[-1:], b[-1:])]
                res.finding(f, st, 'the str arm and the bytes arm differ beyond the representation of their constants: %s vs %s -- the same '
                            'input gives a different result as str and as bytes' % diff[0], construct='split-arms')
    res.require_instances(n, 1, 'representation splits with twin arms')
    return res


def _strip(s: ast.AST) -> ast.AST:
    """A private copy of a statement (re-parsed from its normalised text: the model's nodes carry parent links and are shared)."""
    return ast.parse(norm(s)).body[0]
