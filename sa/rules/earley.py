"""R-EARLEY-PROTOCOL [C01]: the item protocol of the Earley recogniser (Scott's formulation), as far as it is in the shape of the code.

C01 as a whole (accepts exactly L(G), for every grammar and every lexer mode) is functional correctness of a chart algorithm and is
not decided.  Decided here: the bookkeeping every item goes through, each clause a necessary condition of completeness (no
derivation is lost) or of soundness (nothing else is accepted):

  e1  ROUTING.  Every item the predictor, the completer (both arms) or a scanner produces is routed by one test -- `expect in TERMINALS`
      -- to a scan buffer, otherwise to an Earley set.  Inside predict_and_complete the set is the column being processed, the item is
      added only if it is not yet in *that* set, and it is put on the agenda with the same statement block (an item in the set but not on
      the agenda is never processed: its derivations are lost).
  e2  AGENDA.  predict_and_complete starts from every item of column i and runs until the agenda is empty.
  e3  COMPLETER.  The originators of a completed item are the items of column `item.start` that expect its symbol; each is advanced, and
      the new node's family is (originator.node, item.node).
  e4  NULLABLE SYMBOLS.  A completion with `item.start == i` is remembered under the rule's origin (held completions); the predictor,
      besides predicting, advances an item over a symbol with a held completion, using that node as the child.
  e5  PREDICTOR.  For every rule of `predictions[item.expect]` an `Item(rule, 0, i)`.
  e6  SCANNERS.  Every item of the scan buffer is offered the token / the text at i; a match advances the item, the node ends one
      position later (token scanner) and the new item is routed as in e1; the next Earley set is appended once per step.
  e7  MAIN LOOP.  predict_and_complete(i) before each scan(i), the position advances by one per step, one final predict_and_complete.
  e8  START AND ACCEPTANCE.  Every rule of the start symbol gives an `Item(rule, 0, 0)`, routed as in e1; the parse succeeds iff the last
      column holds an item that is complete, has a node, is the start symbol and starts at 0.
  e9  PREDICTION CLOSURE / NULLABLE.  expand_rule reaches every rule of every non-terminal met at the start of a rule already reached;
      NULLABLE is the least fixed point of "all symbols of some expansion are nullable" (iterated until nothing changes).
"""
from __future__ import annotations

import ast
from typing import Dict, List, Optional, Set, Tuple

from ..model import Repo, FuncInfo, AnalysisError, norm, parent, ancestors, enclosing_stmt, const_str
from ..report import Ctx, RuleResult
from ..exprs import path_conditions, bool_relation, runs_only_if, linear

EA = 'lark.parsers.earley:Parser.'
XE = 'lark.parsers.xearley:Parser.'
GA = 'lark.parsers.grammar_analysis:'


def _pe(text: str) -> ast.AST:
    return ast.parse(text, mode='eval').body


def _sym(t: ast.AST) -> str:
    """text of a test with the operands of a symmetric comparison in sorted order"""
    if isinstance(t, ast.Compare) and len(t.ops) == 1 and isinstance(t.ops[0], (ast.Eq, ast.NotEq, ast.Is, ast.IsNot)):
        a, b = sorted([norm(t.left), norm(t.comparators[0])])
        return '%s %s %s' % (a, {ast.Eq: '==', ast.NotEq: '!=', ast.Is: 'is', ast.IsNot: 'is not'}[type(t.ops[0])], b)
    return norm(t)


def _aliases(f: FuncInfo) -> Dict[str, str]:
    """locals that are plain names for an expression (column = columns[i]), defined once"""
    vals: Dict[str, Set[str]] = {}
    for a in f.body_nodes():
        if isinstance(a, ast.Assign) and len(a.targets) == 1 and isinstance(a.targets[0], ast.Name):
            vals.setdefault(a.targets[0].id, set()).add(norm(a.value) if isinstance(a.value, (ast.Subscript, ast.Attribute, ast.Name)) else '<other>')
        elif isinstance(a, (ast.AugAssign, ast.For, ast.comprehension)):
            for x in ast.walk(a.target):
                if isinstance(x, ast.Name):
                    vals.setdefault(x.id, set()).add('<other>')
    # every definition gives the name the same meaning (a looked-through helper may repeat `column = columns[i]`)
    return {k: next(iter(v)) for k, v in vals.items() if len(v) == 1 and '<other>' not in v}


def _region(repo: Repo, f: FuncInfo, stmts=None, depth: int = 0) -> List[ast.AST]:
    """the nodes of `stmts` (default: the whole function), followed into private methods of the same class that are called as
    `self._m(<names>)` with every argument a plain name equal to the parameter it binds (a function split into parts)"""
    out: List[ast.AST] = []
    seq = stmts if stmts is not None else f.node.body
    for s_ in seq:
        for n in ast.walk(s_):
            if n is not s_ and isinstance(n, (ast.FunctionDef, ast.AsyncFunctionDef, ast.Lambda)) and stmts is None and False:
                continue
            out.append(n)
            if depth < 2 and isinstance(n, ast.Call) and isinstance(n.func, ast.Attribute) and isinstance(n.func.value, ast.Name) \
                    and n.func.value.id == (f.self_name() or 'self') and n.func.attr.startswith('_') and f.cls is not None:
                h = f.cls.methods.get(n.func.attr)
                if h is None or h is f or n.keywords:
                    continue
                params = h.positional_names()
                if len(params) == len(n.args) and all(isinstance(a, ast.Name) and a.id == p_ for a, p_ in zip(n.args, params)):
                    out.extend(_region(repo, h, None, depth + 1))
    return out


def _helpers_of(repo: Repo, f: FuncInfo) -> List[FuncInfo]:
    hs = []
    for n in _region(repo, f):
        if isinstance(n, ast.FunctionDef) or not isinstance(n, ast.Call):
            continue
    seen = {id(f.node)}
    for n in _region(repo, f):
        if isinstance(n, ast.Call) and isinstance(n.func, ast.Attribute) and f.cls is not None and n.func.attr in f.cls.methods:
            h = f.cls.methods[n.func.attr]
            if id(h.node) not in seen and any(x is n for x in _region(repo, f)):
                seen.add(id(h.node))
                hs.append(h)
    return hs


class Route:
    def __init__(self, node: ast.If, item: str, term_dest: Optional[str], set_dest: Optional[str], guard: Optional[str], agenda: Optional[str], problems: List[str]):
        self.node, self.item, self.term_dest, self.set_dest, self.guard, self.agenda, self.problems = node, item, term_dest, set_dest, guard, agenda, problems


def _routes(f: FuncInfo, alias: Dict[str, str], nodes: Optional[List[ast.AST]] = None) -> List[Route]:
    """routing sites: `if X.expect in <...>.TERMINALS: A.add(X) else/elif ...`"""
    def canon(e: ast.AST) -> str:
        t = norm(e)
        return alias.get(t, t)
    out = []
    for st in (nodes if nodes is not None else f.body_nodes()):
        if not isinstance(st, ast.If):
            continue
        t = st.test
        neg = False
        while isinstance(t, ast.UnaryOp) and isinstance(t.op, ast.Not):
            t, neg = t.operand, not neg
        if not (isinstance(t, ast.Compare) and len(t.ops) == 1 and isinstance(t.ops[0], (ast.In, ast.NotIn)) and norm(t.comparators[0]).endswith('.TERMINALS')
                and isinstance(t.left, ast.Attribute) and t.left.attr == 'expect'):
            continue
        if isinstance(t.ops[0], ast.NotIn):
            neg = not neg
        item = norm(t.left.value)
        term_arm, other = (st.orelse, st.body) if neg else (st.body, st.orelse)
        problems = []

        def adds(stmts, direct_only=False):
            return [c for s_ in stmts for c in ast.walk(s_) if isinstance(c, ast.Call) and isinstance(c.func, ast.Attribute) and c.func.attr in ('add', 'append')
                    and c.args and norm(c.args[0]) == item]
        ta = adds(term_arm)
        term_dest = canon(ta[0].func.value) if len(ta) == 1 else None
        if len(ta) != 1:
            problems.append('the terminal arm does not put the item into exactly one scan buffer')
        guard = None
        inner = other
        if len(other) == 1 and isinstance(other[0], ast.If) and not other[0].orelse:
            g = other[0].test
            gneg = False
            while isinstance(g, ast.UnaryOp) and isinstance(g.op, ast.Not):
                g, gneg = g.operand, not gneg
            if isinstance(g, ast.Compare) and len(g.ops) == 1 and isinstance(g.ops[0], (ast.In, ast.NotIn)) and norm(g.left) == item:
                if isinstance(g.ops[0], ast.NotIn) != gneg:
                    guard = canon(g.comparators[0])
                    inner = other[0].body
                else:
                    problems.append('the item is added when it IS already in the set')
        oa = adds(inner)
        set_adds = [c for c in oa if c.func.attr == 'add']
        ag_adds = [c for c in oa if c.func.attr == 'append']
        set_dest = canon(set_adds[0].func.value) if len(set_adds) == 1 else None
        if len(set_adds) != 1:
            problems.append('the non-terminal arm does not add the item to exactly one Earley set')
        agenda = canon(ag_adds[0].func.value) if len(ag_adds) == 1 else None
        out.append(Route(st, item, term_dest, set_dest, guard, agenda, problems))
    return out


def run(ctx: Ctx) -> RuleResult:
    repo = ctx.repo
    res = RuleResult('R-EARLEY-PROTOCOL', 'every Earley item is routed by expect-in-TERMINALS to a scan buffer or to the set being built (added once, and put on '
                                          'the agenda); completer, held completions, predictor, scanners, main loop and acceptance keep Scott\'s bookkeeping')
    res.default_props = ['C01']
    pc = repo.func(EA + 'predict_and_complete')
    site = '%s %s' % (pc.loc(), pc.qual)
    pn = pc.positional_names()
    if len(pn) < 3:
        raise AnalysisError('R-EARLEY-PROTOCOL: predict_and_complete signature changed')
    ipar, scanbuf, cols = pn[0], pn[1], pn[2]
    region = _region(repo, pc)
    alias = _aliases(pc)
    for n_ in region:
        if isinstance(n_, ast.Assign) and len(n_.targets) == 1 and isinstance(n_.targets[0], ast.Name) and isinstance(n_.value, ast.Subscript) \
                and n_.targets[0].id not in alias and sum(1 for m_ in region if isinstance(m_, ast.Assign) and len(m_.targets) == 1 and norm(m_.targets[0]) == n_.targets[0].id) == 1:
            alias[n_.targets[0].id] = norm(n_.value)
    col = '%s[%s]' % (cols, ipar)

    def canon(e: ast.AST) -> str:
        t = norm(e)
        return alias.get(t, t)
    # ---- e2: agenda ---------------------------------------------------------------------------------------------------------------
    loops = [w for w in pc.node.body if isinstance(w, ast.While)]
    ok = len(loops) == 1 and isinstance(loops[0].test, ast.Name)
    agenda = norm(loops[0].test) if ok else None
    if ok:
        init = [a for a in pc.node.body if isinstance(a, ast.Assign) and len(a.targets) == 1 and norm(a.targets[0]) == agenda]
        ok = len(init) == 1 and isinstance(init[0].value, ast.Call) and len(init[0].value.args) == 1 and canon(init[0].value.args[0]) == col
        pops = [a for a in loops[0].body if isinstance(a, ast.Assign) and isinstance(a.value, ast.Call) and norm(a.value.func) in (agenda + '.pop', agenda + '.popleft')]
        ok = ok and len(pops) == 1 and loops[0].body.index(pops[0]) == 0
    res.ob(site, 'e2: the agenda starts as the items of column i and the loop runs until it is empty', ok)
    if not ok:
        res.finding(pc, loops[0] if loops else pc.node, 'predict_and_complete no longer processes every item of column i from an agenda that runs empty',
                    construct='e2:agenda')
        return res
    loop = loops[0]
    itemv = norm(loop.body[0].targets[0])
    # ---- e1: routing inside predict_and_complete ------------------------------------------------------------------------------------
    routes = _routes(pc, alias, region)
    n_routes = len(routes)
    okr = n_routes >= 3
    res.ob(site, 'e1: predict_and_complete routes its new items at %d sites (Leo completer, completer, predictor)' % n_routes, okr)
    if not okr:
        res.finding(pc, pc.node, 'predict_and_complete has %d routing sites (`if X.expect in self.TERMINALS`), the Leo completer, the completer and the '
                    'predictor each need one: an unrouted item is lost' % n_routes, construct='e1:routing-sites')
    for r in routes:
        probs = list(r.problems)
        if r.term_dest is not None and r.term_dest != scanbuf:
            probs.append('items expecting a terminal go to %s, not to the scan buffer `%s`' % (r.term_dest, scanbuf))
        if r.set_dest is not None and r.set_dest != col:
            probs.append('items expecting a non-terminal go to %s, not to the column being processed (%s)' % (r.set_dest, col))
        if r.guard is None and not any('already in the set' in p_ for p_ in probs):
            probs.append('the item is added without the "not yet in the set" test (the agenda would not terminate on recursive rules)')
        elif r.guard is not None and r.guard != col:
            probs.append('"not yet in" is tested on %s but the item is added to %s' % (r.guard, r.set_dest))
        if r.agenda != agenda:
            probs.append('the item is not put on the agenda `%s` together with the set (an item only in the set is never processed)' % agenda)
        ok = not probs
        res.ob('%s %s' % (pc.loc(r.node), pc.qual), 'e1: `%s` is routed: terminal -> %s; else if not in %s: add and put on the agenda' % (r.item, scanbuf, col), ok)
        if not ok:
            res.finding(pc, r.node, 'routing of `%s` in predict_and_complete: %s' % (r.item, '; '.join(probs)), construct='e1:route:%s' % _where(r.node, pc))
    # every item made in the function reaches a routing site
    made = set()
    for a in region:
        if isinstance(a, ast.Assign) and len(a.targets) == 1 and isinstance(a.targets[0], ast.Name) and isinstance(a.value, ast.Call) \
                and (norm(a.value.func) == 'Item' or (isinstance(a.value.func, ast.Attribute) and a.value.func.attr == 'advance')):
            made.add(a.targets[0].id)
    routed = {r.item for r in routes}
    collected = {norm(c.args[0]) for c in region if isinstance(c, ast.Call) and isinstance(c.func, ast.Attribute) and c.func.attr == 'append'
                 and c.args and isinstance(c.args[0], ast.Name) and norm(c.func.value) != agenda}
    loopvars = {norm(l.target): norm(l.iter) for l in region if isinstance(l, ast.For) and isinstance(l.target, ast.Name)}
    ok = all(m in routed or (m in collected) for m in made) and bool(made)
    res.ob(site, 'e1: every item created (%s) is routed, directly or through the list the predictor routes' % sorted(made), ok)
    if not ok:
        res.finding(pc, pc.node, 'items %s are created in predict_and_complete but never routed' % sorted(m for m in made if m not in routed and m not in collected),
                    construct='e1:unrouted')
    # ---- branches ------------------------------------------------------------------------------------------------------------------
    top = [s for s in loop.body if isinstance(s, ast.If)]
    comp_if = next((s for s in top if bool_relation(s.test, _pe('%s.is_complete' % itemv)) == 'same'), None)
    ok = comp_if is not None and len(comp_if.orelse) == 1 and isinstance(comp_if.orelse[0], ast.If) \
        and bool_relation(comp_if.orelse[0].test, _pe('%s.expect in self.NON_TERMINALS' % itemv)) == 'same'
    res.ob(site, 'the agenda loop completes complete items and predicts for items expecting a non-terminal', ok)
    if not ok:
        res.finding(pc, loop, 'the completer / predictor dispatch (`if item.is_complete ... elif item.expect in self.NON_TERMINALS`) changed shape',
                    construct='dispatch')
        return res
    pred = comp_if.orelse[0]
    comp_nodes = _region(repo, pc, comp_if.body)
    pred_nodes = _region(repo, pc, pred.body)
    # ---- e3: completer ---------------------------------------------------------------------------------------------------------------
    orig_src = [n for n in comp_nodes if isinstance(n, (ast.ListComp, ast.GeneratorExp, ast.For)) and
                (norm(n.generators[0].iter) if not isinstance(n, ast.For) else norm(n.iter)) == '%s[%s.start]' % (cols, itemv)]
    ok = len(orig_src) == 1
    why = 'the originators are not taken from %s[%s.start]' % (cols, itemv)
    if ok:
        src = orig_src[0]
        ov = norm(src.generators[0].target) if not isinstance(src, ast.For) else norm(src.target)
        if isinstance(src, ast.For):
            tests = {norm(v) for s_ in src.body if isinstance(s_, ast.If) for v in (s_.test.values if isinstance(s_.test, ast.BoolOp) and isinstance(s_.test.op, ast.And) else [s_.test])}
        else:
            tests = set()
            for i_ in src.generators[0].ifs:
                tests |= {norm(v) for v in (i_.values if isinstance(i_, ast.BoolOp) and isinstance(i_.op, ast.And) else [i_])}
        ok = '%s.expect == %s.s' % (ov, itemv) in tests or '%s.s == %s.expect' % (itemv, ov) in tests
        tests = set(tests)
        why = 'the originators are filtered by %s, not by `expect == %s.s`' % (sorted(tests), itemv)
        if ok:
            adv = [a for a in comp_nodes if isinstance(a, ast.Assign) and isinstance(a.value, ast.Call) and isinstance(a.value.func, ast.Attribute)
                   and a.value.func.attr == 'advance']
            lists = {norm(a.targets[0]) for a in region if isinstance(a, ast.Assign) and a.value is src} if not isinstance(src, ast.For) else set()
            ok = len(adv) == 1
            why = 'not exactly one advance() in the completer'
            if ok:
                recv = norm(adv[0].value.func.value)
                # the receiver is the loop variable over the originators (directly, or over the local list holding them)
                lp = next((l for l in ancestors(adv[0]) if isinstance(l, ast.For) and norm(l.target) == recv), None)
                ok = lp is not None and (lp is src or norm(lp.iter) in lists or (isinstance(lp.iter, (ast.ListComp, ast.GeneratorExp)) and lp.iter is src))
                why = 'the item advanced (%s) is not an originator' % recv
                if ok:
                    ni = norm(adv[0].targets[0])
                    fam = [c for c in comp_nodes if isinstance(c, ast.Call) and norm(c.func) == '%s.node.add_family' % ni]
                    ok = len(fam) == 1 and len(fam[0].args) >= 5 and norm(fam[0].args[3]) == '%s.node' % recv and norm(fam[0].args[4]) == '%s.node' % itemv \
                        and norm(fam[0].args[0]) == '%s.s' % ni and norm(fam[0].args[1]) == '%s.rule' % ni
                    why = 'the family of the advanced item is not (its own symbol and rule, originator.node, item.node)'
    res.ob(site, 'e3: the completer advances every item of column item.start that expects the completed symbol; family = (originator.node, item.node)', ok)
    if not ok:
        res.finding(pc, orig_src[0] if orig_src else comp_if, 'the Earley completer changed (%s): completions no longer reach everything that waited for them' % why,
                    construct='e3:completer')
    # ---- e4: held completions -----------------------------------------------------------------------------------------------------------
    held_store = [a for a in comp_nodes if isinstance(a, ast.Assign) and len(a.targets) == 1 and isinstance(a.targets[0], ast.Subscript)
                  and norm(a.targets[0].slice) == '%s.rule.origin' % itemv and norm(a.value) == '%s.node' % itemv]
    ok = len(held_store) == 1
    why = 'no `H[item.rule.origin] = item.node`'
    held = None
    if ok:
        held = norm(held_store[0].targets[0].value)
        want = _pe('%s.start == %s' % (itemv, ipar))
        conds = [(t, pol) for t, pol in path_conditions(held_store[0])]
        ok = any(bool_relation(t, want) == 'same' and pol or bool_relation(t, want) == 'negated' and not pol for t, pol in conds)
        if not ok:
            # through a local flag (is_empty_item = item.start == i)
            flags = {a.targets[0].id for a in comp_nodes if isinstance(a, ast.Assign) and isinstance(a.targets[0], ast.Name) and bool_relation(a.value, want) == 'same'}
            ok = any(norm(t) in flags and pol for t, pol in conds)
        why = 'the completion is remembered under %s, not exactly when item.start == %s' % ([('' if p_ else 'not ') + norm(t) for t, p_ in conds][-2:], ipar)
        if ok:
            init = [a for a in pc.node.body if isinstance(a, ast.Assign) and norm(a.targets[0]) == held and isinstance(a.value, ast.Dict) and not a.value.keys]
            ok = len(init) == 1
            why = 'the held completions are not reset at the start of every predict_and_complete'
    res.ob(site, 'e4: a completion that starts and ends at i is remembered under its origin (held completions, fresh per call)', ok)
    if not ok:
        res.finding(pc, held_store[0] if held_store else comp_if, 'held completions (nullable symbols): %s -- an item that needs a nullable symbol predicted '
                    'after that symbol completed is never advanced' % why, construct='e4:held-store')
    ok = False
    why = 'the predictor does not consult the held completions'
    if held is not None:
        uses = [i_ for i_ in pred_nodes if isinstance(i_, ast.If) and bool_relation(i_.test, _pe('%s.expect in %s' % (itemv, held))) == 'same']
        if len(uses) == 1:
            u = uses[0]
            un = [n for s_ in u.body for n in ast.walk(s_)]
            adv = [a for a in un if isinstance(a, ast.Assign) and isinstance(a.value, ast.Call) and norm(a.value.func) == '%s.advance' % itemv]
            why = 'the item itself is not advanced over the held symbol'
            if len(adv) == 1:
                ni = norm(adv[0].targets[0])
                fam = [c for c in un if isinstance(c, ast.Call) and norm(c.func) == '%s.node.add_family' % ni]
                okf = len(fam) == 1 and len(fam[0].args) >= 5 and norm(fam[0].args[3]) == '%s.node' % itemv and norm(fam[0].args[4]) == '%s[%s.expect]' % (held, itemv)
                # routed: a routing site for it inside this block, or appended to a list the predictor's routing loop runs over
                here = [r_ for r_ in routes if r_.item == ni and any(r_.node is x for x in un)]
                lists_ = {norm(c.func.value) for c in un if isinstance(c, ast.Call) and isinstance(c.func, ast.Attribute) and c.func.attr == 'append'
                          and c.args and norm(c.args[0]) == ni}
                via = any(isinstance(l, ast.For) and norm(l.iter) in lists_ and any(r_.item == norm(l.target) and any(r_.node is x for x in ast.walk(l)) for r_ in routes)
                          for l in pred_nodes)
                routed_ = bool(here) or via
                ok = okf and routed_
                why = 'family (item.node, held node)=%s, routed=%s' % (okf, routed_)
    res.ob(site, 'e4: the predictor advances an item over a symbol with a held completion, with that node as the child, and routes the result', ok)
    if not ok:
        res.finding(pc, pred, 'held completions (nullable symbols): %s' % why, construct='e4:held-use')
    # ---- e5: predictor ---------------------------------------------------------------------------------------------------------------------
    mk = [c for c in pred_nodes if isinstance(c, ast.Call) and norm(c.func) == 'Item' and len(c.args) == 3]
    ok = len(mk) == 1
    why = 'no Item(rule, 0, i)'
    if ok:
        c = mk[0]
        lp = next((l for l in ancestors(c) if isinstance(l, (ast.For, ast.comprehension))), None)
        if lp is None:
            comp_ = next((x for x in ancestors(c) if isinstance(x, (ast.ListComp, ast.GeneratorExp))), None)
            it_, tv = (norm(comp_.generators[0].iter), norm(comp_.generators[0].target)) if comp_ is not None else ('', '')
        else:
            it_, tv = norm(lp.iter), norm(lp.target)
        ok = it_ == 'self.predictions[%s.expect]' % itemv and norm(c.args[0]) == tv and norm(c.args[1]) == '0' and norm(c.args[2]) == ipar
        why = 'predicted items are %s for %s in %s' % (norm(c), tv, it_)
    res.ob(site, 'e5: the predictor makes Item(rule, 0, i) for every rule of predictions[item.expect]', ok)
    if not ok:
        res.finding(pc, mk[0] if mk else pred, 'the Earley predictor changed (%s)' % why, construct='e5:predictor')
    _scanners(repo, res)
    _main_and_accept(repo, res)
    _closure(repo, res)
    return res


def _where(node: ast.AST, f: FuncInfo) -> str:
    """which part of predict_and_complete a routing site belongs to (stable under line shifts)"""
    chain = []
    for a in ancestors(node):
        if isinstance(a, ast.If):
            t = norm(a.test)
            if 'is_complete' in t:
                chain.append('completer' if any(node is x for s_ in a.body for x in ast.walk(s_)) else 'predictor')
            elif 'transitives' in t:
                chain.append('leo' if any(node is x for s_ in a.body for x in ast.walk(s_)) else 'regular')
    return '-'.join(reversed(chain)) or 'top'


def _scanners(repo: Repo, res: RuleResult):
    for fq, token_scanner in ((EA + '_parse.scan', True), (XE + '_parse.scan', False)):
        f = repo.func(fq)
        site = '%s %s' % (f.loc(), f.qual)
        alias = _aliases(f)
        routes = _routes(f, alias)
        # local buffers created in the function
        made_sets = [norm(a.targets[0]) for a in f.body_nodes() if isinstance(a, ast.Assign) and len(a.targets) == 1 and isinstance(a.targets[0], ast.Name)
                     and isinstance(a.value, ast.Call) and norm(a.value.func).endswith('.Set') and not a.value.args]
        appended = [norm(c.args[0]) for c in f.body_nodes() if isinstance(c, ast.Call) and isinstance(c.func, ast.Attribute) and c.func.attr == 'append' and c.args
                    and norm(c.args[0]) in made_sets and isinstance(c.func.value, ast.Name)]
        ok = len(appended) == 1 and appended[0] in made_sets
        next_set = appended[0] if ok else None
        res.ob(site, 'e6: one fresh Earley set is appended to the columns per step', ok)
        if not ok:
            res.finding(f, f.node, 'the scanner does not append exactly one fresh set to `columns` per step (appended: %s)' % appended, construct='e6:next-set')
            continue
        rets = [r for r in f.body_nodes() if isinstance(r, ast.Return) and r.value is not None]
        ret_names = {norm(e) for r in rets for e in (r.value.elts if isinstance(r.value, ast.Tuple) else [r.value])}
        okroute = len(routes) >= 1
        for r in routes:
            probs = list(r.problems)
            if r.term_dest is not None and not (r.term_dest in made_sets and r.term_dest != next_set and r.term_dest in ret_names):
                probs.append('items expecting a terminal go to %s, which is not the fresh scan buffer this step returns' % r.term_dest)
            if r.set_dest is not None and r.set_dest != next_set:
                probs.append('items expecting a non-terminal go to %s, not to the set appended to the columns (%s)' % (r.set_dest, next_set))
            ok = not probs
            res.ob('%s %s' % (f.loc(r.node), f.qual), 'e6: `%s` is routed: terminal -> next scan buffer, else -> the next Earley set' % r.item, ok)
            if not ok:
                okroute = False
                res.finding(f, r.node, 'routing of `%s` in the scanner: %s' % (r.item, '; '.join(probs)), construct='e6:route')
        if not routes:
            res.ob(site, 'e6: the scanner routes the advanced items', False)
            res.finding(f, f.node, 'the scanner no longer routes advanced items by `expect in TERMINALS`', construct='e6:route')
        # every item of the scan buffer is offered the input
        buf = f.positional_names()[-1]
        offers = [c for c in f.body_nodes() if isinstance(c, ast.Call) and norm(c.func) == 'match' and c.args and norm(c.args[0]).endswith('.expect')]
        ok = False
        why = 'no match(item.expect, ...) over the scan buffer'
        for c in offers:
            iv = norm(c.args[0])[:-len('.expect')]
            lp = next((l for l in ancestors(c) if isinstance(l, ast.For) and norm(l.target) == iv), None)
            if lp is not None and norm(lp.iter) in (buf, 'self.Set(%s)' % buf, 'list(%s)' % buf, 'set(%s)' % buf):
                # not under any other condition
                conds = [t for t, _p in path_conditions(enclosing_stmt(c)) if any(lp is a for a in ancestors(t))]
                ok = not conds
                why = 'the match is attempted only under %s' % [norm(t) for t in conds]
                if ok and token_scanner:
                    # the advanced item's node ends at i + 1
                    adv = [a for a in ast.walk(lp) if isinstance(a, ast.Assign) and isinstance(a.value, ast.Call) and norm(a.value.func) == '%s.advance' % iv]
                    ok = len(adv) == 1 and runs_only_if(adv[0], c)
                    why = 'the item is not advanced exactly when the terminal matched'
                    if ok:
                        ipar = f.positional_names()[0]
                        labs = [a for a in ast.walk(lp) if isinstance(a, ast.Assign) and isinstance(a.value, ast.Tuple) and len(a.value.elts) == 3
                                and norm(a.targets[0]) == 'label']
                        ok = len(labs) == 1 and linear(labs[0].value.elts[2]) == linear(_pe('%s + 1' % ipar))
                        why = 'the node of the advanced item does not end at %s + 1' % ipar
        res.ob(site, 'e6: every item of the scan buffer is offered the input at this position; a match advances it', ok)
        if not ok:
            res.finding(f, f.node, 'the scanner changed (%s)' % why, construct='e6:offer')


def _main_and_accept(repo: Repo, res: RuleResult):
    for fq in (EA + '_parse', XE + '_parse'):
        f = repo.func(fq)
        site = '%s %s' % (f.loc(), f.qual)
        loops = [l for l in f.node.body if isinstance(l, ast.For)]
        ok = len(loops) == 1
        why = 'not one loop over the input'
        if ok:
            lp = loops[0]
            body = lp.body
            pcs = [k for k, s_ in enumerate(body) if isinstance(s_, ast.Expr) and isinstance(s_.value, ast.Call) and norm(s_.value.func).endswith('.predict_and_complete')]
            scs = [k for k, s_ in enumerate(body) if isinstance(s_, ast.Assign) and isinstance(s_.value, ast.Call) and norm(s_.value.func) == 'scan']
            incs = [k for k, s_ in enumerate(body) if isinstance(s_, ast.AugAssign) and isinstance(s_.op, ast.Add) and norm(s_.value) == '1' and isinstance(s_.target, ast.Name)]
            ok = len(pcs) == 1 and len(scs) == 1 and len(incs) >= 1 and pcs[0] < scs[0]
            why = 'predict_and_complete before scan in every step: %s' % ((pcs, scs),)
            if ok:
                pos = norm(body[pcs[0]].value.args[0])
                inc = [k for k in incs if norm(body[k].target) == pos]
                ok = len(inc) == 1 and inc[0] > scs[0] and norm(body[scs[0]].value.args[0]) == pos
                why = 'the position `%s` handed to predict_and_complete and scan does not advance by one after the scan' % pos
                if ok:
                    # the scan result becomes the scan buffer of the next step
                    tgt = body[scs[0]].targets[0]
                    first = norm(tgt.elts[0]) if isinstance(tgt, ast.Tuple) else norm(tgt)
                    bufarg = norm(body[pcs[0]].value.args[1])
                    ok = first == bufarg and norm(body[scs[0]].value.args[-1]) == bufarg
                    why = 'the scan buffer returned by scan (%s) is not the one handed to the next step (%s)' % (first, bufarg)
                if ok:
                    after = f.node.body[f.node.body.index(lp) + 1:]
                    fin = [s_ for s_ in after if isinstance(s_, ast.Expr) and isinstance(s_.value, ast.Call) and norm(s_.value.func).endswith('.predict_and_complete')
                           and norm(s_.value.args[0]) == pos]
                    ok = len(fin) == 1
                    why = 'no final predict_and_complete(%s, ...) after the last token' % pos
        res.ob(site, 'e7: predict_and_complete(i) then scan(i), i += 1 per step, and a final predict_and_complete', ok)
        if not ok:
            res.finding(f, loops[0] if loops else f.node, 'the main Earley loop changed (%s)' % why, construct='e7:main-loop')
    # ---- e8 ---------------------------------------------------------------------------------------------------------------------------------
    p = repo.func(EA + 'parse')
    site = '%s %s' % (p.loc(), p.qual)
    alias = _aliases(p)
    pcall = [a for a in p.body_nodes() if isinstance(a, ast.Call) and norm(a.func).endswith('._parse') and len(a.args) >= 4]
    if len(pcall) != 1 or not all(isinstance(a, ast.Name) for a in pcall[0].args[1:4]):
        raise AnalysisError('R-EARLEY-PROTOCOL: parse: cannot find the call self._parse(lexer, <columns>, <scan buffer>, <start symbol>)')
    COLS, BUF, START = (a.id for a in pcall[0].args[1:4])
    mk = [c for c in p.body_nodes() if isinstance(c, ast.Call) and norm(c.func) == 'Item' and len(c.args) == 3]
    ok = len(mk) == 1 and norm(mk[0].args[1]) == '0' and norm(mk[0].args[2]) == '0'
    why = 'no Item(rule, 0, 0)'
    if ok:
        lp = next((l for l in ancestors(mk[0]) if isinstance(l, ast.For)), None)
        ok = lp is not None and norm(lp.iter) == 'self.predictions[%s]' % START and norm(mk[0].args[0]) == norm(lp.target)
        why = 'the initial items are not made for every rule of predictions[%s]' % START
        if ok:
            routes = _routes(p, alias)
            ok = len(routes) == 1 and not routes[0].problems and routes[0].set_dest == '%s[0]' % COLS and routes[0].term_dest is not None
            why = 'the initial items are not routed: terminal -> scan buffer, else -> %s[0] (%s)' % (COLS, routes[0].problems if routes else 'no routing')
            if ok:
                call = [a for a in p.body_nodes() if isinstance(a, ast.Call) and norm(a.func).endswith('._parse')]
                ok = len(call) == 1 and len(call[0].args) >= 3 and norm(call[0].args[2]) == routes[0].term_dest and norm(call[0].args[1]) == COLS
                why = 'the scan buffer / columns filled here are not the ones handed to _parse'
    res.ob(site, 'e8: every rule of the start symbol gives Item(rule, 0, 0), routed to the scan buffer or column 0', ok)
    if not ok:
        res.finding(p, mk[0] if mk else p.node, 'the initial prediction changed (%s)' % why, construct='e8:start')
    sols = [a for a in p.body_nodes() if isinstance(a, ast.Assign) and any(isinstance(x, (ast.GeneratorExp, ast.ListComp)) and norm(x.generators[0].iter) == '%s[-1]' % COLS
                                                                               for x in ast.walk(a.value))]
    ok = len(sols) == 1
    why = 'the solutions are not read from the last column'
    if ok:
        g = next(x for x in ast.walk(sols[0].value) if isinstance(x, (ast.GeneratorExp, ast.ListComp)) and norm(x.generators[0].iter) == '%s[-1]' % COLS)
        v = norm(g.generators[0].target)
        tests = set()
        for i_ in g.generators[0].ifs:
            tests |= {_sym(t) for t in (i_.values if isinstance(i_, ast.BoolOp) and isinstance(i_.op, ast.And) else [i_])}
        need = {_sym(_pe(x)) for x in ('%s.is_complete' % v, '%s.node is not None' % v, '%s.s == %s' % (v, START), '%s.start == 0' % v)}
        ok = tests == need and norm(g.elt) == '%s.node' % v
        why = 'a solution is an item with %s (expected exactly %s)' % (sorted(tests), sorted(need))
    res.ob(site, 'e8: the parse succeeds iff the last column holds a complete start-symbol item that starts at 0 (and has a node)', ok)
    if not ok:
        res.finding(p, sols[0] if sols else p.node, 'the acceptance test changed (%s): partial matches, or matches of another symbol, are accepted -- or '
                    'complete parses refused' % why, construct='e8:accept')


def _closure(repo: Repo, res: RuleResult):
    er = repo.func(GA + 'GrammarAnalyzer.expand_rule')
    site = '%s %s' % (er.loc(), er.qual)
    gens = [g_ for g_ in er.nested.values() if any(isinstance(y, ast.Yield) for y in ast.walk(g_.node))]
    inner = gens[0] if len(gens) == 1 else None
    if inner is None:
        raise AnalysisError('R-EARLEY-PROTOCOL: expand_rule: cannot find the local generator that enumerates the closure (%d candidates)' % len(gens))
    ok = True
    why = ''
    if ok:
        rp = inner.positional_names()[0]
        lp = [l for l in inner.node.body if isinstance(l, ast.For)]
        ok = len(lp) == 1 and norm(lp[0].iter).endswith('[%s]' % rp)
        why = 'the rules of the non-terminal are not enumerated from rules_by_origin[%s]' % rp
        if ok:
            rv = norm(lp[0].target)
            ptr = [a for a in lp[0].body if isinstance(a, ast.Assign) and isinstance(a.value, ast.Call) and norm(a.value.func) == 'RulePtr'
                   and [norm(x) for x in a.value.args] == [rv, '0']]
            adds = [c for c in ast.walk(lp[0]) if isinstance(c, ast.Call) and isinstance(c.func, ast.Attribute) and c.func.attr == 'add']
            ok = len(ptr) == 1 and len(adds) == 1 and norm(adds[0].args[0]) == norm(ptr[0].targets[0]) and not path_conditions(enclosing_stmt(adds[0]))[len(path_conditions(lp[0])):]
            why = 'not every rule contributes RulePtr(rule, 0) unconditionally'
            if ok:
                pv = norm(ptr[0].targets[0])
                ys = [y for y in ast.walk(lp[0]) if isinstance(y, ast.Yield)]
                loc1 = {a.targets[0].id: norm(a.value) for a in ast.walk(lp[0]) if isinstance(a, ast.Assign) and len(a.targets) == 1 and isinstance(a.targets[0], ast.Name)}
                ok = len(ys) == 1 and loc1.get(norm(ys[0].value), norm(ys[0].value)) == '%s.next' % pv
                why = 'the closure does not continue with the first symbol of the rule'
                if ok:
                    conds = path_conditions(enclosing_stmt(ys[0]))[len(path_conditions(lp[0])):]
                    parts = []
                    for t, pol in conds:
                        tx = norm(t)
                        for k_, v2 in loc1.items():
                            if k_ != pv:
                                tx = __import__('re').sub(r'\b%s\b' % k_, '(%s)' % v2, tx)
                        parts.append('(%s)' % tx if pol else '(not (%s))' % tx)
                    conj = ' and '.join(parts) or 'True'
                    want = '%s.expansion and not %s.next.is_term' % (rv, pv)
                    ok = bool_relation(_pe(conj), _pe(want)) == 'same'
                    why = 'the closure continues under %s (expected: %s)' % (conj, want)
        if ok:
            drive = [c for c in er.body_nodes() if isinstance(c, ast.Call) and norm(c.func) == 'bfs' and len(c.args) == 2 and norm(c.args[1]) == inner.name]
            src = er.positional_names()[0]
            ok = len(drive) == 1 and isinstance(drive[0].args[0], ast.List) and [norm(x) for x in drive[0].args[0].elts] == [src]
            why = 'the closure is not driven by bfs([%s], _expand_rule)' % src
    res.ob(site, 'e9: expand_rule reaches RulePtr(r, 0) for every rule of every non-terminal at the start of a reached rule', ok)
    if not ok:
        res.finding(er, er.node, 'the prediction closure changed (%s): some rules are never predicted' % why, construct='e9:closure')
    cs = repo.func(GA + 'calculate_sets')
    site = '%s %s' % (cs.loc(), cs.qual)
    ups = [c for c in cs.body_nodes() if isinstance(c, ast.Call) and norm(c.func) == 'update_set' and len(c.args) == 2 and isinstance(c.args[0], ast.Name)
           and isinstance(c.args[1], ast.Set) and len(c.args[1].elts) == 1 and norm(c.args[1].elts[0]).endswith('.origin')]
    NUL = norm(ups[0].args[0]) if ups else 'NULLABLE'
    ok = len(ups) == 1
    why = 'NULLABLE is not grown in one place'
    if ok:
        u = ups[0]
        lp = next((l for l in ancestors(u) if isinstance(l, ast.For)), None)
        wl = next((w for w in ancestors(u) if isinstance(w, ast.While)), None)
        rv = norm(lp.target) if lp is not None else '?'
        arg_ok = isinstance(u.args[1], ast.Set) and [norm(e) for e in u.args[1].elts] == ['%s.origin' % rv]
        st = enclosing_stmt(u)
        test = st.test if isinstance(st, ast.If) else None
        conj = [norm(v) for v in (test.values if isinstance(test, ast.BoolOp) and isinstance(test.op, ast.And) else [test])] if test is not None else []
        conds = {norm(t) for t, pol in path_conditions(st) if pol} | set(conj)
        sub_ok = 'set(%s.expansion) <= %s' % (rv, NUL) in conds or '%s >= set(%s.expansion)' % (NUL, rv) in conds
        flag = norm(wl.test) if wl is not None else None
        sets_flag = isinstance(st, ast.If) and any(isinstance(a, ast.Assign) and norm(a.targets[0]) == flag and norm(a.value) == 'True' for a in st.body)
        reset = wl is not None and any(isinstance(a, ast.Assign) and norm(a.targets[0]) == flag and norm(a.value) == 'False' for a in wl.body)
        ok = lp is not None and wl is not None and arg_ok and sub_ok and sets_flag and reset and norm(lp.iter) == cs.positional_names()[0]
        why = 'origin added=%s, when all symbols nullable=%s, repeated until no change=%s' % (arg_ok, sub_ok, sets_flag and reset)
    res.ob(site, 'e9: NULLABLE grows by the origin of every rule whose expansion is all nullable, until nothing changes', ok, props=['C01', 'C02', 'C09'])
    if not ok:
        res.finding(cs, ups[0] if ups else cs.node, 'the NULLABLE computation changed (%s)' % why, construct='e9:nullable', props=['C01', 'C02', 'C09'])
