"""Transformer rules [C16 C03].

R-XFORM-PARITY  the traversals (Transformer, _NonRecursive, _InPlace, _InPlaceRecursive) and the embedded
                path implement the same dispatch features: Tree -> _call_userfunc, Token ->
                _call_userfunc_token under the __visit_tokens__ guard, Discard filtered, children first.
R-NODE-NAME     the expression naming a node from a rule is the same at all its sites.
"""
from __future__ import annotations

import ast
from typing import Dict, List, Optional, Set, Tuple

from ..model import Repo, ClassInfo, FuncInfo, AnalysisError, norm, parent, ancestors, enclosing_stmt, const_str
from ..report import Ctx, RuleResult
from ..exprs import has_pat, find_pat

V = 'lark.visitors:'


def _features(f: FuncInfo) -> Dict[str, object]:
    """Dispatch features implemented by a traversal body."""
    sn = f.self_name()
    feats: Dict[str, object] = {'tree_call': False, 'tree_guard': False, 'tok_call': False, 'tok_guard_visit': False,
                                'tok_guard_isinstance': False, 'discard_filter': 0, 'calls': 0}
    for n in f.body_nodes():
        if isinstance(n, ast.Call) and isinstance(n.func, ast.Attribute) and isinstance(n.func.value, ast.Name) and n.func.value.id == sn:
            if n.func.attr in ('_call_userfunc', '_transform_tree'):
                feats['tree_call'] = True
                feats['calls'] += 1
                for a in ancestors(n):
                    if isinstance(a, ast.If) and 'isinstance' in norm(a.test) and 'Tree' in norm(a.test):
                        feats['tree_guard'] = True
            if n.func.attr == '_call_userfunc_token':
                feats['tok_call'] = True
                feats['calls'] += 1
                p = n
                for a in ancestors(n):
                    if isinstance(a, ast.If) and p in a.body:
                        t = norm(a.test)
                        if '__visit_tokens__' in t and isinstance(a.test, ast.BoolOp) and isinstance(a.test.op, ast.And):
                            feats['tok_guard_visit'] = True
                        if 'isinstance' in t and 'Token' in t:
                            feats['tok_guard_isinstance'] = True
                    p = a
        if isinstance(n, ast.Compare) and len(n.ops) == 1 and isinstance(n.ops[0], ast.IsNot) and norm(n.comparators[0]) == 'Discard':
            feats['discard_filter'] += 1
    return feats


def run_parity(ctx: Ctx) -> RuleResult:
    repo = ctx.repo
    res = RuleResult('R-XFORM-PARITY', 'the four traversals and the embedded path agree on dispatch, token guard, Discard filtering, order')
    T = repo.cls(V + 'Transformer')
    base_children = T.methods.get('_transform_children')
    if base_children is None:
        raise AnalysisError('Transformer._transform_children not found (anchor vanished)')
    ref = _features(base_children)
    site = '%s %s' % (base_children.loc(), base_children.qual)
    for k_, want in (('tree_call', True), ('tree_guard', True), ('tok_call', True), ('tok_guard_visit', True),
                     ('tok_guard_isinstance', True)):
        ok = ref[k_] == want
        res.ob(site, 'reference traversal implements %s' % k_, ok)
        if not ok:
            res.finding(base_children, base_children.node, 'Transformer._transform_children lacks feature %s' % k_, construct='ref:' + k_)
    ok = ref['discard_filter'] >= 1
    res.ob(site, 'reference traversal filters Discard results', ok)
    if not ok:
        res.finding(base_children, base_children.node, 'Transformer._transform_children does not filter Discard', construct='ref:discard')
    # one filter must cover both branches: it follows the if/elif/else that computes `res`
    # siblings
    sib = {
        'Transformer_NonRecursive': 'transform',
    }
    nr = repo.cls(V + 'Transformer_NonRecursive').methods.get('transform')
    if nr is None:
        raise AnalysisError('Transformer_NonRecursive.transform not found')
    fe = _features(nr)
    s2 = '%s %s' % (nr.loc(), nr.qual)
    for k_ in ('tree_call', 'tree_guard', 'tok_call', 'tok_guard_visit', 'tok_guard_isinstance'):
        ok = fe[k_] == ref[k_]
        res.ob(s2, 'non-recursive traversal agrees with the reference on %s' % k_, ok)
        if not ok:
            res.finding(nr, nr.node, 'Transformer_NonRecursive.transform differs from Transformer on %s (reference %s, here %s)'
                        % (k_, ref[k_], fe[k_]), construct='nonrec:' + k_)
    # the reference traversal: a child is EITHER a tree (transformed) OR a token (terminal callback) -- the result of a rule callback is not
    # looked at again (a Token returned by a rule callback must not be fed to the terminal callback)
    from ..exprs import path_conditions as _pcx
    tokc = [c for c in base_children.body_nodes() if isinstance(c, ast.Call) and norm(c.func).endswith('._call_userfunc_token')]
    if len(tokc) == 1:
        cv_ = norm(tokc[0].args[0]) if tokc[0].args else '?'
        excl = any(norm(t) == 'isinstance(%s, Tree)' % cv_ and not pol for t, pol in _pcx(enclosing_stmt(tokc[0])))
        rebinds = [a for a in base_children.body_nodes() if isinstance(a, ast.Assign) and len(a.targets) == 1 and norm(a.targets[0]) == cv_]
        okx = excl and not rebinds
        res.ob('%s %s' % (base_children.loc(), base_children.qual), 'a child is transformed as a tree or as a token, never both (the loop variable is not rebound)', okx)
        if not okx:
            res.finding(base_children, tokc[0], 'Transformer._transform_children applies the terminal callback also to what a rule callback returned (%s): a Token '
                        'returned by a rule callback is transformed a second time' % ('the token test is not the alternative of the tree test' if not excl else
                                                                                      'the loop variable is rebound to the result'), construct='ref:exclusive')
    # stack discipline: a node takes `len(children)` entries from the stack, so every element of the postfix order must leave exactly
    # one entry -- on every path through one round of the loop -- and what a callback discarded is dropped where the entries are taken
    loops = [n for n in nr.body_nodes() if isinstance(n, ast.For) and norm(n.iter).startswith('reversed(')]
    ok_bal, ok_take, ok_root = False, False, False
    why = 'postfix loop not found'
    if loops:
        lp = loops[0]
        takes = [n for n in ast.walk(lp) if isinstance(n, ast.Subscript) and isinstance(n.slice, ast.Slice) and n.slice.lower is not None
                 and isinstance(n.slice.lower, ast.UnaryOp) and isinstance(n.slice.lower.op, ast.USub) and isinstance(n.ctx, ast.Load)]
        stack_names = {norm(t.value) for t in takes}
        if len(stack_names) == 1:
            stk = next(iter(stack_names))

            def pushes(stmts) -> Set[int]:
                counts = {0}
                for st in stmts:
                    if isinstance(st, ast.If):
                        here = pushes(st.body) | pushes(st.orelse)
                    elif isinstance(st, (ast.For, ast.While, ast.Try, ast.With)):
                        here = {0, 2} if any(isinstance(c, ast.Call) and norm(c.func) == stk + '.append' for c in ast.walk(st)) else {0}
                    else:
                        here = {sum(1 for c in ast.walk(st) if isinstance(c, ast.Call) and norm(c.func) == stk + '.append')}
                    counts = {a + b for a in counts for b in here}
                return counts
            cs = pushes(lp.body)
            ok_bal = cs == {1}
            why = 'a round of the loop leaves %s entries' % sorted(cs)
            # the entries a node takes are filtered
            for t in takes:
                p_ = parent(t)
                if isinstance(p_, ast.comprehension) and len(p_.ifs) == 1 and isinstance(p_.ifs[0], ast.Compare) and len(p_.ifs[0].ops) == 1 \
                        and isinstance(p_.ifs[0].ops[0], ast.IsNot) and norm(p_.ifs[0].comparators[0]) == 'Discard' and norm(p_.ifs[0].left) == norm(p_.target):
                    ok_take = True
            # a discarded root gives None, as in Transformer.transform
            ok_root = any(isinstance(n, ast.If) and any(isinstance(c, ast.Compare) and len(c.ops) == 1 and isinstance(c.ops[0], ast.Is)
                                                        and norm(c.comparators[0]) == 'Discard' for c in ast.walk(n.test))
                          and any(isinstance(r, ast.Return) and (r.value is None or (isinstance(r.value, ast.Constant) and r.value.value is None))
                                  for r in n.body) for n in nr.body_nodes())
        else:
            why = 'cannot tell which list is the value stack (%s)' % sorted(stack_names)
    res.ob(s2, 'non-recursive traversal: every element of the postfix order leaves exactly one stack entry (a node takes len(children) entries)', ok_bal)
    if not ok_bal:
        res.finding(nr, nr.node, 'Transformer_NonRecursive.transform: %s, but a node takes as many entries as it has children: when a callback '
                    'returns Discard the parent takes a value that belongs to an earlier sibling subtree (results differ from Transformer)' % why,
                    construct='nonrec:stack-balance')
    ok = ok_take and ok_root
    res.ob(s2, 'non-recursive traversal drops discarded results where a node takes its arguments, and a discarded root gives None', ok or not ok_bal)
    if ok_bal and not ok:
        res.finding(nr, nr.node, 'Transformer_NonRecursive.transform no longer drops Discard %s'
                    % ('-- and nothing else -- from the arguments a node takes off the stack' if not ok_take else 'at the root (Transformer returns None there)'),
                    construct='nonrec:discard')
    # children before parents: postfix evaluation over reversed(rev_postfix)
    ok = any(isinstance(n, ast.For) and norm(n.iter).startswith('reversed(') for n in nr.body_nodes())
    res.ob(s2, 'non-recursive traversal evaluates in postfix order (children before parents)', ok)
    if not ok:
        res.finding(nr, nr.node, 'the non-recursive traversal does not evaluate the reversed prefix order', construct='nonrec:order')
    # arguments taken from the stack: exactly len(children) results
    ok = any(isinstance(n, ast.Assign) and norm(n.value) == 'len(x.children)' for n in nr.body_nodes()) or \
        any('len(' in norm(n.value) and '.children' in norm(n.value) for n in nr.body_nodes() if isinstance(n, ast.Assign))
    res.ob(s2, 'a node consumes as many results as it has children', ok)
    if not ok:
        res.finding(nr, nr.node, 'the number of stack entries consumed is not the node\'s child count', construct='nonrec:arity')
    # in-place variants reuse the reference children traversal
    for cname, must in (('Transformer_InPlace', ['transform', '_transform_tree']), ('Transformer_InPlaceRecursive', ['_transform_tree'])):
        k = repo.cls(V + cname)
        ok = '_transform_children' not in k.methods and '_call_userfunc' not in k.methods and '_call_userfunc_token' not in k.methods
        res.ob('%s %s' % (k.module.loc(k.node), k.qual), 'reuses the reference child traversal and dispatch (no override)', ok)
        if not ok:
            res.finding(k.qual, k.node, '%s overrides the child traversal / dispatch of Transformer' % cname, construct=cname + ':override',
                        module=k.module)
        for mname in must:
            m = k.methods.get(mname)
            ok = m is not None
            if ok:
                nodes = m.body_nodes()
                if mname == '_transform_tree':
                    calls = find_pat(nodes, 'self._call_userfunc($t)') + find_pat(nodes, 'self._call_userfunc($t, $$c)')
                    ok = bool(calls)
                    if cname == 'Transformer_InPlaceRecursive':
                        asg = find_pat(nodes, '$t.children = list(self._transform_children($t.children))')
                        ok = ok and bool(asg) and asg[0][0].lineno < calls[0][0].lineno and asg[0][1]['t'] == calls[0][1]['t']
                else:
                    loops = find_pat(nodes, 'for $s in $t.iter_subtrees():\n    $s.children = list(self._transform_children($s.children))')
                    ok = bool(loops) and has_pat(nodes, 'return self._transform_tree($t)', {'t': loops[0][1]['t']})
            res.ob('%s %s.%s' % (k.module.loc(k.node), k.qual, mname), 'children are replaced by their transformed values before the '
                                                                       'node itself is dispatched', ok)
            if not ok:
                res.finding(k.qual, (m.node if m else k.node), '%s.%s does not transform the children (through the reference traversal) '
                            'before dispatching the node' % (cname, mname), construct='%s.%s' % (cname, mname), module=k.module)
    # iter_subtrees is bottom-up (children before parents), each node once
    its = repo.func('lark.tree:Tree.iter_subtrees')
    ok = has_pat(its.body_nodes(), 'return reversed(list($d.values()))') and has_pat(its.body_nodes(), 'id($c) not in $d')
    res.ob('%s %s' % (its.loc(), its.qual), 'iter_subtrees yields each node once, children before parents', ok)
    if not ok:
        res.finding(its, its.node, 'iter_subtrees no longer yields every node once in bottom-up order', construct='iter_subtrees')
    # ---- dispatch functions -------------------------------------------------------------------------
    cu = T.methods['_call_userfunc']
    nodes = cu.body_nodes()
    g_ = find_pat(nodes, '$f = getattr(self, $t.data)')
    ok = bool(g_)
    if ok:
        b_ = g_[0][1]
        ok = has_pat(nodes, 'return self.__default__($t.data, $c, $t.meta)', b_) \
            and has_pat(nodes, 'return $f.visit_wrapper($f, $t.data, $c, $t.meta)', b_) and has_pat(nodes, 'return $f($c)', b_)
    res.ob('%s %s' % (cu.loc(), cu.qual), 'rule dispatch: method named tree.data, v_args wrapper, else __default__(data, children, meta)', ok)
    if not ok:
        res.finding(cu, cu.node, 'Transformer._call_userfunc dispatch changed shape', construct='dispatch-tree')
    ct = T.methods['_call_userfunc_token']
    nodes = ct.body_nodes()
    g_ = find_pat(nodes, '$f = getattr(self, $t.type)')
    ok = bool(g_) and has_pat(nodes, 'return self.__default_token__($t)', g_[0][1]) and has_pat(nodes, 'return $f($t)', g_[0][1])
    res.ob('%s %s' % (ct.loc(), ct.qual), 'token dispatch: method named token.type, else __default_token__', ok)
    if not ok:
        res.finding(ct, ct.node, 'Transformer._call_userfunc_token dispatch changed shape', construct='dispatch-token')
    # ---- the embedded path ----------------------------------------------------------------------------
    glc = repo.func('lark.parser_frontends:_get_lexer_callbacks')
    tparam = glc.positional_names()[0] if glc.positional_names() else 'transformer'
    guard = [n for n in glc.body_nodes() if isinstance(n, ast.If) and '__visit_tokens__' in norm(n.test)]
    ok = bool(guard) and has_pat(glc.body_nodes(), 'getattr($tr, $term.name, None)', {'tr': tparam})
    res.ob('%s %s' % (glc.loc(), glc.qual), 'embedded token callbacks: method named like the terminal, only when the transformer visits tokens', ok)
    if not ok:
        res.finding(glc, glc.node, 'the embedded path installs token callbacks without honouring the transformer\'s __visit_tokens__ '
                                   '(post-hoc transform would not call them)', construct='embedded:visit_tokens')
    if guard:
        g0 = guard[0]
        # the guard must skip (return empty / not register) when the flag is false
        t = g0.test
        neg = isinstance(t, ast.UnaryOp) and isinstance(t.op, ast.Not)
        skips = any(isinstance(s, ast.Return) for s in g0.body) if neg else True
        dflt_true = has_pat(list(ast.walk(t)), "getattr($tr, '__visit_tokens__', True)", {'tr': tparam})
        ok = skips and dflt_true
        res.ob('%s %s' % (glc.loc(), glc.qual), 'the guard defaults to visiting tokens (plain objects without the flag) and skips otherwise', ok)
        if not ok:
            res.finding(glc, g0, 'the __visit_tokens__ guard of the embedded path does not default to True / does not skip', construct='embedded:guard')
    # every terminal with a method of its name gets the callback: no other filter in the loop
    lps = [n for n in glc.body_nodes() if isinstance(n, ast.For)]
    ok = len(lps) == 1
    if ok:
        lp = lps[0]
        conts = [x for x in ast.walk(lp) if isinstance(x, (ast.Continue, ast.Break))]
        ifs = [x for x in ast.walk(lp) if isinstance(x, ast.If)]
        tsparam = glc.positional_names()[1] if len(glc.positional_names()) > 1 else 'terminals'
        ok = not conts and len(ifs) == 1 and (has_pat([ifs[0].test], '$cb is not None') or isinstance(ifs[0].test, ast.Name)) \
            and norm(lp.iter) == tsparam
    if not lps:
        # the comprehension form: one generator over the terminals parameter, the walrus test its only filter
        tsparam = glc.positional_names()[1] if len(glc.positional_names()) > 1 else 'terminals'
        dc_ = find_pat(glc.body_nodes(), '{$term.name: $cb for $term in $terms if ($cb := getattr($tr, $term.name, None)) is not None}',
                       {'tr': tparam, 'terms': tsparam})
        ok = len(dc_) == 1
    res.ob('%s %s' % (glc.loc(), glc.qual), 'a token callback is installed for every terminal that has a method of its name (no other filter)', ok)
    if not ok:
        res.finding(glc, glc.node, 'the embedded path filters which terminals get their callback (a post-hoc transform calls the method for '
                                   'every token of that type that is in the tree, e.g. _TERMINALS kept by !rules)', construct='embedded:terminal-filter')
    ft = repo.func('lark.parsers.lalr_parser_state:ParserState.feed_token')
    body = ' '.join(norm(s) for s in ft.body_nodes() if isinstance(s, ast.Expr))
    from ..exprs import match_cond
    ok = bool(match_cond(ft.body_nodes(), '$t.type in $$cb', '$$cb[$t.type]($t)', '$t'))
    res.ob('%s %s' % (ft.loc(), ft.qual), 'on shift, a terminal callback replaces the token iff one is registered for its type', ok)
    if not ok:
        res.finding(ft, ft.node, 'the LALR driver does not apply the terminal callback exactly for registered token types', construct='embedded:shift')
    cc = repo.func('lark.parse_tree_builder:ParseTreeBuilder.create_callback')
    nodes = cc.body_nodes()
    g_ = find_pat(nodes, '$f = getattr($tr, $$name)')
    ok = bool(g_) and has_pat(nodes, "getattr($f, 'visit_wrapper', None)", {'f': g_[0][1]['f']}) \
        and has_pat(nodes, '$f = partial($dc, $$name)', {'f': g_[0][1]['f'], '$$name': g_[0][1]['$$name']})
    res.ob('%s %s' % (cc.loc(), cc.qual), 'embedded rule callbacks: method named like the node, v_args wrapper, else default with the same name', ok)
    if not ok:
        res.finding(cc, cc.node, 'create_callback no longer looks up the user method by the node name / falls back to the default with it',
                    construct='embedded:rule')
    # calling convention of the user callback: the embedded path must hand it what _call_userfunc hands it --
    # f(children) without a wrapper, wrapper(f, <node name>, children, <meta>) with one.  Every adapter that
    # create_callback puts between the looked-up method and the shaping chain is inspected.
    if g_:
        fvar, namevar = g_[0][1]['f'], g_[0][1]['$$name']
        mod = cc.module
        n_adapt = 0
        for asg, b_ in find_pat(nodes, '$f = $g($f, $$rest)', {'f': fvar}) + find_pat(nodes, '$f = $g($f)', {'f': fvar}) \
                + find_pat(nodes, '$f = $g($f, $$r1, $$r2)', {'f': fvar}):
            gname = b_['g']
            gfun = mod.functions.get(gname)
            if gfun is None:
                continue
            n_adapt += 1
            ps = gfun.positional_names()
            bound = {p_: norm(a_) for p_, a_ in zip(ps, asg.value.args)}
            if len(ps) == 1:
                ok, why = _adapter(gfun, 'plain')
            else:
                wp = [p_ for p_ in ps if bound.get(p_) not in (fvar, namevar)]
                np_ = [p_ for p_ in ps if bound.get(p_) == namevar]
                if len(wp) == 1 and len(np_) == 1 and ps and bound.get(ps[0]) == fvar:
                    ok, why = _adapter(gfun, 'wrapper', wp[0], np_[0])
                else:
                    ok, why = False, 'the adapter is not given the method, the name it was looked up by and its v_args wrapper'
            # which transformers the adapter applies to (the classes named by the isinstance guard of its arm)
            guard_classes = _guard_classes(asg)
            res.ob('%s %s' % (gfun.loc(), gfun.qual), 'embedded calling convention equals Transformer._call_userfunc\'s (%s, applies to %s)'
                   % (gname, guard_classes), ok)
            if not ok:
                res.finding(gfun, gfun.node, 'embedded user callbacks adapted by %s (for %s): %s' % (gname, guard_classes, why),
                            construct='embedded:callback-arg' + ('' if guard_classes == 'Transformer_InPlace' else '[%s]' % guard_classes))
        res.require_instances(n_adapt, 1, 'callback adapters in create_callback')
        # precedence: a v_args wrapper decides the calling convention whatever the transformer class is (that is what
        # Transformer._call_userfunc does: wrapper first); the arm applying it is conditioned on the wrapper only
        from ..exprs import path_conditions
        for asg, b_ in find_pat(nodes, '$f = apply_visit_wrapper($f, $$r1, $$r2)', {'f': fvar}):
            conds = path_conditions(asg)
            extra = [norm(t_) for t_, pol_ in conds if 'wrapper' not in norm(t_) and not isinstance(parent(asg), ast.Try)]
            extra = [e_ for e_ in extra if 'visit_wrapper' not in e_]
            ok = not extra
            res.ob('%s %s' % (cc.module.loc(asg), cc.qual), 'the v_args wrapper is applied whenever there is one (conditions: %s)' % [norm(t_) for t_, _p in conds], ok)
            if not ok:
                res.finding(cc, asg, 'the v_args wrapper is only applied when %s: for those transformers a decorated callback is called with '
                            'another convention embedded than by .transform()' % extra, construct='embedded:wrapper-precedence')

    # token callbacks travel from _get_lexer_callbacks to the parser's callback table unadapted
    cbs = find_pat(glc.body_nodes(), '$cb = getattr($tr, $term.name, None)', {'tr': tparam})
    ok = bool(cbs) and has_pat(glc.body_nodes(), '$r[$term.name] = $cb', {'cb': cbs[0][1]['cb'], 'term': cbs[0][1]['term']})
    # (the same as one dict comprehension)
    dcomp = find_pat(glc.body_nodes(), '{$term.name: $cb for $term in $terms if ($cb := getattr($tr, $term.name, None)) is not None}', {'tr': tparam})
    ok = ok or bool(dcomp)
    res.ob('%s %s' % (glc.loc(), glc.qual), 'the registered token callback is the transformer\'s method itself', ok)
    if not ok:
        res.finding(glc, glc.node, 'the token callback registered for a terminal is not the bound method found under its name',
                    construct='embedded:token-callback-value')
    n_flow = 0
    for f in repo.functions.values():
        if f.module.name != 'lark.lark':
            continue
        for c, _b in find_pat(f.body_nodes(), '_get_lexer_callbacks($$a, $$b)'):
            n_flow += 1
            par = parent(c)
            ok, why = False, 'its result does not reach the callback table unchanged'
            if isinstance(par, ast.Call) and unify_ok(par, '$$tbl.update($$c)') and par.args[0] is c:
                ok = True
            else:
                # for name, cb in <call>.items(): tbl[name] = cb | g(cb) with g a transparent adapter
                loop = next((a_ for a_ in ancestors(c) if isinstance(a_, ast.For)), None)
                if loop is not None and isinstance(loop.target, ast.Tuple) and len(loop.target.elts) == 2 \
                        and all(isinstance(e_, ast.Name) for e_ in loop.target.elts) and len(loop.body) == 1:
                    kn, vn = loop.target.elts[0].id, loop.target.elts[1].id
                    st = loop.body[0]
                    m_ = find_pat([st], '$$tbl[$k] = $v', {'k': kn, 'v': vn})
                    if m_:
                        ok = True
                    else:
                        m_ = find_pat([st], '$$tbl[$k] = $g($v)', {'k': kn, 'v': vn})
                        gfun = f.module.functions.get(m_[0][1]['g']) if m_ else None
                        if gfun is not None:
                            ok, why = _adapter(gfun, 'plain')
                            why = 'adapter %s: %s' % (gfun.name, why)
            res.ob('%s %s' % (f.module.loc(c), f.qual), 'embedded token callbacks reach the parser\'s callback table unadapted', ok)
            if not ok:
                res.finding(f, c, 'embedded token callbacks are adapted on their way to the parser: %s (post-hoc transform calls the method '
                            'itself, once per token)' % why, construct='embedded:token-callback-flow')
    res.require_instances(n_flow, 1, 'uses of _get_lexer_callbacks in lark.lark')
    # wrappers applied inner-to-outer in list order; user callback innermost
    ok = has_pat(cc.body_nodes(), 'for $w in $chain:\n    $f = $w($f)')
    res.ob('%s %s' % (cc.loc(), cc.qual), 'the shaping chain wraps the user callback in list order', ok)
    if not ok:
        res.finding(cc, cc.node, 'the shaping wrappers are not applied around the user callback in chain order', construct='embedded:chain')
    return res


def unify_ok(n: ast.AST, src: str) -> bool:
    return bool(find_pat([n], src))


def _guard_classes(stmt: ast.AST) -> str:
    """Class names of the isinstance guard of the if/elif arm holding `stmt` ('*' when unguarded)."""
    p = stmt
    for a in ancestors(stmt):
        if isinstance(a, ast.If) and p in a.body:
            t = a.test
            if isinstance(t, ast.Call) and isinstance(t.func, ast.Name) and t.func.id == 'isinstance' and len(t.args) == 2:
                k = t.args[1]
                names = [norm(e) for e in k.elts] if isinstance(k, ast.Tuple) else [norm(k)]
                return ','.join(sorted(names))
            return norm(t)
        if isinstance(a, (ast.FunctionDef, ast.For, ast.While)):
            break
        p = a
    return '*'


def _adapter(gfun: FuncInfo, kind: str, wparam: Optional[str] = None, nparam: Optional[str] = None) -> Tuple[bool, str]:
    """Is the closure returned by `gfun` transparent?  plain: it calls func(<its own argument>) and returns that;
    wrapper: it returns wparam(func, nparam, <its own argument>, None).  In both cases the adapter's parameters are
    not rebound and the closure keeps no state in captured variables."""
    ps = gfun.positional_names()
    inner = [x for x in gfun.node.body if isinstance(x, ast.FunctionDef)]
    if not (len(inner) == 1 and len(inner[0].args.args) == 1 and ps and not inner[0].args.vararg and not inner[0].args.kwarg):
        return False, 'the adapter is not a one-argument closure'
    cparam = inner[0].args.args[0].arg
    inner_nodes = list(ast.walk(inner[0]))
    for x in ast.walk(gfun.node):
        if isinstance(x, ast.Name) and isinstance(x.ctx, (ast.Store, ast.Del)) and x.id in ps:
            return False, 'the adapter rebinds its parameter %s before the closure uses it' % x.id
        if isinstance(x, (ast.Nonlocal, ast.Global)):
            return False, 'the closure rebinds captured variables (%s)' % norm(x)
    local = {cparam} | {x.id for x in inner_nodes if isinstance(x, ast.Name) and isinstance(x.ctx, ast.Store)}
    for x in inner_nodes:
        if isinstance(x, (ast.Subscript, ast.Attribute)) and isinstance(x.ctx, (ast.Store, ast.Del)):
            base = x
            while isinstance(base, (ast.Subscript, ast.Attribute)):
                base = base.value
            if isinstance(base, ast.Name) and base.id not in local:
                return False, 'the closure keeps state in the captured variable %s (%s): results then depend on earlier calls' % (
                    base.id, norm(x))
        if isinstance(x, ast.Call) and isinstance(x.func, ast.Attribute) and isinstance(x.func.value, ast.Name) \
                and x.func.value.id not in local and x.func.value.id not in ps \
                and x.func.attr in ('append', 'add', 'update', 'setdefault', 'pop', 'extend', 'insert', 'remove', 'clear'):
            return False, 'the closure mutates the captured variable %s' % x.func.value.id
    rets = [x for x in inner_nodes if isinstance(x, ast.Return)]
    if kind == 'plain':
        calls = [x for x in inner_nodes if isinstance(x, ast.Call) and isinstance(x.func, ast.Name) and x.func.id == ps[0]]
        if not calls:
            return False, 'the callback is never called'
        for x in calls:
            if not (len(x.args) == 1 and not x.keywords and norm(x.args[0]) == cparam):
                return False, 'the callback is called with %s, not with the argument that Transformer._call_userfunc passes (the children list)' % (
                    ', '.join(norm(a) for a in x.args) or 'nothing')
        if not (len(rets) == 1 and rets[0].value in calls and len(calls) == 1):
            return False, 'the closure does not return exactly the result of one call of the callback'
        return True, ''
    ok = len(rets) == 1 and has_pat(rets, 'return %s(%s, %s, %s, None)' % (wparam, ps[0], nparam, cparam))
    return ok, '' if ok else ('the v_args wrapper is not called as wrapper(func, <node name>, children, None) with the name create_callback '
                              'looked the method up by')


def _name_parts(e: ast.AST) -> Optional[List[str]]:
    """['alias', 'options.template_source', 'origin.name'] for `<r>.alias or <r>.options.template_source or <r>.origin.name`."""
    if not (isinstance(e, ast.BoolOp) and isinstance(e.op, ast.Or)):
        return None
    texts = [norm(v) for v in e.values]
    # common receiver prefix
    import os
    pre = os.path.commonprefix(texts)
    pre = pre[:pre.rfind('.') + 1] if '.' in pre else ''
    return [t[len(pre):] for t in texts]


def run_node_name(ctx: Ctx) -> RuleResult:
    repo = ctx.repo
    res = RuleResult('R-NODE-NAME', 'the node name derived from a rule is alias or template source or origin name, at every site')
    res.default_props = ['C03', 'C16']
    want = ['alias', 'options.template_source', 'origin.name']
    sites = [('lark.parse_tree_builder:ParseTreeBuilder.create_callback', 'user_callback_name'),
             ('lark.parsers.earley_forest:TreeForestTransformer._call_rule_func', 'name')]
    n = 0
    for fq, var in sites:
        f = repo.func(fq)
        # the (unique) `a or b or c` chain of attribute reads that ends in `.origin.name`
        defs = [x for x in f.body_nodes() if isinstance(x, ast.BoolOp) and isinstance(x.op, ast.Or)
                and any(norm(v).endswith('origin.name') for v in x.values)]
        # (one definition kept in a local, or the same chain written out at each use)
        allparts = [_name_parts(d) for d in defs]
        ok = len(defs) >= 1 and all(p_ == allparts[0] for p_ in allparts)
        parts = allparts[0] if ok else (allparts or None)
        ok = ok and parts == want
        n += 1
        res.ob('%s %s' % (f.loc(), f.qual), 'node name == alias or options.template_source or origin.name (found %s)' % parts, ok)
        if not ok:
            res.finding(f, f.node, 'the node name is computed as %s here, but as %s elsewhere: the same rule gets different node names / '
                        'callback names depending on the engine' % (parts, want), construct='node-name:%s' % parts,
                        props=['C03', 'C16'] + (['C17'] if not (isinstance(parts, list) and 'options.template_source' in parts) else []))
    # the expanded-single-child exception must not apply to aliased alternatives
    ib = repo.func('lark.parse_tree_builder:ParseTreeBuilder._init_builders')
    ok = has_pat(ib.body_nodes(), '($$e and not $r.alias) and ExpandSingleChild') or has_pat(ib.body_nodes(), '$$e and (not $r.alias) and ExpandSingleChild')
    res.ob('%s %s' % (ib.loc(), ib.qual), '?rule inlining is disabled for aliased alternatives', ok)
    if not ok:
        res.finding(ib, ib.node, 'ExpandSingleChild is no longer disabled for aliased alternatives', construct='expand1-alias')
    res.require_instances(n, 2, 'node-name sites')
    return res
