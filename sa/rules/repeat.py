"""R-REPEAT-COUNT [C09]: the count algebra of the repetition compiler.

C09 says `x~n..m` matches exactly n..m occurrences, `x?` 0..1, `x*` 0.., `x+` 1.., in rules and in terminals.  For rules the
operators are *compiled* into helper rules; which counts the compiled rules match is a fact about the shape of the compiler:
every helper tree is built from list arithmetic (`[target] * a + [atom] * b`, comprehensions over `range`) whose count of
occurrences is a polynomial in the parameters.  The rule interprets those functions abstractly:

  value of a tree-building expression  =  the SET OF COUNTS of `atom` its language holds, as an integer interval
                                          [lo, hi] with polynomial end points (hi may be unbounded);
  `ST('expansion', L)`   = sum of the elements of L        (`[x] * k` contributes k * count(x));
  `ST('expansions', L)`  = union of the alternatives; a comprehension over `range` is an indexed family.  The union must
                           TILE an interval: consecutive alternatives meet exactly (end + 1 == next start, as polynomial
                           identities) -- a gap loses counts, an overlap makes the helper rule ambiguous (LALR conflict);
  `t: expr | t expr`     = least fixpoint [c, oo);
  helper calls           = their verified summaries (`_add_repeat_rule` -> a*T + b; `_add_repeat_opt_rule` -> [0, a*T + b - 1]
                           provided target_opt is [0, T - 1]);
  `small_factors(n, _)`  = a list whose fold x -> x*a + b from 1 is n (checked by induction over its own returns:
                           divmod gives n == r*a + b, the recursive call is folded first, a >= 2 makes r < n);
  loops over the factors = the fold, with the invariant  diff_opt_target == [0, diff_target - 1].

Obligations: each function returns the count set its contract states, and `EBNF_to_BNF.expr` / `TerminalTreeToPattern.expr`
hand the user's bounds to them in the right places and reject only invalid bounds.  Nothing is executed and nothing is searched:
polynomial identities are decided by normal form (sa/poly.py).

NOT decided: that the LALR / Earley engines match what the compiled rules denote (C01/C02), regex semantics of `{n,m}`,
inlining of helper nodes (R-PREFIX-PROTOCOL), nullable-terminal caveats."""
from __future__ import annotations

import ast
import itertools
from typing import Dict, List, Optional, Tuple

from ..model import Repo, FuncInfo, AnalysisError, norm, const_str, enclosing_stmt
from ..report import Ctx, RuleResult
from ..poly import Poly
from ..exprs import str_template, path_conditions

LG = 'lark.load_grammar:'
E2B = LG + 'EBNF_to_BNF.'


class CountViolation(Exception):
    def __init__(self, msg: str, node: Optional[ast.AST] = None):
        super().__init__(msg)
        self.msg = msg
        self.node = node


# ---------------------------------------------------------------------------------------------------------------- values
class Int:
    def __init__(self, p):
        self.p = Poly.lift(p)

    def __repr__(self):
        return 'Int(%s)' % self.p


class Cnt:
    """the counts a fragment matches: the integers lo..hi (hi None = unbounded)"""
    def __init__(self, lo, hi):
        self.lo = Poly.lift(lo)
        self.hi = None if hi is None else Poly.lift(hi)

    def exact(self) -> bool:
        return self.hi is not None and self.lo == self.hi

    def same(self, o: 'Cnt') -> bool:
        return self.lo == o.lo and ((self.hi is None) == (o.hi is None)) and (self.hi is None or self.hi == o.hi)

    def subst(self, var, by) -> 'Cnt':
        return Cnt(self.lo.subst(var, by), None if self.hi is None else self.hi.subst(var, by))

    def map(self, f) -> 'Cnt':
        return Cnt(f(self.lo), None if self.hi is None else f(self.hi))

    def __repr__(self):
        if self.exact():
            return '{%s}' % self.lo
        return '[%s .. %s]' % (self.lo, 'oo' if self.hi is None else self.hi)


class Lst:
    def __init__(self, items):
        self.items = items      # ('elem', value) | ('rep', value, Poly) | ('fam', var, lo, hi_inclusive, value)


class Facts:
    """(a slice of) the list small_factors(X, _) returns"""
    def __init__(self, x: Poly, part: str):
        self.x = x
        self.part = part        # 'all' | 'init' (all but the last) | anything else: not a recognised part


class PairLast:
    def __init__(self, x: Poly):
        self.x = x


class Cached:
    pass


class SelfRef:
    def __init__(self, sym: str):
        self.sym = sym


class RecAlt:
    """an alternative that mentions the rule under construction once, plus `rest`"""
    def __init__(self, sym: str, rest: Cnt):
        self.sym = sym
        self.rest = rest


class RecSet:
    def __init__(self, base: Cnt, recs: List[RecAlt]):
        self.base = base
        self.recs = recs


class Str:
    def __init__(self, tmpl: str, args: list):
        self.tmpl = tmpl
        self.args = args

    def flat(self) -> Tuple[str, list]:
        """holes filled with nested templates where the argument is itself a template"""
        out, args = '', []
        pieces = self.tmpl.split('%s')
        for k, p in enumerate(pieces):
            out += p
            if k < len(self.args):
                a = self.args[k]
                if isinstance(a, Str):
                    t, aa = a.flat()
                    out += t
                    args += aa
                else:
                    out += '%s'
                    args.append(a)
        return out, args


class Sym:
    def __init__(self, text: str):
        self.text = text

    def __repr__(self):
        return 'Sym(%s)' % self.text


class Tup:
    def __init__(self, items):
        self.items = items


class ArgSlice:
    def __init__(self, name: str, start: int, stop: Optional[int]):
        self.name, self.start, self.stop = name, start, stop


class MapInt:
    def __init__(self, name: str, start: int):
        self.name, self.start = name, start


def show(v) -> str:
    if isinstance(v, Int):
        return str(v.p)
    if isinstance(v, Str):
        t, a = v.flat()
        return '%r %% %s' % (t, [show(x) for x in a])
    return repr(v)


# ----------------------------------------------------------------------------------------------------------- interpreter
TREE_CTORS = ('ST', 'Tree', 'SlottedTree')


class Interp:
    def __init__(self, repo: Repo, func: FuncInfo, summaries: Dict[str, object]):
        self.repo = repo
        self.f = func
        self.sn = func.self_name() or 'self'
        self.summaries = summaries
        self.fresh = itertools.count()
        self.last_of: Dict[str, Tuple[str, str, Poly]] = {}     # phi symbol -> (alpha_last, beta_last, X)
        self.vararg = func.node.args.vararg.arg if func.node.args.vararg else None

    # ---- expressions -------------------------------------------------------------------------------------------------
    def ev(self, e: ast.AST, env: dict):
        if isinstance(e, ast.Name):
            if e.id in env:
                return env[e.id]
            return Sym(e.id)
        if isinstance(e, ast.Constant):
            if isinstance(e.value, bool):
                return Sym(repr(e.value))
            if isinstance(e.value, int):
                return Int(e.value)
            if isinstance(e.value, str):
                return Str(e.value.replace('%', '%%'), [])
            return Sym(repr(e.value))
        if isinstance(e, ast.UnaryOp) and isinstance(e.op, ast.USub):
            v = self.ev(e.operand, env)
            if isinstance(v, Int):
                return Int(-v.p)
            return Sym(norm(e))
        if isinstance(e, ast.Tuple):
            return Tup([self.ev(x, env) for x in e.elts])
        if isinstance(e, ast.List):
            items = []
            for x in e.elts:
                if isinstance(x, ast.Starred):
                    v = self.ev(x.value, env)
                    if not isinstance(v, Lst):
                        raise AnalysisError('R-REPEAT-COUNT: unpacking of something that is not a list expression: %s' % norm(x)[:100])
                    items += v.items
                else:
                    items.append(('elem', self.ev(x, env)))
            return Lst(items)
        if isinstance(e, ast.ListComp) or isinstance(e, ast.GeneratorExp):
            if len(e.generators) != 1 or e.generators[0].ifs or not isinstance(e.generators[0].target, ast.Name):
                raise AnalysisError('R-REPEAT-COUNT: comprehension shape not understood: %s' % norm(e)[:120])
            g = e.generators[0]
            lo, hi = self.range_bounds(g.iter, env)
            var = '%s#%d' % (g.target.id, next(self.fresh))
            env2 = dict(env)
            env2[g.target.id] = Int(Poly.var(var))
            return Lst([('fam', var, lo, hi, self.ev(e.elt, env2))])
        if isinstance(e, (ast.JoinedStr,)) or (isinstance(e, ast.BinOp) and isinstance(e.op, ast.Mod) and const_str(e.left) is not None) or \
                (isinstance(e, ast.Call) and isinstance(e.func, ast.Attribute) and e.func.attr == 'format' and const_str(e.func.value) is not None):
            t = str_template(e)
            if t is None:
                return Sym(norm(e))
            return Str(t[0], [self.ev(a, env) for a in t[1]])
        if isinstance(e, ast.BinOp):
            l, r = self.ev(e.left, env), self.ev(e.right, env)
            if isinstance(l, Int) and isinstance(r, Int):
                if isinstance(e.op, ast.Add):
                    return Int(l.p + r.p)
                if isinstance(e.op, ast.Sub):
                    return Int(l.p - r.p)
                if isinstance(e.op, ast.Mult):
                    return Int(l.p * r.p)
                if isinstance(e.op, (ast.FloorDiv, ast.Mod)):
                    q, rem = self.quot_rem(l.p, r.p)
                    return Int(q if isinstance(e.op, ast.FloorDiv) else rem)
                return Sym(norm(e))
            if isinstance(e.op, ast.Add) and isinstance(l, Lst) and isinstance(r, Lst):
                return Lst(l.items + r.items)
            if isinstance(e.op, ast.Mult) and ((isinstance(l, Lst) and isinstance(r, Int)) or (isinstance(l, Int) and isinstance(r, Lst))):
                lst, k = (l, r) if isinstance(l, Lst) else (r, l)
                items = []
                for it in lst.items:
                    if it[0] == 'elem':
                        items.append(('rep', it[1], k.p))
                    elif it[0] == 'rep':
                        items.append(('rep', it[1], it[2] * k.p))
                    else:
                        raise AnalysisError('R-REPEAT-COUNT: repetition of a comprehension not understood: %s' % norm(e)[:120])
                return Lst(items)
            if isinstance(e.op, ast.Add) and (isinstance(l, Str) or isinstance(r, Str)):
                t = str_template(e)
                if t is not None:
                    return Str(t[0], [self.ev(a, env) for a in t[1]])
            return Sym(norm(e))
        if isinstance(e, ast.Subscript):
            v = self.ev(e.value, env)
            sl = e.slice
            if isinstance(v, Facts):
                if v.part != 'all':
                    return Facts(v.x, '%s%s' % (v.part, norm(sl)))
                if isinstance(sl, ast.Slice):
                    if sl.lower is None and sl.step is None and sl.upper is not None and norm(sl.upper) == '-1':
                        return Facts(v.x, 'init')
                    return Facts(v.x, '[%s]' % norm(sl))
                if norm(sl) == '-1':
                    return PairLast(v.x)
                return Sym(norm(e))
            if isinstance(e.value, ast.Attribute) and e.value.attr == 'rules_cache':
                return Cached()
            if isinstance(e.value, ast.Name) and e.value.id == self.vararg or (isinstance(v, Sym) and v.text == 'args'):
                nm = e.value.id if isinstance(e.value, ast.Name) else 'args'
                if isinstance(sl, ast.Constant) and isinstance(sl.value, int) and sl.value >= 0:
                    return Sym('%s%d' % (nm, sl.value))
                if isinstance(sl, ast.Slice) and sl.step is None:
                    lo = 0 if sl.lower is None else (sl.lower.value if isinstance(sl.lower, ast.Constant) else None)
                    hi = None if sl.upper is None else (sl.upper.value if isinstance(sl.upper, ast.Constant) else -1)
                    if lo is not None and hi != -1:
                        return ArgSlice(nm, lo, hi)
            return Sym(norm(e))
        if isinstance(e, ast.Attribute):
            v = self.ev(e.value, env)
            if e.attr == 'value' and isinstance(v, Sym):
                return v            # a Token compares like its value
            return Sym(norm(e))
        if isinstance(e, ast.Call):
            return self.ev_call(e, env)
        if isinstance(e, ast.Compare) or isinstance(e, ast.BoolOp):
            return Sym(norm(e))
        return Sym(norm(e))

    def range_bounds(self, it: ast.AST, env: dict) -> Tuple[Poly, Poly]:
        """(first, last) of range(...) with step 1"""
        if not (isinstance(it, ast.Call) and isinstance(it.func, ast.Name) and it.func.id == 'range' and 1 <= len(it.args) <= 2 and not it.keywords):
            raise AnalysisError('R-REPEAT-COUNT: iteration not over range(lo, hi): %s' % norm(it)[:120])
        vs = [self.ev(a, env) for a in it.args]
        if not all(isinstance(v, Int) for v in vs):
            raise AnalysisError('R-REPEAT-COUNT: range bounds not integer expressions: %s' % norm(it)[:120])
        if len(vs) == 1:
            return Poly.const(0), vs[0].p - 1
        return vs[0].p, vs[1].p - 1

    def ev_call(self, e: ast.Call, env: dict):
        fn = e.func
        if isinstance(fn, ast.Name) and fn.id in TREE_CTORS and len(e.args) >= 2 and const_str(e.args[0]) in ('expansion', 'expansions'):
            lst = self.ev(e.args[1], env)
            if not isinstance(lst, Lst):
                raise AnalysisError('R-REPEAT-COUNT: children of %s are not a list expression: %s' % (const_str(e.args[0]), norm(e.args[1])[:120]))
            return self.expansion(lst, e) if const_str(e.args[0]) == 'expansion' else self.expansions(lst, e)
        if isinstance(fn, ast.Attribute) and isinstance(fn.value, ast.Name) and fn.value.id == self.sn and fn.attr in self.summaries:
            return self.summaries[fn.attr](self, e, env)
        if isinstance(fn, ast.Name) and fn.id == 'small_factors' and e.args:
            x = self.ev(e.args[0], env)
            if not isinstance(x, Int):
                raise AnalysisError('R-REPEAT-COUNT: small_factors of a non-integer expression: %s' % norm(e)[:120])
            return Facts(x.p, 'all')
        if isinstance(fn, ast.Name) and fn.id == 'int' and len(e.args) == 1:
            v = self.ev(e.args[0], env)
            if isinstance(v, Int):
                return v
            if isinstance(v, Sym):
                return Int(Poly.var(v.text))
            return Sym(norm(e))
        if isinstance(fn, ast.Name) and fn.id == 'map' and len(e.args) == 2 and norm(e.args[0]) == 'int':
            v = self.ev(e.args[1], env)
            if isinstance(v, ArgSlice) and v.stop is None:
                return MapInt(v.name, v.start)
            if isinstance(e.args[1], ast.Name) and e.args[1].id == self.vararg:
                return MapInt(e.args[1].id, 0)
            return Sym(norm(e))
        if isinstance(fn, ast.Name) and fn.id == 'NonTerminal' and len(e.args) == 1:
            v = self.ev(e.args[0], env)
            if isinstance(v, Sym) and v.text.startswith('@newname'):
                return SelfRef(v.text)
            return Sym(norm(e))
        if isinstance(fn, ast.Attribute) and isinstance(fn.value, ast.Name) and fn.value.id == self.sn and fn.attr == '_name_rule':
            return Sym('@newname%d' % next(self.fresh))
        if isinstance(fn, ast.Name) and fn.id == 'divmod' and len(e.args) == 2:
            a, b = self.ev(e.args[0], env), self.ev(e.args[1], env)
            if isinstance(a, Int) and isinstance(b, Int):
                q, r = self.quot_rem(a.p, b.p)
                return Tup([Int(q), Int(r)])
        return Sym(norm(e))

    relations: list = []

    def quot_rem(self, a: Poly, b: Poly) -> Tuple[Poly, Poly]:
        """symbols for a // b and a % b, with the relation a == (a // b) * b + a % b"""
        key = (str(a), str(b))
        if key not in self.qr:
            k = next(self.fresh)
            q, r = Poly.var('q#%d' % k), Poly.var('r#%d' % k)
            self.qr[key] = (q, r)
            self.relations.append((a, q * b + r, q, b))
        return self.qr[key]

    qr: dict = {}

    def as_cnt(self, v, node) -> Cnt:
        if isinstance(v, Cnt):
            return v
        raise AnalysisError('R-REPEAT-COUNT: %s: not a grammar fragment with a known count: %s' % (self.f.qual, show(v)))

    def expansion(self, lst: Lst, node) -> object:
        lo, hi = Poly.const(0), Poly.const(0)
        selfref = None
        for it in lst.items:
            if it[0] == 'fam':
                raise AnalysisError('R-REPEAT-COUNT: a comprehension inside one expansion is not understood: %s' % norm(node)[:120])
            v = it[1]
            k = Poly.const(1) if it[0] == 'elem' else it[2]
            if isinstance(v, SelfRef):
                if selfref is not None or it[0] != 'elem':
                    raise CountViolation('the recursive alternative mentions the rule under construction more than once', node)
                selfref = v.sym
                continue
            c = self.as_cnt(v, node)
            lo = lo + k * c.lo
            hi = None if (hi is None or c.hi is None) else hi + k * c.hi
        if selfref is not None:
            return RecAlt(selfref, Cnt(lo, hi))
        return Cnt(lo, hi)

    def expansions(self, lst: Lst, node) -> object:
        pieces: List[Tuple[Poly, Optional[Poly]]] = []
        recs: List[RecAlt] = []
        for it in lst.items:
            if it[0] == 'rep':
                raise CountViolation('the same alternative is listed several times (%s)' % show(it[1]), node)
            if it[0] == 'elem':
                v = it[1]
                if isinstance(v, RecAlt):
                    recs.append(v)
                    continue
                c = self.as_cnt(v, node)
                pieces.append((c.lo, c.hi))
            else:
                _k, var, lo, hi, v = it
                c = self.as_cnt(v, node)
                if c.hi is None:
                    raise CountViolation('every alternative of the family is unbounded', node)
                nxt = c.lo.subst(var, Poly.var(var) + 1)
                if c.hi + 1 != nxt:
                    raise CountViolation('consecutive alternatives of the family over `%s` do not meet: alternative k matches %s, alternative k+1 '
                                         'starts at %s (a gap loses counts, an overlap makes the helper rule ambiguous)'
                                         % (var.split('#')[0], c, nxt), node)
                pieces.append((c.lo.subst(var, lo), c.hi.subst(var, hi)))
        if not pieces:
            raise CountViolation('no alternative without recursion', node)
        orders = [pieces, list(reversed(pieces))]
        if all(p[0].is_const() for p in pieces):
            orders.append(sorted(pieces, key=lambda p: p[0].const_value()))
        joined = None
        for od in orders:
            ok = True
            for (s1, e1), (s2, e2) in zip(od, od[1:]):
                if e1 is None or e1 + 1 != s2:
                    ok = False
                    break
            if ok:
                joined = Cnt(od[0][0], od[-1][1])
                break
        if joined is None:
            raise CountViolation('the alternatives do not tile one interval of counts: they match %s'
                                 % ', '.join(str(Cnt(s, e_)) for s, e_ in pieces), node)
        if recs:
            return RecSet(joined, recs)
        return joined

    # ---- statements: path enumeration --------------------------------------------------------------------------------
    def run(self, stmts: List[ast.stmt], env: dict, facts: list, out: list):
        if not stmts:
            out.append(('fall', env, facts, None))
            return
        st, rest = stmts[0], list(stmts[1:])
        if isinstance(st, ast.Return):
            out.append(('return', env, facts, st))
        elif isinstance(st, ast.Raise):
            out.append(('raise', env, facts, st))
        elif isinstance(st, ast.Assert):
            if isinstance(st.test, ast.Constant) and not st.test.value:
                out.append(('raise', env, facts, st))
            else:
                self.run(rest, env, facts + [(st.test, True)], out)
        elif isinstance(st, ast.Assign):
            env = dict(env)
            v = self.ev(st.value, env)
            for t in st.targets:
                self.bind(t, v, env, st)
            self.run(rest, env, facts, out)
        elif isinstance(st, ast.AnnAssign):
            if st.value is not None:
                env = dict(env)
                self.bind(st.target, self.ev(st.value, env), env, st)
            self.run(rest, env, facts, out)
        elif isinstance(st, ast.If):
            self.run(list(st.body) + rest, dict(env), facts + [(st.test, True)], out)
            self.run(list(st.orelse) + rest, dict(env), facts + [(st.test, False)], out)
        elif isinstance(st, ast.Try):
            if st.finalbody or st.orelse:
                raise AnalysisError('R-REPEAT-COUNT: try/else/finally not understood in %s' % self.f.qual)
            self.run(list(st.body) + rest, dict(env), facts, out)
            for h in st.handlers:
                self.run(list(h.body) + rest, dict(env), facts, out)
        elif isinstance(st, ast.For):
            if st.orelse:
                raise AnalysisError('R-REPEAT-COUNT: for/else not understood in %s' % self.f.qual)
            it = self.ev(st.iter, env)
            if isinstance(it, Facts):
                env = self.fold_loop(st, it, dict(env))
                self.run(rest, env, facts, out)
            elif self.appending_loop(st, env) is not None:
                env = self.appending_loop(st, env)
                self.run(rest, env, facts, out)
            else:
                env2 = dict(env)
                self.bind_loopvar(st, env2)
                inner: list = []
                self.run(list(st.body), env2, facts + [(st, 'in-loop')], inner)
                out.extend(x for x in inner if x[0] != 'fall')
                self.run(rest, env, facts, out)
        elif isinstance(st, ast.Pass):
            self.run(rest, env, facts, out)
        elif isinstance(st, ast.Expr):
            c = st.value
            if isinstance(c, ast.Call) and isinstance(c.func, ast.Attribute) and isinstance(c.func.value, ast.Name) \
                    and isinstance(env.get(c.func.value.id), Lst):
                # a list under construction: X.append(e) / X.extend(L) / X.insert(0, e) are understood, nothing else is
                name = c.func.value.id
                env = dict(env)
                if c.func.attr == 'append' and len(c.args) == 1:
                    env[name] = Lst(env[name].items + [('elem', self.ev(c.args[0], env))])
                elif c.func.attr == 'extend' and len(c.args) == 1 and isinstance(self.ev(c.args[0], env), Lst):
                    env[name] = Lst(env[name].items + self.ev(c.args[0], env).items)
                else:
                    raise AnalysisError('R-REPEAT-COUNT: %s: list operation not understood: %s' % (self.f.qual, norm(c)[:100]))
            self.run(rest, env, facts, out)
        elif isinstance(st, ast.AugAssign):
            env = dict(env)
            if isinstance(st.target, ast.Name):
                cur = env.get(st.target.id)
                v = self.ev(st.value, env)
                if isinstance(cur, Lst) and isinstance(st.op, ast.Add) and isinstance(v, Lst):
                    env[st.target.id] = Lst(cur.items + v.items)
                elif isinstance(cur, Int) and isinstance(v, Int) and isinstance(st.op, (ast.Add, ast.Sub, ast.Mult)):
                    env[st.target.id] = Int(cur.p + v.p if isinstance(st.op, ast.Add) else cur.p - v.p if isinstance(st.op, ast.Sub) else cur.p * v.p)
                elif isinstance(cur, (Lst, Cnt, Int)):
                    raise AnalysisError('R-REPEAT-COUNT: %s: update not understood: %s' % (self.f.qual, norm(st)[:100]))
                else:
                    env[st.target.id] = Sym('?')
            self.run(rest, env, facts, out)
        else:
            raise AnalysisError('R-REPEAT-COUNT: statement kind %s not understood in %s' % (type(st).__name__, self.f.qual))

    def appending_loop(self, st: ast.For, env: dict) -> Optional[dict]:
        """`for v in range(..): X.append(E)` with X a list under construction: an indexed family"""
        if not (isinstance(st.target, ast.Name) and len(st.body) == 1 and isinstance(st.body[0], ast.Expr)):
            return None
        c = st.body[0].value
        if not (isinstance(c, ast.Call) and isinstance(c.func, ast.Attribute) and c.func.attr == 'append' and len(c.args) == 1
                and isinstance(c.func.value, ast.Name) and isinstance(env.get(c.func.value.id), Lst)):
            return None
        if not (isinstance(st.iter, ast.Call) and isinstance(st.iter.func, ast.Name) and st.iter.func.id == 'range'):
            return None
        lo, hi = self.range_bounds(st.iter, env)
        var = '%s#%d' % (st.target.id, next(self.fresh))
        env2 = dict(env)
        env2[st.target.id] = Int(Poly.var(var))
        v = self.ev(c.args[0], env2)
        out = dict(env)
        out[c.func.value.id] = Lst(env[c.func.value.id].items + [('fam', var, lo, hi, v)])
        return out

    def bind_loopvar(self, st: ast.For, env: dict):
        if isinstance(st.target, ast.Name):
            env[st.target.id] = Int(Poly.var(st.target.id))

    def bind(self, target: ast.AST, v, env: dict, st: ast.stmt):
        if isinstance(target, ast.Name):
            env[target.id] = v
            return
        if isinstance(target, (ast.Tuple, ast.List)):
            n = len(target.elts)
            if isinstance(v, Tup) and len(v.items) == n:
                for t, x in zip(target.elts, v.items):
                    self.bind(t, x, env, st)
                return
            if isinstance(v, MapInt):
                for k, t in enumerate(target.elts):
                    self.bind(t, Int(Poly.var('%s%d' % (v.name, v.start + k))), env, st)
                return
            if isinstance(v, ArgSlice):
                for k, t in enumerate(target.elts):
                    self.bind(t, Sym('%s%d' % (v.name, v.start + k)), env, st)
                return
            if isinstance(v, PairLast) and n == 2:
                k = next(self.fresh)
                al, be = 'a_last#%d' % k, 'b_last#%d' % k
                self.pending_last.append((v.x, al, be))
                self.bind(target.elts[0], Int(Poly.var(al)), env, st)
                self.bind(target.elts[1], Int(Poly.var(be)), env, st)
                return
            for t in target.elts:
                self.bind(t, Sym('?'), env, st)
            return
        # attribute / subscript stores do not concern the count algebra

    pending_last: list = []

    # ---- the loop over small_factors(X, _) ------------------------------------------------------------------------------
    def fold_loop(self, st: ast.For, it: Facts, env: dict) -> dict:
        if not (isinstance(st.target, ast.Tuple) and len(st.target.elts) == 2 and all(isinstance(t, ast.Name) for t in st.target.elts)):
            raise AnalysisError('R-REPEAT-COUNT: loop over the factor list does not unpack (a, b): %s' % norm(st.target))
        if it.part not in ('all', 'init'):
            raise CountViolation('the loop runs over %s of the factor list: the factors of small_factors() give the bound only when each '
                                 'is used exactly once, in order' % it.part, st)
        an, bn = st.target.elts[0].id, st.target.elts[1].id
        k = next(self.fresh)
        alpha, beta, tau = Poly.var('a#%d' % k), Poly.var('b#%d' % k), Poly.var('t#%d' % k)
        assigned = [s.targets[0].id for s in st.body if isinstance(s, ast.Assign) and len(s.targets) == 1 and isinstance(s.targets[0], ast.Name)]
        if len(assigned) != len(st.body):
            raise AnalysisError('R-REPEAT-COUNT: the body of the factor loop is not a sequence of simple assignments (%s)' % self.f.qual)
        exact = [n for n in dict.fromkeys(assigned) if isinstance(env.get(n), Cnt) and env[n].exact()]
        ranged = [n for n in dict.fromkeys(assigned) if isinstance(env.get(n), Cnt) and not env[n].exact()]
        # a range variable may start as the exact {0} = [0, 1-1]: tell it from the chain variable by how it is assigned
        opt_assigned = {s.targets[0].id for s in st.body if isinstance(s.value, ast.Call) and norm(s.value.func).endswith('._add_repeat_opt_rule')}
        ranged = [n for n in dict.fromkeys(assigned) if n in opt_assigned]
        exact = [n for n in exact if n not in opt_assigned]
        if len(exact) > 1 or len(ranged) > 1:
            raise AnalysisError('R-REPEAT-COUNT: more than one chain / optional variable in the factor loop (%s)' % self.f.qual)
        # which exact variable does the optional one refer to: the `target` argument of the call that assigns it
        tname = exact[0] if exact else None
        if ranged and tname is None:
            call = next(s.value for s in st.body if s.targets[0].id == ranged[0])
            targ = call.args[2] if len(call.args) > 2 else None
            if isinstance(targ, ast.Name) and isinstance(env.get(targ.id), Cnt) and env[targ.id].exact():
                tname = targ.id
        t0 = env[tname].lo if tname else None
        body_env = dict(env)
        body_env[an], body_env[bn] = Int(alpha), Int(beta)
        if tname in assigned:
            body_env[tname] = Cnt(tau, tau)
            tsym = tau
        else:
            tsym = t0
        if ranged:
            o0 = env.get(ranged[0])
            if not isinstance(o0, Cnt) or tsym is None or not o0.same(Cnt(0, t0 - 1)):
                raise CountViolation('before the factor loop `%s` matches %s, but the optional helper needs 0 .. (count of `%s`) - 1 = %s'
                                     % (ranged[0], o0, tname, Cnt(0, t0 - 1) if t0 is not None else '?'), st)
            body_env[ranged[0]] = Cnt(0, tsym - 1)
        for s in st.body:
            v = self.ev(s.value, body_env)
            body_env[s.targets[0].id] = v
        out = dict(env)
        t_after = None
        if tname in assigned:
            t1 = body_env[tname]
            if not (isinstance(t1, Cnt) and t1.exact() and t1.lo == alpha * tau + beta):
                raise CountViolation('one round of the factor loop turns a chain matching t into one matching %s; small_factors() promises the '
                                     'bound only for the step t*a + b' % (show(t1).replace('#%d' % k, '')), st)
            if t0 != 1:
                raise CountViolation('the chain of helper rules starts from something matching %s occurrences, the factors of small_factors() '
                                     'fold to the bound only from 1' % t0, st)
            if it.part == 'all':
                t_after = it.x
            else:
                phi = 'fold_init#%d' % k
                self.init_folds.append((phi, it.x))
                t_after = Poly.var(phi)
            out[tname] = Cnt(t_after, t_after)
        if ranged:
            o1 = body_env[ranged[0]]
            t1p = (alpha * tau + beta) if tname in assigned else tsym
            if not (isinstance(o1, Cnt) and o1.same(Cnt(0, t1p - 1))):
                raise CountViolation('one round of the factor loop leaves `%s` matching %s while `%s` matches %s: the optional helper of the next '
                                     'round needs 0 .. that - 1' % (ranged[0], show(o1).replace('#%d' % k, ''), tname, str(t1p).replace('#%d' % k, '')), st)
            if tname in assigned:
                out[ranged[0]] = Cnt(0, t_after - 1)
            else:
                raise CountViolation('`%s` grows in the factor loop but `%s`, which it is measured against, does not' % (ranged[0], tname), st)
        for n in (an, bn):
            out[n] = Sym('?')
        return out

    init_folds: list = []

    def close(self, p: Poly) -> Poly:
        """fold over all-but-the-last factors, then the last one = the fold over all = X"""
        for phi, x in self.init_folds:
            for (x2, al, be) in self.pending_last:
                if x2 == x:
                    p = p.subst_product(phi, al, x - Poly.var(be))
        return p


def _new_interp(repo, f, summaries) -> Interp:
    it = Interp(repo, f, summaries)
    it.relations = []
    it.qr = {}
    it.pending_last = []
    it.init_folds = []
    return it


# ------------------------------------------------------------------------------------------------------------ summaries
def _args(interp: Interp, call: ast.Call, env: dict, names: List[str]) -> Dict[str, object]:
    if call.keywords and any(k.arg is None for k in call.keywords):
        raise AnalysisError('R-REPEAT-COUNT: **kwargs in a helper call')
    vals = {}
    for n, a in zip(names, call.args):
        vals[n] = interp.ev(a, env)
    for k in call.keywords:
        vals[k.arg] = interp.ev(k.value, env)
    missing = [n for n in names if n not in vals]
    if missing:
        raise AnalysisError('R-REPEAT-COUNT: call %s does not bind %s' % (norm(call)[:100], missing))
    return vals


def make_summaries(repo: Repo) -> Dict[str, object]:
    rr = repo.func(E2B + '_add_repeat_rule')
    ro = repo.func(E2B + '_add_repeat_opt_rule')
    ar = repo.func(E2B + '_add_rule')
    rc = repo.func(E2B + '_add_recurse_rule')
    rr_names, ro_names, ar_names, rc_names = rr.positional_names(), ro.positional_names(), ar.positional_names(), rc.positional_names()

    def s_rr(interp, call, env):
        v = _args(interp, call, env, rr_names)
        a, b, target, atom = (v[n] for n in rr_names[:4])
        if not (isinstance(a, Int) and isinstance(b, Int)):
            raise AnalysisError('R-REPEAT-COUNT: factors handed to _add_repeat_rule are not integers: %s' % norm(call)[:100])
        if not (isinstance(atom, Cnt) and atom.exact() and atom.lo == 1):
            raise CountViolation('_add_repeat_rule is given %s as the repeated item, not the item itself' % show(atom), call)
        if not (isinstance(target, Cnt) and target.exact()):
            raise CountViolation('_add_repeat_rule repeats a target that matches %s, not one exact count' % show(target), call)
        t = a.p * target.lo + b.p
        return Cnt(t, t)

    def s_ro(interp, call, env):
        v = _args(interp, call, env, ro_names)
        a, b, target, target_opt, atom = (v[n] for n in ro_names[:5])
        if not (isinstance(a, Int) and isinstance(b, Int)):
            raise AnalysisError('R-REPEAT-COUNT: factors handed to _add_repeat_opt_rule are not integers: %s' % norm(call)[:100])
        if not (isinstance(atom, Cnt) and atom.exact() and atom.lo == 1):
            raise CountViolation('_add_repeat_opt_rule is given %s as the repeated item, not the item itself' % show(atom), call)
        if not (isinstance(target, Cnt) and target.exact()):
            raise CountViolation('_add_repeat_opt_rule is given a target matching %s, not one exact count' % show(target), call)
        if not (isinstance(target_opt, Cnt) and target_opt.same(Cnt(0, target.lo - 1))):
            raise CountViolation('_add_repeat_opt_rule is given an optional part matching %s with a target matching %s: it needs 0 .. %s'
                                 % (show(target_opt), show(target), target.lo - 1), call)
        return Cnt(0, a.p * target.lo + b.p - 1)

    def s_ar(interp, call, env):
        v = _args(interp, call, env, ar_names)
        name, tree = v[ar_names[1]], v[ar_names[2]]
        if isinstance(tree, RecSet):
            if not (isinstance(name, Sym) and all(r.sym == name.text for r in tree.recs)):
                raise CountViolation('the recursive alternative refers to another rule than the one being added', call)
            base = tree.base
            if base.hi is None:
                raise CountViolation('the non-recursive alternatives are already unbounded', call)
            width = base.hi - base.lo + 1
            for r in tree.recs:
                if not (r.rest.exact() and r.rest.lo == width):
                    raise CountViolation('each recursion adds %s occurrences to alternatives matching %s: the counts reached are not '
                                         'every count from %s upwards, exactly once' % (r.rest, base, base.lo), call)
            if len(tree.recs) != 1:
                raise CountViolation('more than one recursive alternative', call)
            return Cnt(base.lo, None)
        if isinstance(tree, Cnt):
            return tree
        raise AnalysisError('R-REPEAT-COUNT: tree handed to _add_rule has no known count: %s' % norm(call)[:120])

    def s_rc(interp, call, env):
        v = _args(interp, call, env, rc_names)
        x = v[rc_names[1]]
        if not (isinstance(x, Cnt) and x.exact()):
            raise AnalysisError('R-REPEAT-COUNT: _add_recurse_rule on something without an exact count: %s' % norm(call)[:100])
        return Cnt(x.lo, None)

    def s_gr(interp, call, env):
        gr = repo.func(E2B + '_generate_repeats')
        v = _args(interp, call, env, gr.positional_names())
        names = gr.positional_names()
        x, mn, mx = v[names[0]], v[names[1]], v[names[2]]
        if not (isinstance(mn, Int) and isinstance(mx, Int)):
            raise AnalysisError('R-REPEAT-COUNT: bounds handed to _generate_repeats are not integers: %s' % norm(call)[:100])
        if not (isinstance(x, Cnt) and x.exact() and x.lo == 1):
            raise CountViolation('_generate_repeats is given %s as the item to repeat' % show(x), call)
        return Cnt(mn.p, mx.p)

    return {'_add_repeat_rule': s_rr, '_add_repeat_opt_rule': s_ro, '_add_rule': s_ar, '_add_recurse_rule': s_rc, '_generate_repeats': s_gr}


# ---------------------------------------------------------------------------------------------------------------- checks
def _returns(interp: Interp, f: FuncInfo, env: dict):
    out: list = []
    interp.run(list(f.node.body), env, [], out)
    return out


def _eq_substs(interp: Interp, env: dict, facts: list) -> List[Tuple[str, Poly]]:
    subs = []
    for t, pol in facts:
        if pol is True and isinstance(t, ast.Compare) and len(t.ops) == 1 and isinstance(t.ops[0], ast.Eq):
            l, r = interp.ev(t.left, env), interp.ev(t.comparators[0], env)
            if isinstance(l, Int) and isinstance(r, Int):
                d = l.p - r.p
                # solve for a variable that occurs linearly with coefficient +-1
                for m, c in d.t.items():
                    if len(m) == 1 and m[0][1] == 1 and abs(c) == 1:
                        var = m[0][0]
                        rest = d - Poly({m: c})
                        if var not in rest.vars():
                            subs.append((var, -rest if c == 1 else rest))
                            break
    return subs


def _apply(p: Optional[Poly], subs) -> Optional[Poly]:
    if p is None:
        return None
    for var, by in subs:
        p = p.subst(var, by)
    return p


def _strict(interp: Interp, env: dict, test: ast.AST, pol: bool) -> Optional[Poly]:
    """the integer comparison as `Q < 0`, or None"""
    if isinstance(test, ast.UnaryOp) and isinstance(test.op, ast.Not):
        return _strict(interp, env, test.operand, not pol)
    if not (isinstance(test, ast.Compare) and len(test.ops) == 1):
        return None
    l, r = interp.ev(test.left, env), interp.ev(test.comparators[0], env)
    if not (isinstance(l, Int) and isinstance(r, Int)):
        return None
    op = test.ops[0]
    d = l.p - r.p
    if isinstance(op, ast.Lt):
        q = d if pol else -d - 1          # l < r : d < 0 ; not: d >= 0 : -d <= 0 : -d - 1 < 0
    elif isinstance(op, ast.LtE):
        q = d - 1 if pol else -d
    elif isinstance(op, ast.Gt):
        q = -d if pol else d - 1
    elif isinstance(op, ast.GtE):
        q = -d - 1 if pol else d
    else:
        return None
    return q


def _rejects_only(interp: Interp, env: dict, facts: list, allowed) -> bool:
    """the condition that leads to the raise -- the last test on the path -- implies one of the `allowed` strict facts (Q < 0);
    a disjunction implies it when every disjunct does"""
    tests = [(t, p) for t, p in facts if isinstance(t, ast.expr)]
    if not tests:
        return False
    t, pol = tests[-1]

    def one(t_, pol_) -> bool:
        if isinstance(t_, ast.UnaryOp) and isinstance(t_.op, ast.Not):
            return one(t_.operand, not pol_)
        if isinstance(t_, ast.BoolOp):
            if isinstance(t_.op, ast.Or) and pol_ is True:
                return all(one(v, True) for v in t_.values)
            if isinstance(t_.op, ast.And) and pol_ is True:
                return any(one(v, True) for v in t_.values)
            if isinstance(t_.op, ast.And) and pol_ is False:
                return all(one(v, False) for v in t_.values)
            if isinstance(t_.op, ast.Or) and pol_ is False:
                return any(one(v, False) for v in t_.values)
        q = _strict(interp, env, t_, pol_)
        return q is not None and any(_implies(q, al) for al in allowed)
    return one(t, pol)


def _implies(q1: Poly, q: Poly) -> bool:
    """(q1 < 0) implies (q < 0) because q <= q1 by a constant"""
    d = q - q1
    return d.is_const() and d.const_value() <= 0


def run(ctx: Ctx) -> RuleResult:
    repo = ctx.repo
    res = RuleResult('R-REPEAT-COUNT', 'the helper rules compiled for ~n..m / ? / * / + match exactly the stated counts (count algebra over '
                                       'the tree-building expressions); terminals get the matching regex quantifier')
    res.default_props = ['C09']
    summaries = make_summaries(repo)
    T = Poly.var('T')
    a, b = Poly.var('a'), Poly.var('b')

    def guarded(f: FuncInfo, construct: str, what: str, thunk, props=None):
        site = '%s %s' % (f.loc(), f.qual)
        try:
            msg = thunk()
        except CountViolation as cv:
            msg = cv.msg
            node = cv.node if cv.node is not None and hasattr(cv.node, 'lineno') else f.node
            res.ob(site, what, False, props=props)
            res.finding(f, node, msg, construct=construct, props=props)
            return
        res.ob(site, what, msg is None, props=props)
        if msg is not None:
            res.finding(f, f.node, msg, construct=construct, props=props)

    # ---- _add_rule: the name it returns denotes the tree it files ---------------------------------------------------------
    ar = repo.func(E2B + '_add_rule')
    pn = ar.positional_names()

    def chk_add_rule():
        if len(pn) < 3:
            raise AnalysisError('R-REPEAT-COUNT: _add_rule signature changed')
        apps = [c for c in ar.body_nodes() if isinstance(c, ast.Call) and isinstance(c.func, ast.Attribute) and c.func.attr == 'append'
                and norm(c.func.value).endswith('.new_rules')]
        filed = any(isinstance(c.args[0], ast.Tuple) and len(c.args[0].elts) >= 2 and norm(c.args[0].elts[0]) == pn[1] and norm(c.args[0].elts[1]) == pn[2]
                    for c in apps if c.args)
        opts = any(isinstance(c.args[0], ast.Tuple) and len(c.args[0].elts) == 3 and norm(c.args[0].elts[2]) == '%s.rule_options' % (ar.self_name() or 'self')
                   for c in apps if c.args)
        if filed and not opts:
            return ('_add_rule files the helper rule without the options of the rule it was split from (self.rule_options): in a rule that '
                    'keeps all tokens the repeated part loses its filtered tokens, so k occurrences no longer give k children')
        rets = [r for r in ar.body_nodes() if isinstance(r, ast.Return)]
        env = {}
        it = _new_interp(repo, ar, {})
        outs = _returns(it, ar, {})
        named = True
        for kind, env_, _f, st in outs:
            if kind == 'return':
                v = st.value
                while isinstance(v, ast.Name) and v.id in _defs(ar):
                    v = _defs(ar)[v.id]
                named = named and isinstance(v, ast.Call) and norm(v.func) == 'NonTerminal' and len(v.args) == 1 and norm(v.args[0]) == pn[1]
        cached = any(isinstance(s, ast.Assign) and isinstance(s.targets[0], ast.Subscript) and norm(s.targets[0].value).endswith('.rules_cache')
                     and norm(s.targets[0].slice) == pn[0] for s in ar.body_nodes())
        if not (filed and named and rets and cached):
            return ('_add_rule no longer files (name, expansions, ...) under new_rules, returns NonTerminal(name) and remembers it under the '
                    'key (filed=%s, returns the name=%s, cached under key=%s)' % (filed, named, cached))
        return None
    guarded(ar, 'add-rule:contract', '_add_rule(key, name, tree) files the tree under the name it returns and caches it under key', chk_add_rule,
            props=['C09', 'C03'])

    # ---- _add_repeat_rule ----------------------------------------------------------------------------------------------
    rr = repo.func(E2B + '_add_repeat_rule')

    def chk_helper(f: FuncInfo, env0: dict, spec: Cnt, label: str):
        it = _new_interp(repo, f, summaries)
        n_ret = 0
        for kind, env, facts, st in _returns(it, f, dict(env0)):
            if kind != 'return':
                continue
            v = it.ev(st.value, env)
            if isinstance(v, Cached):
                continue
            n_ret += 1
            if not isinstance(v, Cnt):
                raise AnalysisError('R-REPEAT-COUNT: %s returns something without a count: %s' % (f.qual, show(v)))
            if not v.same(spec):
                raise CountViolation('%s builds a rule matching %s occurrences of the item; its contract (and every caller) needs %s'
                                     % (label, v, spec), st)
        if n_ret == 0:
            raise AnalysisError('R-REPEAT-COUNT: %s: no return that builds a rule' % f.qual)
        return None

    names = rr.positional_names()
    if len(names) < 4:
        raise AnalysisError('R-REPEAT-COUNT: _add_repeat_rule signature changed')
    env_rr = {names[0]: Int(a), names[1]: Int(b), names[2]: Cnt(T, T), names[3]: Cnt(1, 1)}
    guarded(rr, 'repeat-rule:count', '_add_repeat_rule(a, b, target, atom): target matching T gives a rule matching exactly a*T + b',
            lambda: chk_helper(rr, env_rr, Cnt(a * T + b, a * T + b), '_add_repeat_rule(a, b, target, atom)'))
    ro = repo.func(E2B + '_add_repeat_opt_rule')
    names_o = ro.positional_names()
    if len(names_o) < 5:
        raise AnalysisError('R-REPEAT-COUNT: _add_repeat_opt_rule signature changed')
    env_ro = {names_o[0]: Int(a), names_o[1]: Int(b), names_o[2]: Cnt(T, T), names_o[3]: Cnt(0, T - 1), names_o[4]: Cnt(1, 1)}
    guarded(ro, 'repeat-opt:count', '_add_repeat_opt_rule(a, b, target, target_opt, atom): target = T, target_opt = 0..T-1 gives 0 .. a*T + b - 1',
            lambda: chk_helper(ro, env_ro, Cnt(0, a * T + b - 1), '_add_repeat_opt_rule(a, b, target, target_opt, atom)'))

    # ---- cache keys: the key determines the tree, and the two helpers cannot collide -------------------------------------
    KEY_EXCEPTIONS = {('_add_repeat_opt_rule', names_o[3]): 'target_opt is a function of target: both are built by the same chain of factors, and '
                                                            'target (a cached NonTerminal) identifies that chain'}

    def key_of(f: FuncInfo) -> Optional[ast.AST]:
        for c in f.body_nodes():
            if isinstance(c, ast.Call) and norm(c.func) == '%s._add_rule' % (f.self_name() or 'self') and c.args:
                k = c.args[0]
                d = _defs(f)
                while isinstance(k, ast.Name) and k.id in d:
                    k = d[k.id]
                return k
        return None

    def chk_key(f: FuncInfo):
        k = key_of(f)
        if k is None:
            raise AnalysisError('R-REPEAT-COUNT: %s: no _add_rule call' % f.qual)
        knames = {n.id for n in ast.walk(k) if isinstance(n, ast.Name)}
        call = next(c for c in f.body_nodes() if isinstance(c, ast.Call) and norm(c.func) == '%s._add_rule' % (f.self_name() or 'self'))
        tree = call.args[2] if len(call.args) > 2 else None
        d = _defs(f)
        while isinstance(tree, ast.Name) and tree.id in d:
            tree = d[tree.id]
        params = set(f.positional_names())
        reads = {n.id for n in ast.walk(tree) if isinstance(n, ast.Name) and n.id in params} if tree is not None else set()
        missing = sorted(p for p in reads - knames if (f.node.name, p) not in KEY_EXCEPTIONS)
        if missing:
            return ('the helper rule is cached under %s but its tree also depends on %s: a later call with another value gets the rule built '
                    'for the first' % (norm(k), missing))
        # the lookup uses the same key
        looks = [s for s in f.body_nodes() if isinstance(s, ast.Subscript) and norm(s.value).endswith('.rules_cache') and isinstance(s.ctx, ast.Load)]
        for s in looks:
            kk = s.slice
            while isinstance(kk, ast.Name) and kk.id in d:
                kk = d[kk.id]
            if norm(kk) != norm(k):
                return 'the cache is looked up under %s but filled under %s' % (norm(kk), norm(k))
        return None
    for f in (rr, ro, repo.func(E2B + '_add_recurse_rule')):
        guarded(f, 'cache-key:%s' % f.node.name, 'the cache key names everything the helper tree depends on; lookup and store use the same key',
                lambda f=f: chk_key(f))

    def chk_partition():
        """what _add_rule files depends on self.rule_options (keep_all_tokens decides which anonymous terminals of the helper are filtered), and
        the transformer is reused for every rule of the grammar: the helper cache has to be partitioned by that setting (or keyed by it)"""
        k_ = repo.cls(LG + 'EBNF_to_BNF')
        reads_opts = any(isinstance(x, ast.Attribute) and x.attr == 'rule_options' for x in ar.body_nodes())
        if not reads_opts:
            return None
        prop_ = k_.methods.get('rules_cache')
        if prop_ is not None and any(isinstance(x, ast.Attribute) and x.attr == 'rule_options' for x in prop_.body_nodes()):
            return None
        keys_ = [key_of(f_) for f_ in (rr, ro, repo.func(E2B + '_add_recurse_rule'))]
        if all(k is not None and any(isinstance(x, ast.Attribute) and x.attr == 'rule_options' for x in ast.walk(k)) for k in keys_):
            return None
        gc_ = repo.func(LG + 'Grammar.compile')
        resets = [a for a in gc_.body_nodes() if isinstance(a, ast.Assign) and any(norm(t).endswith('.rules_cache') for t in a.targets)]
        if resets and any(isinstance(l, ast.For) and any(a is x for a in resets for x in ast.walk(l)) for l in gc_.body_nodes()):
            return None
        return ('helper rules are cached under keys that do not mention self.rule_options, in one cache for the whole grammar, while what is filed under them '
                'depends on it: `!a: "x"+ "y"` and `b: "x"+ "z"` share the helper made for whichever comes first, so b keeps its "x" tokens or a loses them')
    guarded(ar, 'cache-key:options-partition', 'helper rules are shared only between rules with the same keep_all_tokens setting', chk_partition,
            props=['C03', 'C09'])

    def chk_collide():
        k1, k2 = key_of(rr), key_of(ro)
        if not (isinstance(k1, ast.Tuple) and isinstance(k2, ast.Tuple)):
            raise AnalysisError('R-REPEAT-COUNT: cache keys are not tuples')
        if len(k1.elts) != len(k2.elts):
            return None
        if any(isinstance(x, ast.Constant) and isinstance(y, ast.Constant) and x.value != y.value for x, y in zip(k1.elts, k2.elts)):
            return None
        return ('_add_repeat_rule and _add_repeat_opt_rule share one cache and their keys %s / %s can coincide: one gets the other\'s rule'
                % (norm(k1), norm(k2)))
    guarded(ro, 'cache-key:collision', 'keys of the exact and of the optional helper cannot coincide', chk_collide)

    # ---- small_factors ---------------------------------------------------------------------------------------------------
    sf = repo.func('lark.utils:small_factors')

    def chk_sf():
        pnames = sf.positional_names()
        n = Poly.var(pnames[0])
        it = _new_interp(repo, sf, {})
        env0 = {pnames[0]: Int(n), pnames[1]: Int(Poly.var(pnames[1]))}
        outs = _returns(it, sf, env0)
        rets = [(env, facts, st) for kind, env, facts, st in outs if kind == 'return']
        if not rets:
            raise AnalysisError('R-REPEAT-COUNT: small_factors has no return')
        n_base = 0
        for env, facts, st in rets:
            rec_calls = []
            val = _fold(it, st.value, env, Poly.const(1), sf.node.name, rec_calls)
            ok = val == n or any(lhs == n and val == rhs for lhs, rhs, _q, _d in it.relations)
            if not ok:
                raise CountViolation('small_factors returns %s, whose fold x -> x*a + b from 1 is %s, not n%s'
                                     % (norm(st.value), _clean(val), _rel_text(it)), st)
            if not rec_calls:
                n_base += 1
            for arg, call in rec_calls:
                # progress: the recursive argument is the quotient of n by something >= 2
                rel = [r for r in it.relations if r[0] == n and r[2] == arg]
                if not rel:
                    raise CountViolation('small_factors recurses on %s, which is not the quotient of n' % _clean(arg), call)
                div = rel[0][3]
                lo = _min_of(it, sf, div, env, facts)
                if lo is None or lo < 2:
                    raise CountViolation('small_factors divides by %s, which can be %s: the quotient is then not smaller than n and the '
                                         'recursion does not end' % (_clean(div), 'less than 2' if lo is None else lo), call)
        if n_base == 0:
            raise CountViolation('small_factors has no return without recursion', sf.node)
        return None
    guarded(sf, 'small-factors:fold', 'small_factors(n, _) returns factors whose fold x -> x*a + b from 1 is n; the recursion is on n // a, a >= 2', chk_sf)

    def chk_sf_pre():
        # preconditions on n admit what _generate_repeats passes: mn (>= 0: `x~0..m` is legal) and mx - mn + 1 (>= 1)
        from ..exprs import as_less, linear
        pn0 = sf.positional_names()[0]
        for st_ in sf.node.body:
            tests_ = []
            if isinstance(st_, ast.Assert):
                tests_ = [(st_.test, True)]
            elif isinstance(st_, ast.If) and not st_.orelse and st_.body and isinstance(st_.body[-1], ast.Raise):
                tests_ = [(st_.test, False)]
            for t_, pol_ in tests_:
                parts_ = t_.values if isinstance(t_, ast.BoolOp) and isinstance(t_.op, ast.And if pol_ else ast.Or) else [t_]
                for c_ in parts_:
                    al = as_less(c_)
                    if al is None:
                        continue
                    lo_, op_, hi_ = al
                    for n0 in (0, 1):
                        l_ = linear(lo_, {pn0: {'': n0} if n0 else {}})
                        h_ = linear(hi_, {pn0: {'': n0} if n0 else {}})
                        if not (set(l_) <= {''} and set(h_) <= {''}) or pn0 not in {y.id for y in ast.walk(c_) if isinstance(y, ast.Name)}:
                            continue
                        holds = l_.get('', 0) < h_.get('', 0) if op_ == '<' else l_.get('', 0) <= h_.get('', 0)
                        if holds != pol_:
                            raise CountViolation('small_factors refuses %s = %d (%s): _generate_repeats factors the lower bound of `x~mn..mx` and '
                                                 'mx - mn + 1, so `x~%s` with a large upper bound cannot be compiled' % (pn0, n0, norm(c_), '0..m' if n0 == 0 else 'n..n'), st_)
        return None
    guarded(sf, 'small-factors:precondition', 'small_factors accepts n = 0 and n = 1 (the least lower bound and the least width of a range)', chk_sf_pre)

    # ---- identical alternatives produced by multiplying out ? and ~n..m are merged before the grammar is compiled ---------------------------
    sv = repo.func('lark.load_grammar:SimplifyRule_Visitor.expansions')

    def chk_dedup():
        from ..exprs import as_less, sym_norm
        calls_ = [c_ for c_ in sv.body_nodes() if isinstance(c_, ast.Call) and norm(c_.func).split('.')[-1] in ('dedup_list', 'fromkeys')]
        if not calls_:
            raise AnalysisError('R-REPEAT-COUNT: SimplifyRule_Visitor.expansions: cannot find where identical alternatives are merged')
        tparam = sv.positional_names()[-1]
        for c_ in calls_:
            st_ = enclosing_stmt(c_)
            if not (isinstance(st_, ast.Assign) and norm(st_.targets[0]) in ('%s.children' % tparam, '%s.children[:]' % tparam)):
                raise CountViolation('the merged list of alternatives is not stored back into %s.children' % tparam, st_)
            arg_ = norm(c_.args[0]) if c_.args else ''
            if arg_ != '%s.children' % tparam:
                raise AnalysisError('R-REPEAT-COUNT: SimplifyRule_Visitor.expansions merges %s, not %s.children' % (arg_, tparam))
            for t_, pol_ in path_conditions(st_):
                ok_ = False
                al = as_less(t_)
                sset, slist = 'len(set(%s))' % arg_, 'len(%s)' % arg_
                if isinstance(t_, ast.Compare) and len(t_.ops) == 1 and isinstance(t_.ops[0], (ast.NotEq, ast.Eq)):
                    pair = {norm(t_.left), norm(t_.comparators[0])}
                    ok_ = pair == {sset, slist} and (isinstance(t_.ops[0], ast.NotEq) == pol_)
                elif al is not None:
                    lo_, op_, hi_ = al
                    # len(set(x)) < len(x) when taken; len(x) <= len(set(x)) when not taken
                    ok_ = (pol_ and op_ == '<' and norm(lo_) == sset and norm(hi_) == slist) or \
                          (not pol_ and op_ == '<=' and norm(lo_) == slist and norm(hi_) == sset)
                if not ok_:
                    raise CountViolation('identical alternatives are merged only when `%s` is %s, which is not "there is a duplicate" '
                                         '(len(set(x)) != len(x)): `x? x?` or `x~1..2 x~1..2` multiply out to the same alternative twice, and '
                                         'Grammar.compile refuses the grammar ("Rules defined twice")' % (norm(t_), pol_), st_)
        return None
    guarded(sv, 'alternatives:dedup', 'the alternatives of a rule are de-duplicated whenever two are equal', chk_dedup)

    # ---- _generate_repeats -----------------------------------------------------------------------------------------------
    gr = repo.func(E2B + '_generate_repeats')

    def chk_gr():
        gn = gr.positional_names()
        if len(gn) < 3:
            raise AnalysisError('R-REPEAT-COUNT: _generate_repeats signature changed')
        mn, mx = Poly.var(gn[1]), Poly.var(gn[2])
        it = _new_interp(repo, gr, summaries)
        env0 = {gn[0]: Cnt(1, 1), gn[1]: Int(mn), gn[2]: Int(mx)}
        n_ret = 0
        for kind, env, facts, st in _returns(it, gr, env0):
            if kind == 'fall':
                raise CountViolation('_generate_repeats can end without returning a tree', gr.node)
            if kind != 'return':
                continue
            n_ret += 1
            v = it.ev(st.value, env)
            if not isinstance(v, Cnt):
                raise AnalysisError('R-REPEAT-COUNT: _generate_repeats returns something without a count: %s' % show(v))
            subs = _eq_substs(it, env0, facts)
            got = Cnt(_apply(it.close(v.lo), subs), _apply(None if v.hi is None else it.close(v.hi), subs))
            want = Cnt(_apply(mn, subs), _apply(mx, subs))
            if not got.same(want):
                cond = ' and '.join(('' if pol is True else 'not ') + norm(t) for t, pol in facts if isinstance(t, ast.expr)) or 'always'
                raise CountViolation('for bounds (%s, %s), when %s, the compiled rule matches %s occurrences; stated: %s'
                                     % (gn[1], gn[2], cond, _clean(got), _clean(want)), st)
        if n_ret < 2:
            raise AnalysisError('R-REPEAT-COUNT: _generate_repeats: fewer returns than confirmed (%d)' % n_ret)
        return None
    guarded(gr, 'generate-repeats:count', '_generate_repeats(rule, mn, mx) returns a tree matching exactly mn .. mx on every path', chk_gr)

    # ---- _add_recurse_rule --------------------------------------------------------------------------------------------------
    rc = repo.func(E2B + '_add_recurse_rule')

    def chk_rc():
        rn = rc.positional_names()
        it = _new_interp(repo, rc, summaries)
        env0 = {rn[1]: Cnt(1, 1)}
        n_ret = 0
        for kind, env, facts, st in _returns(it, rc, env0):
            if kind != 'return':
                continue
            v = it.ev(st.value, env)
            if isinstance(v, Cached):
                continue
            n_ret += 1
            if not (isinstance(v, Cnt) and v.same(Cnt(1, None))):
                raise CountViolation('_add_recurse_rule builds a rule matching %s occurrences; `+` (and `*` through it) need 1 or more' % show(v), st)
        if n_ret == 0:
            raise AnalysisError('R-REPEAT-COUNT: _add_recurse_rule: no return that builds a rule')
        return None
    guarded(rc, 'recurse-rule:count', '_add_recurse_rule builds `t: x | t x`, matching 1 or more', chk_rc)

    # ---- EBNF_to_BNF.expr ---------------------------------------------------------------------------------------------------
    ex = repo.func(E2B + 'expr')

    def op_label(it: Interp, env: dict, facts: list) -> Optional[str]:
        """the operator this path is for: the literal some fact compares `op` with (positively)"""
        for t, pol in facts:
            if pol is True and isinstance(t, ast.Compare) and len(t.ops) == 1 and isinstance(t.ops[0], ast.Eq):
                for x, y in ((t.left, t.comparators[0]), (t.comparators[0], t.left)):
                    if const_str(y) is not None and isinstance(it.ev(x, env), Sym) and it.ev(x, env).text == opname[0]:
                        return const_str(y)
        return None

    opname = ['op']

    def chk_expr():
        en = ex.positional_names()
        if len(en) < 2 or not ex.node.args.vararg:
            raise AnalysisError('R-REPEAT-COUNT: EBNF_to_BNF.expr signature changed')
        opname[0] = en[1]
        it = _new_interp(repo, ex, summaries)
        env0 = {en[0]: Cnt(1, 1)}
        va = ex.node.args.vararg.arg
        a0, a1 = Poly.var(va + '0'), Poly.var(va + '1')
        SPEC = {'?': [Cnt(0, 1)], '+': [Cnt(1, None)], '*': [Cnt(0, None)], '~': [Cnt(a0, a0), Cnt(a0, a1)]}
        seen = {}
        for kind, env, facts, st in _returns(it, ex, env0):
            lab = op_label(it, env, facts)
            if kind == 'raise':
                if isinstance(st, ast.Assert) or lab is None:
                    continue
                if lab != '~':
                    raise CountViolation('operator %r is rejected on some path' % lab, st)
                # a rejected `~` must have invalid bounds: the last comparison on the path implies mx < mn or mn < 0
                allowed = [a1 - a0, a0]             # mx - mn < 0 ; mn < 0
                if not _rejects_only(it, env, facts, allowed):
                    raise CountViolation('a `~` range is rejected under a condition that valid bounds 0 <= n <= m can meet (%s)'
                                         % (' and '.join(('' if p_ is True else 'not ') + norm(t_) for t_, p_ in facts if isinstance(t_, ast.expr))), st)
                continue
            if kind == 'fall':
                continue
            if lab is None:
                raise AnalysisError('R-REPEAT-COUNT: a return of EBNF_to_BNF.expr is not under a test of the operator')
            v = it.ev(st.value, env)
            if not isinstance(v, Cnt):
                raise AnalysisError('R-REPEAT-COUNT: EBNF_to_BNF.expr returns something without a count for %r: %s' % (lab, show(v)))
            if lab not in SPEC:
                continue
            if not any(v.same(s) for s in SPEC[lab]):
                raise CountViolation('`x%s` is compiled to something matching %s occurrences of x; stated: %s'
                                     % (lab if lab != '~' else '~n..m', _clean(v), ' or '.join(_clean(s) for s in SPEC[lab])), st)
            seen.setdefault(lab, []).append(v)
        missing = [k for k in SPEC if k not in seen]
        if missing:
            raise CountViolation('no path of EBNF_to_BNF.expr compiles the operator(s) %s' % missing, ex.node)
        # both arms of ~ (one bound, two bounds)
        if not (any(v.exact() for v in seen['~']) and any(not v.exact() for v in seen['~'])):
            raise CountViolation('`~` needs an arm for one bound (exactly n) and one for two (n..m); found %s' % [_clean(v) for v in seen['~']], ex.node)
        return None
    guarded(ex, 'expr:operators', 'EBNF_to_BNF.expr: ? -> 0..1, + -> 1.., * -> 0.., ~n -> n, ~n..m -> n..m; only invalid bounds are rejected', chk_expr)

    # ---- TerminalTreeToPattern.expr -------------------------------------------------------------------------------------------
    tx = repo.func(LG + 'TerminalTreeToPattern.expr')

    def chk_tx():
        tn = tx.positional_names()
        if len(tn) != 1:
            raise AnalysisError('R-REPEAT-COUNT: TerminalTreeToPattern.expr signature changed')
        it = _new_interp(repo, tx, {})
        it.vararg = tn[0]
        A = tn[0]
        seen = set()
        for kind, env, facts, st in _returns(it, tx, {}):
            lab = None
            for t, pol in facts:
                if isinstance(t, ast.Compare) and len(t.ops) == 1 and isinstance(t.ops[0], ast.Eq) and const_str(t.comparators[0]) == '~':
                    lv = it.ev(t.left, env if False else _env_at_test(env))
                    lab = '~' if pol is True else 'other'
            if lab is None:
                raise AnalysisError('R-REPEAT-COUNT: TerminalTreeToPattern.expr: a path does not test the operator against "~"')
            if kind == 'raise':
                if isinstance(st, ast.Assert):
                    continue
                a2, a3 = Poly.var(A + '2'), Poly.var(A + '3')
                if lab != '~' or not _rejects_only(it, env, facts, (a3 - a2, a2)):
                    raise CountViolation('a terminal repetition is rejected under a condition that valid bounds can meet', st)
                continue
            if kind != 'return':
                continue
            v = st.value
            if not (isinstance(v, ast.Call) and v.args):
                raise AnalysisError('R-REPEAT-COUNT: TerminalTreeToPattern.expr does not return a constructed pattern')
            s = it.ev(v.args[0], env)
            if not isinstance(s, Str):
                raise AnalysisError('R-REPEAT-COUNT: the regexp built by TerminalTreeToPattern.expr is not a template: %s' % show(s))
            tmpl, args = s.flat()
            shown = [show(x) if not isinstance(x, Sym) else x.text for x in args]
            if not (args and isinstance(args[0], Sym) and args[0].text.endswith('.to_regexp()')):
                raise CountViolation('the quantified regexp %r does not start from the inner pattern\'s regexp' % tmpl, st)
            if not tmpl.startswith('(?:%s)'):
                raise CountViolation('the inner regexp is not wrapped in a group before the quantifier (%r): the quantifier would bind to its '
                                     'last character only' % tmpl, st)
            rest, rargs = tmpl[len('(?:%s)'):], args[1:]
            if lab == 'other':
                ok = rest == '%s' and len(rargs) == 1 and isinstance(rargs[0], Sym) and rargs[0].text == A + '1'
                seen.add('other')
                if not ok:
                    raise CountViolation('for ?, *, + the quantifier appended is %r %% %s, not the operator itself' % (rest, shown[1:]), st)
            else:
                want1 = rest == '{%s}' and len(rargs) == 1 and isinstance(rargs[0], Int) and rargs[0].p == Poly.var(A + '2')
                want2 = rest == '{%s,%s}' and len(rargs) == 2 and all(isinstance(x, Int) for x in rargs) and \
                    rargs[0].p == Poly.var(A + '2') and rargs[1].p == Poly.var(A + '3')
                if want1:
                    seen.add('~n')
                elif want2:
                    seen.add('~n..m')
                else:
                    raise CountViolation('for `~` the quantifier appended is %r %% %s; stated: {n} from the single bound, or {n,m} from the two '
                                         'bounds in that order' % (rest, shown[1:]), st)
        missing = {'other', '~n', '~n..m'} - seen
        if missing:
            raise CountViolation('TerminalTreeToPattern.expr has no path for %s' % sorted(missing), tx.node)
        return None

    def _env_at_test(env):
        return env
    guarded(tx, 'terminal-expr:quantifier', 'TerminalTreeToPattern.expr: (?:inner) followed by the operator, {n} or {n,m} from the bounds in order; '
            'only invalid bounds are rejected', chk_tx)

    tm = repo.func(LG + 'TerminalTreeToPattern.maybe')

    def chk_tm():
        pn_ = tm.positional_names()
        rets = [r for r in tm.body_nodes() if isinstance(r, ast.Return)]
        d = _defs(tm)
        for r in rets:
            v = r.value
            while isinstance(v, ast.Name) and v.id in d:
                v = d[v.id]
            if isinstance(v, ast.Call) and norm(v.func) == '%s.expr' % (tm.self_name() or 'self') and len(v.args) == 1:
                a_ = v.args[0]
                while isinstance(a_, ast.Name) and a_.id in d:
                    a_ = d[a_.id]
                ok = isinstance(a_, ast.BinOp) and isinstance(a_.op, ast.Add) and norm(a_.left) == pn_[0] and isinstance(a_.right, ast.List) \
                    and len(a_.right.elts) == 1 and const_str(a_.right.elts[0]) == '?'
                if ok:
                    return None
                return '`[x]` inside a terminal is handed to expr() as %s, not as x followed by "?"' % norm(a_)
        raise AnalysisError('R-REPEAT-COUNT: TerminalTreeToPattern.maybe does not delegate to expr()')
    guarded(tm, 'terminal-expr:maybe', 'inside a terminal `[x]` is `x?`', chk_tm)

    # ---- constants ----------------------------------------------------------------------------------------------------------
    lg = repo.module('lark.load_grammar')
    consts = {}
    for st in lg.tree.body:
        if isinstance(st, ast.Assign) and len(st.targets) == 1 and isinstance(st.targets[0], ast.Name) and isinstance(st.value, ast.Constant) \
                and st.targets[0].id in ('SMALL_FACTOR_THRESHOLD', 'REPEAT_BREAK_THRESHOLD'):
            consts[st.targets[0].id] = st.value.value
    if 'SMALL_FACTOR_THRESHOLD' in consts:
        ok = isinstance(consts['SMALL_FACTOR_THRESHOLD'], int) and consts['SMALL_FACTOR_THRESHOLD'] > 2
        res.ob('lark/load_grammar.py SMALL_FACTOR_THRESHOLD', 'the factor bound handed to small_factors is > 2 (its own precondition: with 2 no '
               'factor fits an odd remainder)', ok)
        if not ok:
            res.finding('lark.load_grammar', None, 'SMALL_FACTOR_THRESHOLD = %r: small_factors needs a bound > 2 and fails for large bounds otherwise'
                        % consts['SMALL_FACTOR_THRESHOLD'], construct='constants:small-factor', module=lg, line=1)
    res.tables['summaries'] = {'_add_repeat_rule(a,b,target=T,atom)': 'a*T + b', '_add_repeat_opt_rule(a,b,target=T,target_opt=0..T-1,atom)': '0 .. a*T + b - 1',
                               'small_factors(n,_)': 'fold(x -> x*a + b, 1) = n', '_generate_repeats(rule,mn,mx)': 'mn .. mx',
                               '_add_recurse_rule': '1 .. oo'}
    res.require_instances(len(res.obligations), 10, 'count obligations')
    return res


# -------------------------------------------------------------------------------------------------------------- helpers
def _defs(f: FuncInfo) -> Dict[str, ast.AST]:
    """locals assigned exactly once (by a plain assignment)"""
    cnt: Dict[str, int] = {}
    val: Dict[str, ast.AST] = {}
    for s in f.body_nodes():
        if isinstance(s, ast.Assign):
            for t in s.targets:
                if isinstance(t, ast.Name):
                    cnt[t.id] = cnt.get(t.id, 0) + 1
                    val[t.id] = s.value
        elif isinstance(s, (ast.AugAssign, ast.For)):
            for n in ast.walk(s.target):
                if isinstance(n, ast.Name):
                    cnt[n.id] = cnt.get(n.id, 0) + 2
    return {k: v for k, v in val.items() if cnt.get(k) == 1}


def _clean(x) -> str:
    import re
    return re.sub(r'#\d+', '', str(x))


def _rel_text(it: Interp) -> str:
    if not it.relations:
        return ''
    return ' (known: %s)' % '; '.join('%s == %s' % (_clean(l), _clean(r)) for l, r, _q, _d in it.relations)


def _fold(it: Interp, e: ast.AST, env: dict, x: Poly, fname: str, rec_calls: list) -> Poly:
    """fold x -> x*a + b over the list expression e"""
    if isinstance(e, ast.Name) and isinstance(env.get(e.id), object) and e.id in env and isinstance(env[e.id], Sym):
        raise AnalysisError('R-REPEAT-COUNT: small_factors returns a name whose value is not understood: %s' % e.id)
    if isinstance(e, ast.List):
        for el in e.elts:
            if not (isinstance(el, ast.Tuple) and len(el.elts) == 2):
                raise AnalysisError('R-REPEAT-COUNT: small_factors: list element is not a pair: %s' % norm(el))
            av, bv = it.ev(el.elts[0], env), it.ev(el.elts[1], env)
            if not (isinstance(av, Int) and isinstance(bv, Int)):
                raise AnalysisError('R-REPEAT-COUNT: small_factors: pair of non-integers: %s' % norm(el))
            x = x * av.p + bv.p
        return x
    if isinstance(e, ast.BinOp) and isinstance(e.op, ast.Add):
        return _fold(it, e.right, env, _fold(it, e.left, env, x, fname, rec_calls), fname, rec_calls)
    if isinstance(e, ast.Call) and isinstance(e.func, ast.Name) and e.func.id == fname and e.args:
        arg = it.ev(e.args[0], env)
        if not isinstance(arg, Int):
            raise AnalysisError('R-REPEAT-COUNT: small_factors recurses on a non-integer expression')
        if x != 1:
            raise CountViolation('the factors of the recursive call are folded after %s, not first: their fold is the quotient only from 1'
                                 % _clean(x), e)
        rec_calls.append((arg.p, e))
        return arg.p
    raise AnalysisError('R-REPEAT-COUNT: small_factors returns a list expression that is not understood: %s' % norm(e)[:120])


def _min_of(it: Interp, f: FuncInfo, p: Poly, env: dict, facts: list) -> Optional[int]:
    """smallest value of p when p is a constant, or a loop variable over a range with constant lower end"""
    if p.is_const():
        return p.const_value()
    vs = p.vars()
    if len(vs) != 1 or p != Poly.var(next(iter(vs))):
        return None
    name = next(iter(vs))
    for t, pol in facts:
        if pol == 'in-loop' and isinstance(t, ast.For) and isinstance(t.target, ast.Name) and t.target.id == name:
            r = t.iter
            if isinstance(r, ast.Call) and isinstance(r.func, ast.Name) and r.func.id == 'range':
                args = r.args
                step = 1
                if len(args) == 3:
                    sv = it.ev(args[2], env)
                    if not (isinstance(sv, Int) and sv.p.is_const() and sv.p.const_value() != 0):
                        return None
                    step = sv.p.const_value()
                if step > 0:
                    lo = it.ev(args[0], env) if len(args) >= 2 else Int(0)
                    return lo.p.const_value() if isinstance(lo, Int) and lo.p.is_const() else None
                # descending: values are > stop
                stop = it.ev(args[1], env) if len(args) >= 2 else None
                if isinstance(stop, Int) and stop.p.is_const():
                    return stop.p.const_value() + 1
    return None
