"""Findings, obligations, known-findings handling, evidence files, the per-property runner."""
from __future__ import annotations

import json
import os
import sys
import time
import traceback
from pathlib import Path
from typing import Callable, Dict, List, Optional, Sequence

from .model import Repo, AnalysisError, FuncInfo, Module, norm, squash

VERIF = Path(__file__).resolve().parent.parent
# runs against a scratch copy (self-test, seeded changes) must not overwrite the evidence of /repo
EVIDENCE_DIR = (VERIF / 'evidence') if not os.environ.get('VERIF_REPO') else Path(os.environ.get('VERIF_SCRATCH_EVIDENCE', '/tmp/verif-scratch-evidence'))
REPLAY_DIR = EVIDENCE_DIR / 'replay'
KNOWN_FILE = VERIF / 'known_findings.json'


class Finding:
    def __init__(self, rule: str, where: str, construct: str, message: str, file: str = '', line: int = 0,
                 props: Optional[Sequence[str]] = None, path: Optional[List[str]] = None):
        self.rule = rule
        self.where = where                  # module:qualname of the enclosing function / class
        self.construct = squash(construct)  # normalised construct text (never a line number)
        self.message = message
        self.file = file
        self.line = line
        self.props = list(props) if props else None   # None = every property the rule serves
        self.path = path or []

    @property
    def key(self) -> str:
        return '%s :: %s :: %s' % (self.rule, self.where, self.construct)

    def to_json(self) -> dict:
        return {'rule': self.rule, 'where': self.where, 'construct': self.construct, 'message': self.message,
                'file': self.file, 'line': self.line, 'path': self.path, 'key': self.key}

    def diagnostic(self) -> str:
        s = '%s:%s: [%s] %s -- %s  {%s}' % (self.file, self.line, self.rule, self.where, self.message, self.construct)
        if self.path:
            s += '\n    path: ' + ' -> '.join(self.path)
        return s


class RuleResult:
    def __init__(self, rule: str, description: str):
        self.rule = rule
        self.description = description
        self.obligations: List[dict] = []
        self.findings: List[Finding] = []
        self.notes: List[str] = []
        self.tables: Dict[str, object] = {}
        self.controls: List[dict] = []
        self.default_props: Optional[List[str]] = None   # for findings raised without props (None = every property the rule serves)

    def ob(self, site: str, what: str, ok: bool, props: Optional[Sequence[str]] = None, **extra):
        d = {'rule': self.rule, 'site': site, 'what': what, 'ok': bool(ok)}
        props = props if props else self.default_props
        if props:
            d['props'] = list(props)
        d.update(extra)
        self.obligations.append(d)
        return ok

    def finding(self, func_or_where, node, message: str, construct: Optional[str] = None,
                props: Optional[Sequence[str]] = None, path: Optional[List[str]] = None, module: Optional[Module] = None,
                file: Optional[str] = None, line: Optional[int] = None):
        if isinstance(func_or_where, FuncInfo):
            where = func_or_where.qual
            mod = func_or_where.module
        else:
            where = str(func_or_where)
            mod = module
        file = file if file is not None else (mod.relpath if mod is not None else '')
        line = line if line is not None else (getattr(node, 'lineno', 0) if node is not None else 0)
        text = construct if construct is not None else (norm(node) if node is not None else '')
        if len(text) > 300:
            text = text[:300] + '...'
        f = Finding(self.rule, where, text, message, file, line, props if props else self.default_props, path)
        self.findings.append(f)
        return f

    def require_instances(self, n_found: int, n_min: int, what: str):
        if n_found < n_min:
            raise AnalysisError('%s: found %d instances of %s, expected at least %d (confirmed by hand); '
                                'the rule would pass vacuously' % (self.rule, n_found, what, n_min))


class Ctx:
    """What a rule gets: the repository model plus lazily built typer / call graph."""

    def __init__(self, repo: Repo, tier: str = 'quick'):
        self.repo = repo
        self.tier = tier
        self._tc = None

    @property
    def typer(self):
        if self._tc is None:
            from . import facts
            self._tc = facts.build(self.repo)
        return self._tc[0]

    @property
    def cg(self):
        if self._tc is None:
            from . import facts
            self._tc = facts.build(self.repo)
        return self._tc[1]


def load_known() -> List[dict]:
    if not KNOWN_FILE.exists():
        return []
    data = json.loads(KNOWN_FILE.read_text())
    return data.get('findings', [])


def split_known(findings: List[Finding], prop: str):
    known_entries = [e for e in load_known() if e.get('kind') == 'known' and e.get('property') == prop]
    keys = {e['key']: e for e in known_entries}
    known, new = [], []
    for f in findings:
        (known if f.key in keys else new).append(f)
    return known, new, keys


def write_evidence(prop: str, tier: str, seed: int, results: List[RuleResult], findings: List[Finding],
                   known: List[Finding], wall: float, repo: Repo, level_text: str, extra: dict,
                   assumptions: List[str], violations: int):
    EVIDENCE_DIR.mkdir(exist_ok=True)
    obligations = []
    for r in results:
        for o in r.obligations:
            if o.get('props') and prop not in o['props']:
                continue
            obligations.append(o)
    discharged = sum(1 for o in obligations if o['ok'])
    distinct = len({(o['rule'], o['site'], o['what']) for o in obligations})
    samples = obligations[:60]
    per_rule = {}
    for r in results:
        obs = [o for o in r.obligations if not o.get('props') or prop in o['props']]
        per_rule[r.rule] = {
            'description': r.description,
            'obligations': len(obs),
            'discharged': sum(1 for o in obs if o['ok']),
            'findings': [f.to_json() for f in r.findings if f.props is None or prop in f.props],
            'notes': r.notes,
            'tables': r.tables,
            'controls': r.controls,
        }
    cov = {
        'explanation': level_text,
        'evaluations': len(obligations),
        'distinct_nontrivial': distinct,
        'rule': 'static rules over the AST / CFG / call graph of %s; an obligation is one rule instance '
                '(construct x requirement) evaluated on the current working tree; distinct = distinct '
                '(rule, site, requirement) triples, all of which concern a real construct of the tree' % repo.root,
        'samples': samples,
        'obligations': len(obligations),
        'discharged': discharged,
        'checker_cmd': './check %s --tier %s' % (prop, tier),
        'trusted_base': ['CPython ast front end', 'the classification tables inside /verif/sa/rules',
                         'own name/receiver resolution (no mypy available)'],
        'exhaustive': True,
        'analysed': repo.stats(),
        'rules': per_rule,
        'known_findings': [f.to_json() for f in known],
        'new_findings': [f.to_json() for f in findings],
    }
    cov.update(extra)
    ev = {
        'property_id': prop,
        'tier': tier,
        'seed': seed,
        'level': 'other',
        'coverage': cov,
        'assumptions': assumptions,
        'wall_s': round(wall, 3),
        'violations': violations,
    }
    (EVIDENCE_DIR / ('%s.json' % prop)).write_text(json.dumps(ev, indent=1, default=str) + '\n')


def write_replay(prop: str, f: Finding, n: int) -> Path:
    REPLAY_DIR.mkdir(parents=True, exist_ok=True)
    p = REPLAY_DIR / ('%s-%s-%d.json' % (prop, f.rule, n))
    d = f.to_json()
    d['property'] = prop
    p.write_text(json.dumps(d, indent=1) + '\n')
    return p
