"""Serialisation rules [C11]: the constructor and the deserialiser that bypasses it are siblings that
must establish the same object.

R-SERIAL-AGREE   attributes set by __init__ but neither serialised, nor restored by _deserialize / the
                 loader, nor defaulted at class level, must not be read by the post-load API; custom
                 serialize/deserialize pairs agree on keys and tags (parse-table codec).
R-SERIAL-NORM    a serialised field that __init__ normalises to a type utils._serialize does not preserve
                 (frozenset -> list) is re-normalised by _deserialize.
R-SERIAL-NS      every class a serialised field can hold is in the owner's __serialize_namespace__.
R-LOAD-REAPPLY   what the fresh path derives from a load-allowed option and does not serialise is
                 re-derived on the load path.
"""
from __future__ import annotations

import ast
from typing import Dict, List, Optional, Set, Tuple

from ..model import Repo, ClassInfo, FuncInfo, AnalysisError, norm, parent, ancestors, const_str, enclosing_stmt
from ..report import Ctx, RuleResult
from ..exprs import influences, bind_call
from .. import facts

SER = 'lark.utils:Serialize'
LARK = 'lark.lark:Lark'
POST_LOAD_API = ['lark.lark:Lark.parse', 'lark.lark:Lark.parse_interactive', 'lark.lark:Lark.scan', 'lark.lark:Lark.lex',
                 'lark.lark:Lark.get_terminal', 'lark.lark:Lark.save',
                 # the load path itself consumes the restored objects (tree-builder callbacks, lexers)
                 'lark.lark:Lark._load']


def _self_attrs_assigned(f: FuncInfo, follow: bool = True, _seen=None) -> Dict[str, ast.AST]:
    """attr -> value node for `self.attr = v` in f (and in self-methods it calls, one level deep chain)."""
    _seen = _seen if _seen is not None else set()
    if f.qual in _seen:
        return {}
    _seen.add(f.qual)
    sn = f.self_name()
    names = {sn}
    if f.is_classmethod:
        for n in f.body_nodes():
            if isinstance(n, ast.Assign) and len(n.targets) == 1 and isinstance(n.targets[0], ast.Name) and \
                    isinstance(n.value, ast.Call) and '__new__' in norm(n.value.func):
                names.add(n.targets[0].id)
    out: Dict[str, ast.AST] = {}
    for n in f.body_nodes():
        tg = []
        if isinstance(n, ast.Assign):
            tg = [(t, n.value) for t in n.targets]
        elif isinstance(n, ast.AnnAssign) and n.value is not None:
            tg = [(n.target, n.value)]
        for t, v in tg:
            for x in ([t] if not isinstance(t, (ast.Tuple, ast.List)) else t.elts):
                if isinstance(x, ast.Attribute) and isinstance(x.value, ast.Name) and x.value.id in names:
                    out[x.attr] = v
        if follow and isinstance(n, ast.Call) and isinstance(n.func, ast.Attribute) and isinstance(n.func.value, ast.Name) \
                and n.func.value.id in names and f.owner_class is not None:
            m = f.owner_class.find_method(n.func.attr)
            if m is not None and not m.is_property:
                for k, v in _self_attrs_assigned(m, True, _seen).items():
                    out.setdefault(k, v)
    return out


def _reads_of(ctx: Ctx, cls: ClassInfo, attr: str, funcs: List[FuncInfo]) -> List[Tuple[FuncInfo, ast.AST]]:
    ty = ctx.typer
    fam = set(cls.mro()) | set(cls.all_subclasses())
    out = []
    for f in funcs:
        env = ty.env(f)
        for n in f.body_nodes():
            if isinstance(n, ast.Attribute) and n.attr == attr and isinstance(n.ctx, ast.Load):
                rts = ty.expr(f, n.value, env)
                if any(t.startswith('C:') and ctx.repo.classes.get(t[2:]) in fam for t in rts):
                    out.append((f, n))
            elif isinstance(n, ast.Call) and isinstance(n.func, ast.Name) and n.func.id == 'getattr' and len(n.args) >= 2 \
                    and const_str(n.args[1]) == attr and len(n.args) == 2:
                rts = ty.expr(f, n.args[0], env)
                if any(t.startswith('C:') and ctx.repo.classes.get(t[2:]) in fam for t in rts):
                    out.append((f, n))
    return out


def _guarded_by_hasattr(n: ast.AST, attr: str) -> bool:
    """The read is only evaluated when hasattr(x, attr) holds (or sits inside the hasattr call itself)."""
    f = None
    for a in ancestors(n):
        if isinstance(a, (ast.FunctionDef, ast.AsyncFunctionDef)):
            f = a
            break
    if f is None:
        return False
    for c in ast.walk(f):
        if isinstance(c, ast.Call) and isinstance(c.func, ast.Name) and c.func.id == 'hasattr' and len(c.args) == 2 \
                and const_str(c.args[1]) == attr:
            # accept: `if not hasattr(..) or ..: <other> else: <read>`
            for a in ancestors(n):
                if isinstance(a, ast.If) and any(x is c for x in ast.walk(a.test)):
                    return True
    return False


def _guarded_by_flag(n: ast.AST, flag: str) -> bool:
    """read dominated by `if not <x>.<flag>:`"""
    p = n
    for a in ancestors(n):
        if isinstance(a, ast.If) and p in a.body:
            t = a.test
            if isinstance(t, ast.UnaryOp) and isinstance(t.op, ast.Not) and isinstance(t.operand, ast.Attribute) \
                    and t.operand.attr == flag:
                return True
        p = a
    return False


def run_agree(ctx: Ctx) -> RuleResult:
    repo, ty, cg = ctx.repo, ctx.typer, ctx.cg
    res = RuleResult('R-SERIAL-AGREE', '__init__ and the deserialiser establish the same attributes; custom codecs agree')
    ser = repo.cls(SER)
    post = cg.reach([q for q in POST_LOAD_API + facts.INTERACTIVE_API if repo.has_func(q)])
    post_funcs = [repo.functions[q] for q in post]
    # assignments obj.X = v anywhere on the load path (loader functions)
    load_reach = cg.reach(['lark.lark:Lark._load'])
    loader_assigned: Dict[str, Set[str]] = {}
    loader_values: Dict[Tuple[str, str], ast.AST] = {}
    for q in load_reach:
        f = repo.functions[q]
        env = ty.env(f)
        for n in f.body_nodes():
            if isinstance(n, ast.Assign):
                for t in n.targets:
                    if isinstance(t, ast.Attribute) and not (isinstance(t.value, ast.Name) and t.value.id == f.self_name()):
                        for rt in ty.expr(f, t.value, env):
                            if rt.startswith('C:'):
                                loader_assigned.setdefault(rt[2:], set()).add(t.attr)
                                loader_values[(rt[2:], t.attr)] = n.value
    n_classes = 0
    for k in sorted([ser] + ser.all_subclasses(), key=lambda c: c.qual):
        fields = k.literal_attr('__serialize_fields__')
        if fields is None or '__serialize_fields__' not in {a for c in k.mro() for a in c.class_attrs}:
            continue
        if k.qual in (LARK, 'lark.utils:SerializeMemoizer', 'lark.parser_frontends:ParsingFrontend'):
            continue     # Lark: handled below (init vs _load); the frontend is rebuilt through its constructor
        init = k.find_method('__init__')
        if init is None or init.cls is None:
            continue
        custom = k.find_method('deserialize')
        if custom is not None and custom.cls is not ser and custom.cls is not None and custom.cls.qual != SER:
            if k.qual == 'lark.lark:LarkOptions':
                continue     # deserialize = cls(data): goes through __init__
        n_classes += 1
        a_init = _self_attrs_assigned(init)
        fields = [fields] if isinstance(fields, str) else list(fields)
        a_des: Set[str] = set()
        for c in k.mro():
            m = c.methods.get('_deserialize')
            if m is not None:
                a_des |= set(_self_attrs_assigned(m))
        loader = set()
        for c in [k] + k.all_subclasses() + [c for c in k.mro() if c is not ser]:
            loader |= loader_assigned.get(c.qual, set())
        defaults = {a for c in k.mro() for a in c.class_attrs}
        # a class-level default only stands in for an attribute whose constructor value does not depend on the arguments
        iparams = set(init.param_names())
        data_carrying = {a for a, v in a_init.items() if v is not None and iparams & {x.id for x in ast.walk(v) if isinstance(x, ast.Name)}}
        missing = set(a_init) - set(fields) - a_des - loader - (defaults - data_carrying)
        site = '%s %s' % (k.module.loc(k.node), k.qual)
        res.ob(site, '__init__ sets %s; restored: fields %s, _deserialize %s, loader %s' % (
            sorted(a_init), sorted(fields), sorted(a_des), sorted(loader)), True)
        # serialised fields exist as attributes
        for fld in fields:
            ok = fld in a_init or fld in defaults or any(fld in loader_assigned.get(c.qual, set()) for c in k.mro()) \
                or _assigned_elsewhere(ctx, k, fld)
            res.ob(site, 'serialised field %s is an attribute the class really has' % fld, ok)
            if not ok:
                res.finding(k.qual, k.node, 'serialised field %s is never assigned on instances of %s' % (fld, k.name),
                            construct='field:' + fld, module=k.module)
        for attr in sorted(missing):
            reads = _reads_of(ctx, k, attr, post_funcs)
            bad = []
            for f, n in reads:
                if _guarded_by_hasattr(n, attr):
                    continue
                if _guarded_by_flag(n, 'skip_validation') and 'skip_validation' in loader and \
                        _is_true(loader_values.get((k.qual, 'skip_validation'))):
                    continue
                bad.append((f, n))
            ok = not bad
            res.ob(site, 'attribute %s (not restored on load) is not read by the post-load API (%d reads, %d excused)'
                   % (attr, len(reads), len(reads) - len(bad)), ok)
            for f, n in bad[:3]:
                res.finding(f, n, '%s.%s is set by __init__ but not restored when the object is loaded, and is read here '
                            'on the post-load path' % (k.name, attr), construct='%s.%s' % (k.name, attr),
                            path=cg.path_to(post, f.qual))
    res.require_instances(n_classes, 8, 'Serialize classes restored without their constructor')
    _lark_init_vs_load(ctx, res, post, post_funcs)
    _codec(ctx, res)
    return res


def _is_true(v: Optional[ast.AST]) -> bool:
    return isinstance(v, ast.Constant) and v.value is True


def _assigned_elsewhere(ctx: Ctx, k: ClassInfo, attr: str) -> bool:
    ty = ctx.typer
    fam = set(k.mro()) | set(k.all_subclasses())
    for f in ctx.repo.functions.values():
        for n in f.body_nodes():
            if isinstance(n, ast.Assign):
                for t in n.targets:
                    if isinstance(t, ast.Attribute) and t.attr == attr:
                        if any(rt.startswith('C:') and ctx.repo.classes.get(rt[2:]) in fam for rt in ty.expr(f, t.value)):
                            return True
    return False


def _lark_init_vs_load(ctx: Ctx, res: RuleResult, post, post_funcs):
    repo, cg = ctx.repo, ctx.cg
    k = repo.cls(LARK)
    init, load = k.methods.get('__init__'), k.methods.get('_load')
    if init is None or load is None:
        raise AnalysisError('Lark.__init__/_load not found (anchor vanished)')
    a_init = _self_attrs_assigned(init)
    a_load = _self_attrs_assigned(load)
    site = '%s %s' % (load.loc(), load.qual)
    missing = set(a_init) - set(a_load) - {a for c in k.mro() for a in c.class_attrs}
    res.ob(site, 'Lark.__init__ sets %s; Lark._load sets %s' % (sorted(a_init), sorted(a_load)), True)
    for attr in sorted(missing):
        reads = [(f, n) for f, n in _reads_of(ctx, k, attr, post_funcs) if f.qual not in (init.qual,)]
        bad = [(f, n) for f, n in reads if not _guarded_by_hasattr(n, attr)]
        # `grammar` is documented as present only with cache_grammar; its readers are outside the post-load API
        ok = not bad
        res.ob(site, 'Lark.%s (set by __init__, not by _load) is not read by the post-load API' % attr, ok)
        for f, n in bad[:3]:
            res.finding(f, n, 'Lark.%s is not restored by _load but is read on the post-load path' % attr,
                        construct='Lark.' + attr, path=cg.path_to(post, f.qual))
    res.require_instances(len(a_load), 6, 'attributes restored by Lark._load')
    # save() and _load() agree on the container keys
    save = k.methods.get('save')
    keys_w = set()
    for n in save.body_nodes():
        if isinstance(n, ast.Dict) and isinstance(parent(n), ast.Call) and 'dump' in norm(parent(n).func):
            keys_w = {const_str(x) for x in n.keys}
    keys_r = set()
    # the local(s) holding the container: the data parameter and anything assigned from it / from pickle.load(it)
    fparam = load.positional_names()[0] if load.positional_names() else 'f'
    holders = {fparam}
    for n in load.body_nodes():
        if isinstance(n, ast.Assign) and len(n.targets) == 1 and isinstance(n.targets[0], ast.Name):
            v = n.value
            if (isinstance(v, ast.Name) and v.id in holders) or (isinstance(v, ast.Call) and norm(v.func) == 'pickle.load'
                                                                 and v.args and norm(v.args[0]) in holders):
                holders.add(n.targets[0].id)
    data_holders = set()
    for n in load.body_nodes():
        if isinstance(n, ast.Subscript) and isinstance(n.value, ast.Name) and const_str(n.slice) is not None \
                and n.value.id in holders:
            keys_r.add(const_str(n.slice))
            st_ = parent(n)
            if isinstance(st_, ast.Assign) and len(st_.targets) == 1 and isinstance(st_.targets[0], ast.Name) and const_str(n.slice) == 'data':
                data_holders.add(st_.targets[0].id)
    ok = bool(keys_w) and keys_w == keys_r
    res.ob(site, 'save() writes container keys %s and _load() reads %s' % (sorted(keys_w), sorted(keys_r)), ok)
    if not ok:
        res.finding(load, load.node, 'save() writes %s but _load() reads %s' % (sorted(keys_w), sorted(keys_r)),
                    construct='container-keys')
    # data[...] keys read by _load vs Lark.__serialize_fields__ (+ 'grammar' when cache_grammar)
    fields = set(k.literal_attr('__serialize_fields__') or [])
    data_keys = set()
    for q in cg.reach([load.qual]):
        f = repo.functions[q]
        if f.module.name not in ('lark.lark', 'lark.parser_frontends'):
            continue
        for n in f.body_nodes():
            if isinstance(n, ast.Subscript) and isinstance(n.value, ast.Name) and n.value.id in data_holders \
                    and const_str(n.slice) is not None and f.qual == load.qual:
                data_keys.add(const_str(n.slice))
            # ... or without the temporary: <container>['data'][<key>]
            if isinstance(n, ast.Subscript) and isinstance(n.value, ast.Subscript) and isinstance(n.value.value, ast.Name) \
                    and n.value.value.id in holders and const_str(n.value.slice) == 'data' and const_str(n.slice) is not None \
                    and f.qual == load.qual:
                data_keys.add(const_str(n.slice))
    ok = fields <= data_keys | {'grammar'} and data_keys - {'grammar'} <= fields
    res.ob(site, '_load reads data keys %s; Lark serialises %s' % (sorted(data_keys), sorted(fields)), ok)
    if not ok:
        res.finding(load, load.node, '_load reads %s but Lark.__serialize_fields__ is %s' % (sorted(data_keys), sorted(fields)),
                    construct='data-keys')


def _dict_keys_returned(f: FuncInfo) -> Set[str]:
    out = set()
    for n in f.body_nodes():
        if isinstance(n, ast.Return) and isinstance(n.value, ast.Dict):
            out |= {const_str(x) for x in n.value.keys if const_str(x) is not None}
    return out


def _codec(ctx: Ctx, res: RuleResult):
    """ParseTableBase.serialize / deserialize are an encoder/decoder pair."""
    repo = ctx.repo
    k = repo.cls('lark.parsers.lalr_analysis:ParseTableBase')
    enc, dec = k.methods.get('serialize'), k.methods.get('deserialize')
    if enc is None or dec is None:
        raise AnalysisError('ParseTableBase.serialize/deserialize not found (anchor vanished)')
    site = '%s %s' % (dec.loc(), dec.qual)
    wk = _dict_keys_returned(enc)
    dparam = dec.positional_names()[0] if dec.positional_names() else 'data'
    rk = {const_str(n.slice) for n in dec.body_nodes() if isinstance(n, ast.Subscript) and isinstance(n.value, ast.Name)
          and n.value.id == dparam and const_str(n.slice) is not None}
    ok = wk == rk and len(wk) >= 4
    res.ob(site, 'encoder writes keys %s, decoder reads %s' % (sorted(wk), sorted(rk)), ok)
    if not ok:
        res.finding(dec, dec.node, 'parse-table encoder writes %s, decoder reads %s' % (sorted(wk), sorted(rk)), construct='table-keys')
    # action tags
    enc_tags: Dict[str, int] = {}
    for n in enc.body_nodes():
        if isinstance(n, ast.IfExp) and isinstance(n.test, ast.Compare) and isinstance(n.test.ops[0], (ast.Is, ast.Eq)) \
                and isinstance(n.body, ast.Tuple) and isinstance(n.orelse, ast.Tuple):
            name = norm(n.test.comparators[0])
            other = 'Shift' if name == 'Reduce' else 'Reduce'
            try:
                enc_tags[name] = ast.literal_eval(n.body.elts[0])
                enc_tags[other] = ast.literal_eval(n.orelse.elts[0])
                enc_payload_reduce = norm(n.body.elts[1]) if name == 'Reduce' else norm(n.orelse.elts[1])
            except Exception:
                pass
    dec_tags: Dict[str, int] = {}
    dec_payload = {}
    for n in dec.body_nodes():
        if isinstance(n, ast.IfExp) and isinstance(n.test, ast.Compare) and isinstance(n.test.ops[0], ast.Eq) \
                and isinstance(n.body, ast.Tuple) and isinstance(n.orelse, ast.Tuple):
            try:
                tag = ast.literal_eval(n.test.comparators[0])
            except Exception:
                continue
            dec_tags[norm(n.body.elts[0])] = tag
            dec_payload[norm(n.body.elts[0])] = norm(n.body.elts[1])
            dec_payload[norm(n.orelse.elts[0])] = norm(n.orelse.elts[1])
            other_name = norm(n.orelse.elts[0])
            others = [v for v in set(enc_tags.values()) if v != tag]
            if len(others) == 1:
                dec_tags[other_name] = others[0]
    ok = bool(enc_tags) and enc_tags == dec_tags
    res.ob(site, 'action tags: encoder %s, decoder %s' % (enc_tags, dec_tags), ok)
    if not ok:
        res.finding(dec, dec.node, 'encoder tags actions as %s but the decoder reads %s' % (enc_tags, dec_tags), construct='action-tags')
    ok = 'deserialize' in dec_payload.get('Reduce', '') and 'Rule' in dec_payload.get('Reduce', '') \
        and 'deserialize' not in dec_payload.get('Shift', 'deserialize')
    res.ob(site, 'Reduce payload is decoded as a Rule, Shift payload is the state as is', ok)
    if not ok:
        res.finding(dec, dec.node, 'action payloads are not decoded as (Reduce -> Rule, Shift -> state): %s' % dec_payload,
                    construct='action-payload')
    # the decoder hands (states, start_states, end_states) to the constructor in its parameter order
    init = k.find_method('__init__')
    names = init.positional_names() if init is not None else []
    rets = [n.value for n in dec.body_nodes() if isinstance(n, ast.Return) and isinstance(n.value, ast.Call)]
    ok = False
    if rets and names:
        b, _ = bind_call(rets[0], names)
        ok = all(p in b for p in names[:3])
        for p in names[:3]:
            a = b.get(p)
            if a is None:
                ok = False
            elif isinstance(a, ast.Subscript):
                ok = ok and const_str(a.slice) == p
            elif isinstance(a, ast.Name):
                # a local: its definition must be built from data[p]
                defs_ = [x.value for x in dec.body_nodes() if isinstance(x, ast.Assign)
                         and any(isinstance(t, ast.Name) and t.id == a.id for t in x.targets)]
                ok = ok and bool(defs_) and all(any(isinstance(y, ast.Subscript) and const_str(y.slice) == p for y in ast.walk(d)) for d in defs_)
    res.ob(site, 'decoder passes states/start_states/end_states to the constructor under their own names', ok)
    if not ok:
        res.finding(dec, dec.node, 'decoder does not pass the decoded parts to ParseTableBase(%s) consistently' % names, construct='ctor-args')
    # plain keys travel unchanged: 'k': self.k  <->  data['k'] handed to the constructor's k (no re-pairing by position)
    enc_vals = {}
    for n in enc.body_nodes():
        if isinstance(n, ast.Return) and isinstance(n.value, ast.Dict):
            for kk, vv in zip(n.value.keys, n.value.values):
                enc_vals[const_str(kk)] = vv
    for key_ in ('start_states', 'end_states'):
        ev = enc_vals.get(key_)
        okk = ev is not None and norm(ev) == '%s.%s' % (enc.self_name(), key_)
        if rets and names:
            a = bind_call(rets[0], names)[0].get(key_)
            okk = okk and isinstance(a, ast.Subscript) and const_str(a.slice) == key_ and norm(a.value) == dparam
        res.ob(site, 'table part %s is stored as it is and handed back unchanged' % key_, okk)
        if not okk:
            res.finding(dec, dec.node, 'the %s mapping is re-encoded (%s) instead of being stored and restored as the same mapping: '
                        're-pairing by position depends on dictionary order' % (key_, norm(ev) if ev is not None else '?'),
                        construct='codec-plain:' + key_)
    if any(isinstance(n, ast.Call) and isinstance(n.func, ast.Name) and n.func.id == 'zip' for n in dec.body_nodes()):
        res.ob(site, 'the decoder does not pair separately stored sequences by position', False)
        res.finding(dec, dec.node, 'the decoder re-pairs separately stored sequences with zip(): the pairing depends on iteration order at save time',
                    construct='codec-zip')
    # token enumeration: encoder maps name -> index and stores the reverse; decoder indexes it
    tok_locals = {x.targets[0].id for x in dec.body_nodes() if isinstance(x, ast.Assign) and len(x.targets) == 1
                  and isinstance(x.targets[0], ast.Name) and isinstance(x.value, ast.Subscript) and const_str(x.value.slice) == 'tokens'}
    ok = any(isinstance(n, ast.Call) and norm(n.func).endswith('.reversed') for n in enc.body_nodes()) and \
        (any(isinstance(n, ast.Subscript) and isinstance(n.value, ast.Name) and n.value.id in tok_locals for n in dec.body_nodes())
         or any(isinstance(n, ast.Subscript) and isinstance(n.value, ast.Subscript) and const_str(n.value.slice) == 'tokens' for n in dec.body_nodes()))
    res.ob(site, 'token names are enumerated by the encoder (reverse map stored) and looked up by the decoder', ok)
    if not ok:
        res.finding(dec, dec.node, 'token enumeration of the encoder is not inverted by the decoder', construct='token-enum')


# ------------------------------------------------------------------------------------------------
def run_norm(ctx: Ctx) -> RuleResult:
    repo = ctx.repo
    res = RuleResult('R-SERIAL-NORM', 'fields normalised by __init__ to a type that serialisation does not preserve '
                                      'are re-normalised by _deserialize')
    ser_fn = repo.func('lark.utils:_serialize')
    lossy: Dict[str, str] = {}
    for n in ser_fn.body_nodes():
        if isinstance(n, ast.If) and isinstance(n.test, ast.Call) and norm(n.test.func) == 'isinstance' and len(n.test.args) == 2:
            tname = norm(n.test.args[1])
            for st in n.body:
                if isinstance(st, ast.Return) and isinstance(st.value, ast.Call) and isinstance(st.value.func, ast.Name) \
                        and st.value.func.id in ('list', 'tuple', 'dict', 'str') and st.value.func.id != tname:
                    lossy[tname] = st.value.func.id
    res.tables['lossy_conversions_in__serialize'] = lossy
    ok = res.ob(ser_fn.loc(), 'types _serialize converts lossily: %s' % lossy, True)
    ser = repo.cls(SER)
    n_checked = 0
    for k in sorted([ser] + ser.all_subclasses(), key=lambda c: c.qual):
        fields = k.literal_attr('__serialize_fields__')
        if fields is None:
            continue
        fields = [fields] if isinstance(fields, str) else list(fields)
        init = k.find_method('__init__')
        if init is None:
            continue
        a_init = _self_attrs_assigned(init, follow=False)
        for fld in fields:
            v = a_init.get(fld)
            if isinstance(v, ast.Call) and isinstance(v.func, ast.Name) and v.func.id in lossy:
                n_checked += 1
                conv = v.func.id
                restored = False
                for c in k.mro():
                    m = c.methods.get('_deserialize')
                    if m is None:
                        continue
                    vv = _self_attrs_assigned(m, follow=False).get(fld)
                    if isinstance(vv, ast.Call) and isinstance(vv.func, ast.Name) and vv.func.id == conv:
                        restored = True
                site = '%s %s' % (k.module.loc(k.node), k.qual)
                res.ob(site, '%s = %s(...) in __init__ is re-normalised by _deserialize (stored as %s)' % (fld, conv, lossy[conv]), restored)
                if not restored:
                    res.finding(k.qual, init.node, '%s.%s is a %s after construction but a %s after loading: comparisons '
                                'such as subset tests change meaning' % (k.name, fld, conv, lossy[conv]),
                                construct='%s.%s' % (k.name, fld), module=k.module)
    res.require_instances(len(lossy), 1, 'lossy conversions in utils._serialize')
    res.require_instances(n_checked, 1, 'serialised fields normalised to a lossy type')
    return res


# ------------------------------------------------------------------------------------------------
def run_ns(ctx: Ctx) -> RuleResult:
    repo, ty = ctx.repo, ctx.typer
    res = RuleResult('R-SERIAL-NS', 'every Serialize class a serialised field may hold is in __serialize_namespace__ '
                                    '(or memoised)')
    ser = repo.cls(SER)
    lark = repo.cls(LARK)
    # memoised types: Lark.save -> memo_serialize([TerminalDef, Rule])
    memo: Set[str] = set()
    for m in (lark.methods.get('save'),):
        if m is None:
            continue
        for n in m.body_nodes():
            if isinstance(n, ast.Call) and norm(n.func).endswith('memo_serialize') and n.args and isinstance(n.args[0], ast.List):
                for el in n.args[0].elts:
                    kk = repo.resolve_class_expr(m.module, el)
                    if kk is not None:
                        memo.add(kk.qual)
    # the memo namespace used by _load must contain them
    load = lark.methods.get('_load')
    memo_ns = set()
    for n in load.body_nodes():
        if isinstance(n, ast.Call) and 'SerializeMemoizer.deserialize' in norm(n.func) and len(n.args) >= 2 \
                and isinstance(n.args[1], ast.Dict):
            for v in n.args[1].values:
                kk = repo.resolve_class_expr(load.module, v)
                if kk is not None:
                    memo_ns.add(kk.qual)
    ok = memo == memo_ns and len(memo) >= 2
    res.ob(load.loc(), 'memoised types at save %s == memo namespace at load %s' % (sorted(memo), sorted(memo_ns)), ok)
    if not ok:
        res.finding(load, load.node, 'types memoised by save() %s differ from the namespace _load() uses %s'
                    % (sorted(memo), sorted(memo_ns)), construct='memo-namespace')
    n = 0
    for k in sorted([ser] + ser.all_subclasses(), key=lambda c: c.qual):
        fields = k.literal_attr('__serialize_fields__')
        if fields is None or k.qual in (LARK, 'lark.parser_frontends:ParsingFrontend', 'lark.load_grammar:Grammar'):
            continue
        des = k.find_method('deserialize')
        if des is not None and des.cls is not None and des.cls.qual != SER:
            continue
        fields = [fields] if isinstance(fields, str) else list(fields)
        ns_attr = k.find_attr('__serialize_namespace__')
        ns: Set[str] = set()
        if ns_attr is not None:
            v = ns_attr[1]
            for el in (v.elts if isinstance(v, (ast.Tuple, ast.List)) else [v]):
                kk = repo.resolve_class_expr(ns_attr[0].module, el)
                if kk is not None:
                    ns.add(kk.qual)
        for fld in fields:
            ts = ty.field_types(k.qual, fld)
            holds: Set[str] = set()
            for t in ts:
                base = t[2:] if t.startswith('E:') else t
                if base.startswith('C:'):
                    kk = repo.classes.get(base[2:])
                    if kk is not None and ser in kk.mro():
                        for c in [kk] + kk.all_subclasses():
                            if c.literal_attr('__serialize_fields__') is not None and c.owner_func is None:
                                holds.add(c.qual)
            if not holds:
                continue
            n += 1
            need = {h for h in holds if h not in memo or True}
            # memoised objects are replaced by references inside other objects, but the memo itself is decoded
            # with the memo namespace; inside an owner they never need the owner's namespace
            need = {h for h in holds if h not in memo}
            missing = need - ns
            site = '%s %s' % (k.module.loc(k.node), k.qual)
            res.ob(site, 'field %s may hold %s; namespace %s' % (fld, sorted(x.split(':')[1] for x in holds),
                                                                 sorted(x.split(':')[1] for x in ns)), not missing)
            if missing:
                res.finding(k.qual, k.node, 'field %s can hold %s, which deserialisation may not instantiate (not in '
                            '__serialize_namespace__)' % (fld, sorted(missing)), construct='%s.%s' % (k.name, fld), module=k.module)
    res.require_instances(n, 3, 'serialised fields holding Serialize objects')
    return res


# ------------------------------------------------------------------------------------------------
def run_load_reapply(ctx: Ctx) -> RuleResult:
    repo, ty, cg = ctx.repo, ctx.typer, ctx.cg
    res = RuleResult('R-LOAD-REAPPLY', 'what the fresh path derives from a load-allowed option and does not serialise '
                                       'is re-derived on the load path')
    res.default_props = ['C11', 'C12']
    lm = repo.module('lark.lark')
    allowed = set(lm.const('_LOAD_ALLOWED_OPTIONS'))
    defaults = repo.cls('lark.lark:LarkOptions').literal_attr('_defaults')
    if not isinstance(defaults, dict):
        raise AnalysisError('LarkOptions._defaults is not a literal dict')
    ok = allowed <= set(defaults)
    res.ob(lm.relpath, '_LOAD_ALLOWED_OPTIONS %s are all declared options' % sorted(allowed), ok)
    if not ok:
        res.finding('lark.lark', None, 'load-allowed options %s are not declared in LarkOptions._defaults'
                    % sorted(allowed - set(defaults)), construct='allowed-options', module=lm)
    lark = repo.cls(LARK)
    init = lark.methods['__init__']
    load = lark.methods['_load']

    def option_reads(funcs: List[FuncInfo]) -> Dict[str, List[Tuple[FuncInfo, ast.AST]]]:
        out: Dict[str, List[Tuple[FuncInfo, ast.AST]]] = {}
        for f in funcs:
            env = ty.env(f)
            for n in f.body_nodes():
                if isinstance(n, ast.Attribute) and isinstance(n.ctx, ast.Load) and n.attr in defaults:
                    rts = ty.expr(f, n.value, env)
                    if 'C:lark.lark:LarkOptions' in rts or norm(n.value).endswith('options'):
                        out.setdefault(n.attr, []).append((f, n))
        return out

    build_funcs = {q for q in cg.reach([init.qual])
                   if q.split(':')[0] in ('lark.lark', 'lark.parser_frontends')}
    load_funcs = {q for q in cg.reach([load.qual])
                  if q.split(':')[0] in ('lark.lark', 'lark.parser_frontends')}
    fresh = option_reads([repo.functions[q] for q in sorted(build_funcs)])
    onload = option_reads([repo.functions[q] for q in sorted(load_funcs)])
    # LexerConf fields: fresh path = arguments of LexerConf(...) in __init__; load path = assignments in the loader
    lc = repo.cls('lark.common:LexerConf')
    lc_names = lc.find_method('__init__').positional_names()
    lc_fields = set(lc.literal_attr('__serialize_fields__') or [])
    fresh_map: Dict[str, Set[str]] = {}
    for n in init.body_nodes():
        if isinstance(n, ast.Call) and 'T:lark.common:LexerConf' in ty.expr(init, n.func):
            b, _ = bind_call(n, lc_names)
            for p, a in b.items():
                # every option read that the argument depends on (data and control dependence inside __init__)
                opts = {x.attr for x in influences(init, a) if x.attr in defaults and norm(x.value).endswith('options')}
                if opts:
                    fresh_map[p] = opts
    load_map: Dict[str, Set[str]] = {}
    for q in sorted(load_funcs):
        f = repo.functions[q]
        for n in f.body_nodes():
            if isinstance(n, ast.Assign):
                for t in n.targets:
                    if isinstance(t, ast.Attribute) and 'C:lark.common:LexerConf' in ty.expr(f, t.value):
                        opts = {x.attr for x in influences(f, n.value) if x.attr in defaults}
                        load_map.setdefault(t.attr, set()).update(opts)
    res.tables['lexer_conf_fresh'] = {k: sorted(v) for k, v in fresh_map.items()}
    res.tables['lexer_conf_load'] = {k: sorted(v) for k, v in load_map.items()}
    n = 0
    for fld, opts in sorted(fresh_map.items()):
        for o in sorted(opts & allowed):
            if fld in lc_fields:
                continue    # serialised with the data; re-applying it is redundant for equal options
            n += 1
            ok = o in load_map.get(fld, set())
            res.ob(load.loc(), 'LexerConf.%s <- option %s on the fresh path is re-applied on the load path' % (fld, o), ok)
            if not ok:
                res.finding(load, load.node, 'LexerConf.%s is derived from option %s when building, is not serialised, '
                            'and is not re-derived when loading' % (fld, o), construct='LexerConf.%s<-%s' % (fld, o))
    res.require_instances(n, 3, 'non-serialised LexerConf fields derived from load-allowed options')
    # the same option selects the same thing on both paths: `regex` only where the option is set, `re` only where it is not
    from ..exprs import path_conditions
    n_mod = 0
    for q in sorted(build_funcs | load_funcs):
        f = repo.functions[q]
        for a in f.body_nodes():
            if isinstance(a, ast.Assign) and isinstance(a.value, ast.Name) and a.value.id in ('regex', 're'):
                conds = [(t, pol) for t, pol in path_conditions(a) if norm(t).endswith('.regex')]
                n_mod += 1
                want = a.value.id == 'regex'
                ok = bool(conds) and all(pol is want for _t, pol in conds)
                res.ob('%s %s' % (f.loc(a), f.qual), 'the module `%s` is chosen only where option regex is %s' % (a.value.id, want), ok)
                if not ok:
                    res.finding(f, a, 'the regexp module `%s` is selected %s: the %s parser compiles its terminals with the other module than the '
                                'user asked for' % (a.value.id, 'where option regex is %s' % (not want) if conds else 'whatever option regex says',
                                                    'loaded' if q in load_funcs and q not in build_funcs else 'built'),
                                construct='re-module:%s' % a.value.id)
    res.require_instances(n_mod, 4, 'regexp-module selections')
    # the parser object itself: what its constructor takes from the options when building, deserialize() takes when loading
    dpf = repo.func('lark.parser_frontends:_deserialize_parsing_frontend')
    dcalls = [c for c in dpf.body_nodes() if isinstance(c, ast.Call) and isinstance(c.func, ast.Attribute) and c.func.attr == 'deserialize' and c.args
              and norm(c.args[0]).endswith("['parser']")]
    lp_des = repo.cls('lark.parsers.lalr_parser:LALR_Parser').find_method('deserialize')
    if len(dcalls) != 1 or lp_des is None:
        raise AnalysisError('R-LOAD-REAPPLY: cannot find the LALR_Parser.deserialize call of the load path')
    dnames = lp_des.positional_names()
    bound_, _ex = bind_call(dcalls[0], dnames)
    for pn_ in dnames:
        if pn_ in defaults and pn_ in allowed:
            a_ = bound_.get(pn_)
            ok = a_ is not None and any(isinstance(x, ast.Attribute) and x.attr == pn_ and norm(x.value).endswith('options') for x in ast.walk(a_))
            res.ob(dpf.loc(dcalls[0]), 'load path: LALR_Parser.deserialize(..., %s=options.%s)' % (pn_, pn_), ok)
            if not ok:
                res.finding(dpf, dcalls[0], 'option %s is load-allowed and LALR_Parser.deserialize takes it, but the load path does not pass options.%s: the '
                            'loaded parser runs with the default while the options object says otherwise' % (pn_, pn_), construct='deserialize-arg:%s' % pn_)
    for o in sorted(allowed):
        fr = [x for x in fresh.get(o, []) if x[0].qual != init.qual or not _in_cache_block(x[1])]
        if not fr:
            continue
        ok = bool(onload.get(o))
        res.ob(load.loc(), 'option %s: read at %d places while building, %d while loading' % (o, len(fr), len(onload.get(o, []))), ok)
        if not ok:
            res.finding(load, load.node, 'option %s may be passed when loading but nothing on the load path reads it' % o,
                        construct='option:' + o, props=['C11', 'C12'] + (['C15'] if o == 'use_bytes' else []))
    # options that are not load-allowed must be refused by _load
    kwn = load.node.args.kwarg.arg if load.node.args.kwarg else 'kwargs'
    gifs = [n for n in load.body_nodes() if isinstance(n, ast.If) and '_LOAD_ALLOWED_OPTIONS' in norm(n.test) and any(isinstance(x, ast.Raise) for x in ast.walk(n))]
    refuses = False
    if len(gifs) == 1:
        t_ = gifs[0].test
        # "given, not load-allowed, and a real option":  (set(kwargs) - ALLOWED) & set(defaults)   (operands of & in either order)
        if isinstance(t_, ast.BinOp) and isinstance(t_.op, ast.BitAnd):
            sides = [t_.left, t_.right]
            diff_ = [x for x in sides if isinstance(x, ast.BinOp) and isinstance(x.op, ast.Sub) and norm(x.left) == 'set(%s)' % kwn and norm(x.right) == '_LOAD_ALLOWED_OPTIONS']
            dfl_ = [x for x in sides if norm(x) in ('set(LarkOptions._defaults)', 'set(%s._defaults)' % 'LarkOptions', 'LarkOptions._defaults.keys()')]
            refuses = len(diff_) == 1 and len(dfl_) == 1
        elif isinstance(t_, ast.Call) and norm(t_.func) == 'any':
            refuses = '_LOAD_ALLOWED_OPTIONS' in norm(t_) and 'not in' in norm(t_) and '_defaults' in norm(t_)
    elif not gifs:
        pass
    res.ob(load.loc(), '_load refuses options outside _LOAD_ALLOWED_OPTIONS', refuses)
    if not refuses:
        res.finding(load, load.node, '_load no longer refuses options that change how the grammar is compiled', construct='refuse')
    # caller's kwargs override the stored options
    kw = load.node.args.kwarg.arg if load.node.args.kwarg else 'kwargs'
    upd = any(isinstance(n, ast.Call) and isinstance(n.func, ast.Attribute) and n.func.attr == 'update' and isinstance(n.func.value, ast.Name)
              and n.args and norm(n.args[0]) == kw for n in load.body_nodes())
    res.ob(load.loc(), 'options passed at load time override the stored ones', upd)
    if not upd:
        res.finding(load, load.node, 'options given at load time are not merged over the stored options', construct='merge')
    return res


def _in_cache_block(n: ast.AST) -> bool:
    for a in ancestors(n):
        if isinstance(a, ast.If) and 'options.cache' in norm(a.test):
            return True
    return False
