"""R-SHARED-EFFECTS [C10] and R-POSTLEX-RESET [C10 C18].

Every store / subscript store / del / augmented assignment / mutator call in a function reachable from
Lark.parse, lex, scan, parse_interactive or the InteractiveParser API is classified by the *origin* of
the object it writes (an ownership dataflow: fresh in this call chain, owned by a per-call object, or
reachable from the shared Lark instance / a module global / a default argument).  A write to shared
state is accepted only as an atomic, idempotent lazy publication:

  LAZY-ATOMIC        if <obj>.X is None: <obj>.X = <value built before the store>   (no mutation through
                     <obj>.X afterwards in that function)
  PUBLISH-IN-BUILDER <obj>.Y = <fresh local, complete>  inside a function whose only callers are the
                     value expressions of LAZY-ATOMIC stores
  POSTLEX            state of a PostLex implementor that `process` resets (R-POSTLEX-RESET)

Anything else that writes shared state, and any write whose receiver cannot be classified, is reported.
"""
from __future__ import annotations

import ast
from typing import Dict, List, Optional, Set, Tuple

from ..model import Repo, ClassInfo, FuncInfo, AnalysisError, norm, parent, ancestors, enclosing_stmt
from ..report import Ctx, RuleResult
from ..cfg import cfg_of
from .. import facts

MUTATORS = {'append', 'extend', 'add', 'update', 'pop', 'remove', 'clear', 'insert', 'setdefault', 'popleft',
            'discard', 'sort', 'reverse', 'appendleft', 'popitem', 'difference_update', 'intersection_update',
            '__setitem__', '__delitem__', '__setattr__', 'extendleft', 'rotate'}

# Classes whose instances are created inside an entry call and never stored into shared state.
# (Any store *into* a shared object is itself reported by this rule, so membership here cannot be
# subverted silently: making one of these reachable from shared state needs a flagged write.)
PER_CALL = {
    'lark.lexer:LexerThread', 'lark.lexer:LexerState', 'lark.lexer:LineCounter', 'lark.utils:TextSlice',
    'lark.lexer:_TextSlice_WithLineCount', 'lark.parsers.lalr_parser_state:ParseConf',
    'lark.parsers.lalr_parser_state:ParserState', 'lark.parsers.lalr_interactive_parser:InteractiveParser',
    'lark.parsers.lalr_interactive_parser:ImmutableInteractiveParser', 'lark.lexer:Token', 'lark.tree:Tree',
    'lark.tree:SlottedTree', 'lark.tree:Meta', 'lark.parsers.earley_common:Item',
    'lark.parsers.earley_forest:SymbolNode', 'lark.parsers.earley_forest:StableSymbolNode',
    'lark.parsers.earley_forest:PackedNode', 'lark.parsers.earley_forest:TokenNode',
    'lark.parsers.earley_forest:ForestNode',
    'lark.parsers.earley_forest:PackedData', 'lark.parsers.earley_forest:ForestToParseTree',
    'lark.parsers.earley_forest:ForestSumVisitor', 'lark.parsers.earley_forest:ForestTransformer',
    'lark.parsers.earley_forest:ForestVisitor', 'lark.parsers.earley_forest:ForestToPyDotVisitor',
    'lark.parsers.earley_forest:TreeForestTransformer', 'lark.parsers.cyk:RuleNode',
    'lark.parser_frontends:ScanMatch', 'lark.utils:OrderedSet',
}
# Receivers the dataflow cannot type, confirmed by reading (one symbol, one reason per row).
RECEIVER_FACTS = {
    # function -> (shape of a definition of the receiver local, reason)
    'lark.parse_tree_builder:ChildFilterLALR.__call__':
        ('$c[$i].children', 'percall: either a list built here or the child list of a Tree popped from the per-call value stack '
                            '(the documented in-place reuse; fork safety is R-FORK-ALIAS / R-SHALLOW-FORK)'),
    'lark.parse_tree_builder:ChildFilterLALR_NoPlaceholders.__call__':
        ('$c[$i].children', 'percall: same in-place reuse as ChildFilterLALR'),
}
EXC_BASE = 'lark.exceptions:LarkError'
POSTLEX = 'lark.lark:PostLex'
CTOR_NAMES = {'__init__', '__new__', '__post_init__', '_deserialize', '_future_new', 'deserialize'}

FRESH_BUILTINS = {'copy', 'deepcopy', 'list', 'dict', 'set', 'frozenset', 'tuple', 'sorted', 'reversed', 'deque',
                  'defaultdict', 'iter', 'enumerate', 'zip', 'map', 'filter', 'str', 'int', 'len', 'bool', 'float',
                  'bytes', 'range', 'partial', 'repr', 'hash', 'id', 'max', 'min', 'sum', 'any', 'all', 'next',
                  'isinstance', 'hasattr', 'callable', 'type', 'ord', 'chr', 'abs', 'product', 'suppress', 'object'}


class Own:
    """Ownership of the object an expression evaluates to: a set of tags
       'fresh'  allocated in this call chain (constructor, literal, copy, builtin result)
       'shared:<why>'   reachable from state that outlives the call
       'user'   a value handed in by the caller of an entry point
       'elem'   element of a container (classified by its type afterwards)
       'unknown:<why>'"""

    def __init__(self, ctx: Ctx, reach: Dict[str, Optional[str]], resolve_self: bool = False, entries: Optional[List[str]] = None):
        self.resolve_self = resolve_self
        self.entries = set(entries or [])
        self.ctx = ctx
        self.repo = ctx.repo
        self.ty = ctx.typer
        self.cg = ctx.cg
        self.reach = reach
        self._busy: Set[Tuple[str, str]] = set()
        self._memo: Dict[Tuple[str, str], Set[str]] = {}
        self._field_memo: Dict[Tuple[str, str], Set[str]] = {}
        self._cuts = 0
        self._attr_index = None
        self.per_call = set(PER_CALL)
        exc = self.repo.cls(EXC_BASE)
        for k in [exc] + exc.all_subclasses():
            self.per_call.add(k.qual)
        for q in list(self.per_call):
            k = self.repo.classes.get(q)
            if k is None:
                raise AnalysisError('per-call class %s not found (anchor vanished)' % q)

    # -- helpers -----------------------------------------------------------------------------
    def class_kind(self, ts: Set[str]) -> Optional[str]:
        cls = [t[2:] for t in ts if t.startswith('C:')]
        if not cls:
            return None
        kinds = set()
        for q in cls:
            k = self.repo.classes.get(q)
            if k is None:
                continue
            fam = {c.qual for c in k.mro()}
            if q in self.per_call or (fam & self.per_call and not k.qual.startswith('lark.lexer:Lexer')):
                kinds.add('percall')
            elif POSTLEX in fam:
                kinds.add('postlex')
            else:
                kinds.add('shared')
        if 'shared' in kinds:
            return 'shared'
        if 'postlex' in kinds:
            return 'postlex'
        return 'percall' if kinds else None

    def _local_defs(self, f: FuncInfo, name: str) -> Tuple[Optional[FuncInfo], List[Tuple[str, ast.AST]]]:
        """Definitions of local `name`: the function (f or an enclosing one) that binds it and the list of
        (kind, node): ('value', expr) | ('elem', iterable) | ('param', arg) | ('other', node)."""
        g: Optional[FuncInfo] = f
        while g is not None:
            defs: List[Tuple[str, ast.AST]] = []
            for p in g.params():
                if p.arg == name:
                    defs.append(('param', p))
            for n in g.body_nodes():
                if isinstance(n, ast.Assign):
                    for t in n.targets:
                        self._match_target(t, n.value, name, defs)
                elif isinstance(n, ast.AnnAssign) and n.value is not None:
                    self._match_target(n.target, n.value, name, defs)
                elif isinstance(n, ast.AugAssign) and isinstance(n.target, ast.Name) and n.target.id == name:
                    pass     # in-place update of the same object / rebinding of an immutable: no new origin
                elif isinstance(n, (ast.For, ast.comprehension)):
                    if any(isinstance(x, ast.Name) and x.id == name for x in ast.walk(n.target)):
                        defs.append(('elem', n.iter))
                elif isinstance(n, (ast.With,)):
                    for it in n.items:
                        if it.optional_vars is not None and any(isinstance(x, ast.Name) and x.id == name
                                                                for x in ast.walk(it.optional_vars)):
                            defs.append(('value', it.context_expr))
                elif isinstance(n, ast.ExceptHandler) and n.name == name:
                    defs.append(('fresh', n))
                elif isinstance(n, ast.NamedExpr) and isinstance(n.target, ast.Name) and n.target.id == name:
                    defs.append(('value', n.value))
                elif isinstance(n, (ast.FunctionDef, ast.ClassDef)) and n.name == name:
                    defs.append(('fresh', n))
                elif isinstance(n, (ast.Import, ast.ImportFrom)):
                    for a in n.names:
                        if (a.asname or a.name).split('.')[0] == name:
                            defs.append(('global', n))
            if defs:
                return g, defs
            g = g.parent
        return None, []

    def _match_target(self, t: ast.AST, value: ast.AST, name: str, defs):
        if isinstance(t, ast.Name) and t.id == name:
            defs.append(('value', value))
        elif isinstance(t, (ast.Tuple, ast.List)):
            for i, el in enumerate(t.elts):
                if isinstance(el, ast.Starred):
                    el = el.value
                if isinstance(el, ast.Name) and el.id == name:
                    if isinstance(value, (ast.Tuple, ast.List)) and len(value.elts) == len(t.elts):
                        defs.append(('value', value.elts[i]))
                    else:
                        defs.append(('unpack', value))
                elif isinstance(el, (ast.Tuple, ast.List)):
                    self._match_target(el, value, name, defs)

    # -- origin ------------------------------------------------------------------------------
    def origin(self, f: FuncInfo, e: ast.AST, depth: int = 0) -> Set[str]:
        key = (f.qual, '%d:%d:%s' % (getattr(e, 'lineno', 0), getattr(e, 'col_offset', 0), norm(e)))
        if key in self._memo:
            return self._memo[key]
        if key in self._busy or depth > 14:
            self._cuts += 1
            return set()
        self._busy.add(key)
        cuts = self._cuts
        try:
            r = self._origin(f, e, depth)
        finally:
            self._busy.discard(key)
        if self._cuts == cuts:
            self._memo[key] = r      # results computed across a cycle cut are not cached
        return r

    def _origin(self, f: FuncInfo, e: ast.AST, depth: int) -> Set[str]:
        ty = self.ty
        if isinstance(e, (ast.Constant, ast.JoinedStr, ast.Compare, ast.List, ast.Dict, ast.Set, ast.Tuple, ast.ListComp,
                          ast.SetComp, ast.DictComp, ast.GeneratorExp, ast.Lambda, ast.BinOp, ast.UnaryOp)):
            return {'fresh'}
        if isinstance(e, ast.IfExp):
            return self.origin(f, e.body, depth + 1) | self.origin(f, e.orelse, depth + 1)
        if isinstance(e, ast.BoolOp):
            out: Set[str] = set()
            for v in e.values:
                out |= self.origin(f, v, depth + 1)
            return out
        if isinstance(e, ast.NamedExpr):
            return self.origin(f, e.value, depth + 1)
        if isinstance(e, ast.Starred):
            return self.origin(f, e.value, depth + 1)
        if isinstance(e, (ast.Await, ast.Yield, ast.YieldFrom)):
            return {'fresh'}
        if isinstance(e, ast.Call):
            return self._origin_call(f, e, depth)
        if isinstance(e, ast.Name):
            return self._origin_name(f, e.id, depth, e)
        if isinstance(e, ast.Attribute):
            return self._origin_attr(f, e, depth)
        if isinstance(e, ast.Subscript):
            if isinstance(e.slice, ast.Slice):
                return {'fresh'}
            return self._elem_of(f, e.value, depth)
        return {'unknown:expr %s' % type(e).__name__}

    def _elem_of(self, f: FuncInfo, container: ast.AST, depth: int) -> Set[str]:
        # elements of a literal display: the origins of the element expressions
        lit = container
        if isinstance(lit, ast.Name):
            g, defs = self._local_defs(f, lit.id)
            vals = [n for k, n in defs if k == 'value']
            if g is not None and len(defs) == 1 and vals and isinstance(vals[0], (ast.Dict, ast.List, ast.Tuple, ast.Set)):
                lit, f = vals[0], g
        if isinstance(lit, (ast.Dict, ast.List, ast.Tuple, ast.Set)):
            elts = lit.values if isinstance(lit, ast.Dict) else lit.elts
            out0: Set[str] = set()
            for el in elts:
                if el is None:
                    continue
                eo = self.origin(f, el, depth + 1)
                out0 |= {('elem-of-fresh' if t == 'fresh' else t) for t in eo}
            if out0:
                return out0
        o = self.origin(f, container, depth + 1)
        out: Set[str] = set()
        for t in o:
            if t == 'fresh':
                out.add('elem-of-fresh')
            elif t.startswith('elem'):
                out.add(t)
            else:
                out.add(t)
        return out

    def _origin_call(self, f: FuncInfo, e: ast.Call, depth: int) -> Set[str]:
        ty = self.ty
        fn = e.func
        env = ty.env(f)
        if isinstance(fn, ast.Call):   # type(self)(...)
            return {'fresh'}
        if isinstance(fn, ast.Name):
            g, defs = self._local_defs(f, fn.id)
            if not defs and fn.id in FRESH_BUILTINS:
                if fn.id == 'getattr' and len(e.args) >= 2 and isinstance(e.args[1], ast.Constant):
                    fake = ast.Attribute(value=e.args[0], attr=e.args[1].value, ctx=ast.Load())
                    ast.copy_location(fake, e)
                    out = self._origin_attr(f, fake, depth)
                    if len(e.args) > 2:
                        out = out | self.origin(f, e.args[2], depth + 1)
                    return out
                if fn.id == 'next' and e.args:
                    return self._elem_of(f, e.args[0], depth)
                return {'fresh'}
            if fn.id == 'getattr' and not defs and len(e.args) >= 2 and isinstance(e.args[1], ast.Constant):
                fake = ast.Attribute(value=e.args[0], attr=e.args[1].value, ctx=ast.Load())
                ast.copy_location(fake, e)
                out = self._origin_attr(f, fake, depth)
                if len(e.args) > 2:
                    out = out | self.origin(f, e.args[2], depth + 1)
                return out
        ts = ty.expr(f, fn, env)
        if any(t.startswith('T:') for t in ts):
            return {'fresh'}
        targets = [self.repo.functions[t[2:]] for t in ts if t.startswith('F:') and t[2:] in self.repo.functions]
        if isinstance(fn, ast.Attribute) and fn.attr in ('copy', '__copy__', '__deepcopy__', 'union', 'intersection',
                                                          'difference', 'items', 'keys', 'values', 'split', 'rsplit',
                                                          'join', 'format', 'encode', 'decode', 'strip', 'lower',
                                                          'upper', 'replace', 'count', 'index', 'rindex', 'find'):
            if fn.attr in ('items', 'keys', 'values'):
                return self._elem_of(f, fn.value, depth) if fn.attr == 'values' else {'fresh'}
            return {'fresh'}
        if isinstance(fn, ast.Attribute) and fn.attr in ('get', 'pop', 'setdefault', 'popleft') and not targets:
            out = self._elem_of(f, fn.value, depth)
            if len(e.args) > 1:
                out = out | self.origin(f, e.args[1], depth + 1)
            return out
        if not targets:
            return {'fresh'}       # external / builtin / user callback result: a new value for this call
        out: Set[str] = set()
        for t in targets:
            if t.name in CTOR_NAMES and t.name != 'deserialize':
                out.add('fresh')
                continue
            rets = [n.value for n in t.body_nodes() if isinstance(n, ast.Return) and n.value is not None]
            gen = any(isinstance(n, (ast.Yield, ast.YieldFrom)) for n in t.body_nodes())
            if gen or not rets:
                out.add('fresh')
                continue
            for r in rets:
                ro = self.origin(t, r, depth + 1)
                # 'self'-relative results keep their meaning only through the receiver: map 'self' ownership
                out |= {x for x in ro}
        return out or {'fresh'}

    def _reaching(self, g: FuncInfo, name: str, use: ast.AST, defs):
        """Restrict `defs` (all definitions of name in g) to those that can reach the use: the nearest
        preceding definite assignment in an enclosing block kills everything before it."""
        def names_in_target(t):
            return {x.id for x in ast.walk(t) if isinstance(x, ast.Name)}

        def definite(p):
            if isinstance(p, ast.Assign):
                for t in p.targets:
                    if name in names_in_target(t):
                        return True
            if isinstance(p, ast.AnnAssign) and p.value is not None and isinstance(p.target, ast.Name) and p.target.id == name:
                return True
            if isinstance(p, ast.With):
                for it in p.items:
                    if it.optional_vars is not None and name in names_in_target(it.optional_vars):
                        return True
            return False

        def def_nodes_within(p):
            out = set()
            for x in ast.walk(p):
                if isinstance(x, (ast.FunctionDef, ast.AsyncFunctionDef, ast.Lambda)) and x is not p:
                    continue
                out.add(id(x))
            return out

        S = enclosing_stmt(use)
        # the use must belong to g itself (not to a closure inside it)
        own = False
        for a in [S] + list(ancestors(S)):
            if isinstance(a, (ast.FunctionDef, ast.AsyncFunctionDef, ast.Lambda)):
                own = a is g.node
                break
        if not own:
            return defs
        keep_ids = set()
        killed = False
        cur = S
        while True:
            par = parent(cur)
            if par is None:
                break
            block = None
            for field in ('body', 'orelse', 'finalbody', 'handlers'):
                b = getattr(par, field, None)
                if isinstance(b, list) and cur in b:
                    block = b
                    break
            if block is not None and field != 'handlers':
                idx = block.index(cur)
                for p in reversed(block[:idx]):
                    keep_ids |= def_nodes_within(p)
                    if definite(p):
                        killed = True
                        break
                if killed:
                    break
            if isinstance(par, (ast.For, ast.While, ast.AsyncFor)):
                keep_ids |= def_nodes_within(par)     # back edge: anything in the loop may reach
                if isinstance(par, ast.For) and name in names_in_target(par.target) and cur in par.body:
                    killed = True
                    break
            if isinstance(par, (ast.FunctionDef, ast.AsyncFunctionDef, ast.Lambda)):
                break
            if isinstance(par, ast.ExceptHandler) and par.name == name:
                keep_ids.add(id(par))
                killed = True
                break
            cur = par
        out = []
        for kind, node in defs:
            if kind == 'param':
                if not killed:
                    out.append((kind, node))
            elif id(node) in keep_ids:
                out.append((kind, node))
        return out if out else defs

    def _origin_name(self, f: FuncInfo, name: str, depth: int, use: Optional[ast.AST] = None) -> Set[str]:
        g, defs = self._local_defs(f, name)
        if g is not None and use is not None and getattr(use, '_parent', None) is not None:
            defs = self._reaching(g, name, use, defs)
        if g is None:
            r = self.repo.resolve_global(f.module, name)
            if r is None:
                import builtins as _b
                if hasattr(_b, name):
                    return {'fresh'}          # builtin
                return {'shared:global name %s' % name}
            return {'shared:module global %s' % name}
        out: Set[str] = set()
        for kind, node in defs:
            if kind == 'value':
                out |= self.origin(g, node, depth + 1)
            elif kind in ('elem', 'unpack'):
                out |= self._elem_of(g, node, depth)
            elif kind == 'fresh':
                out.add('fresh')
            elif kind == 'global':
                out.add('shared:imported module')
            elif kind == 'param':
                out |= self._origin_param(g, node, depth)
        return out

    def _origin_param(self, g: FuncInfo, p: ast.arg, depth: int) -> Set[str]:
        params = g.params()
        a = g.node.args
        if p is a.vararg or p is a.kwarg:
            return {'fresh'}
        if params and params[0] is p and g.cls is not None and not g.is_staticmethod and not isinstance(g.node, ast.Lambda):
            if g.name in CTOR_NAMES and not g.is_classmethod:
                return {'fresh'}          # object under construction
            if g.is_classmethod or g.name == '__new__':
                return {'shared:class object'}
            if self.resolve_self:
                # whose `self` is it?  the receivers at the call sites inside the analysed region
                out: Set[str] = set()
                if g.qual in self.entries:
                    out.add('entry-self')
                for site in self.cg.callers_of(g.qual):
                    if not isinstance(site.node, ast.Call) or site.func.qual not in self.reach:
                        continue
                    fn = site.node.func
                    recv = None
                    if isinstance(fn, ast.Attribute):
                        rt = self.ty.expr(site.func, fn.value)
                        if any(t.startswith('T:') for t in rt) and site.node.args:
                            recv = site.node.args[0]       # Class.method(obj, ...)
                        elif any(t.startswith('S:') for t in rt):
                            out |= self._origin_name(site.func, site.func.self_name() or 'self', depth + 1)
                            continue
                        else:
                            recv = fn.value
                    if recv is not None:
                        out |= self.origin(site.func, recv, depth + 1)
                return out or {'self'}
            return {'self'}
        out: Set[str] = set()
        # default value
        pos = list(a.posonlyargs) + list(a.args)
        dflt = None
        if p in pos:
            i = pos.index(p) - (len(pos) - len(a.defaults))
            if i >= 0:
                dflt = a.defaults[i]
        elif p in a.kwonlyargs:
            dflt = a.kw_defaults[a.kwonlyargs.index(p)]
        if dflt is not None and not isinstance(dflt, ast.Constant):
            out.add('shared:mutable default argument of %s' % g.qual)
        # arguments at the call sites
        names = g.positional_names()
        found = False
        for site in self.cg.callers_of(g.qual):
            if not isinstance(site.node, ast.Call):
                if site.text.startswith('arg:') or site.kind == 'implicit':
                    out.add('unknown:%s is passed as a callback / called implicitly' % g.qual)
                    found = True
                continue
            if site.func.qual not in self.reach and site.func.qual != g.qual:
                continue
            call = site.node
            arg = None
            idx = names.index(p.arg) if p.arg in names else None
            # bound-method call through an instance: positional args line up with names (self dropped)
            if idx is not None and idx < len(call.args) and not any(isinstance(x, ast.Starred) for x in call.args[:idx + 1]):
                arg = call.args[idx]
            for kw in call.keywords:
                if kw.arg == p.arg:
                    arg = kw.value
            if any(isinstance(x, ast.Starred) for x in call.args) or any(kw.arg is None for kw in call.keywords):
                if arg is None:
                    out.add('unknown:argument passed through * / **')
                    found = True
                    continue
            if arg is None:
                found = True
                continue   # default used
            found = True
            out |= self.origin(site.func, arg, depth + 1)
        if not found:
            if g.qual in facts.ENTRY_POINTS or g.qual in facts.INTERACTIVE_API or g.qual not in self.reach:
                out.add('user')
            else:
                out.add('user')
        return out or {'user'}

    def field_origin(self, cq: str, attr: str, depth: int) -> Set[str]:
        key = (cq, attr)
        if key in self._field_memo:
            return self._field_memo[key]
        self._field_memo[key] = set()
        out: Set[str] = set()
        k = self.repo.classes.get(cq)
        if k is None:
            return {'unknown:class %s' % cq}
        fam = [c for c in k.mro()] + k.all_subclasses()
        if self._attr_index is None:
            self._attr_index = {}
            for f in self.repo.functions.values():
                for n in f.body_nodes():
                    tg = []
                    if isinstance(n, ast.Assign):
                        tg = [(t, n.value) for t in n.targets]
                    elif isinstance(n, ast.AnnAssign) and n.value is not None:
                        tg = [(n.target, n.value)]
                    for t, v in tg:
                        if isinstance(t, ast.Attribute):
                            self._attr_index.setdefault(t.attr, []).append((f, t, v))
        for f, t, v in self._attr_index.get(attr, []):
            rts = self.ty.expr(f, t.value)
            if any(rt.startswith('C:') and self.repo.classes.get(rt[2:]) in fam for rt in rts):
                out |= self.origin(f, v, depth + 1)
        # class-level default value
        ca = k.find_attr(attr)
        if ca is not None and not out:
            if isinstance(ca[1], ast.Constant):
                out.add('fresh')
            else:
                out.add('shared:class attribute %s.%s' % (ca[0].qual, attr))
        self._field_memo[key] = out
        return out

    def _origin_attr(self, f: FuncInfo, e: ast.Attribute, depth: int) -> Set[str]:
        ty = self.ty
        recv_t = ty.expr(f, e.value)
        ro = self.origin(f, e.value, depth + 1)
        if 'entry-self' in ro:
            return {'entry-self'}       # a field of the object the entry point was called on
        kind = self.class_kind(recv_t)
        shared_reasons = {t for t in ro if t.startswith('shared')}
        if shared_reasons:
            return shared_reasons
        if kind == 'shared':
            return {'shared:attribute %s of shared %s' % (e.attr, sorted(t for t in recv_t if t.startswith('C:'))[0][2:])}
        if kind == 'postlex':
            return {'postlex:%s' % e.attr}
        if kind == 'percall' or (ro and ro <= {'fresh'} and any(t.startswith('C:') for t in recv_t)):
            out: Set[str] = set()
            for t in recv_t:
                if t.startswith('C:'):
                    out |= self.field_origin(t[2:], e.attr, depth)
            # a property: origin of what it returns
            for t in recv_t:
                if t.startswith('C:'):
                    k = self.repo.classes.get(t[2:])
                    m = k.find_method(e.attr) if k else None
                    if m is not None and m.is_property:
                        for n in m.body_nodes():
                            if isinstance(n, ast.Return) and n.value is not None:
                                out |= self.origin(m, n.value, depth + 1)
            # 'self'/'user' inside the owning class's methods means "owned by that per-call object";
            # for a field of a per-call object only positive evidence of sharing counts
            out = {('fresh' if (x in ('self', 'user') or x.startswith('unknown')) else x) for x in out}
            return out or {'fresh'}
        if any(t.startswith(('M:', 'X:')) for t in recv_t):
            return {'shared:attribute of module %s' % norm(e.value)}
        if 'self' in ro:
            k = f.owner_class
            if k is not None:
                kk = self.class_kind({'C:' + k.qual})
                if kk == 'shared':
                    return {'shared:attribute %s of shared %s' % (e.attr, k.qual)}
        return {'unknown:attribute %s of untyped %s' % (e.attr, norm(e.value))}


# ------------------------------------------------------------------------------------------------
class Write:
    def __init__(self, f: FuncInfo, stmt: ast.AST, recv: ast.AST, what: str, attr: Optional[str]):
        self.f = f
        self.stmt = stmt
        self.recv = recv       # expression of the object being modified
        self.what = what       # store-attr | store-item | del | aug | mutator:<name> | global
        self.attr = attr       # attribute stored (for store-attr)


def writes_of(f: FuncInfo) -> List[Write]:
    out: List[Write] = []
    globals_decl: Set[str] = set()
    for n in f.body_nodes():
        if isinstance(n, (ast.Global, ast.Nonlocal)):
            globals_decl |= set(n.names)
    for n in f.body_nodes():
        tgts: List[ast.AST] = []
        if isinstance(n, ast.Assign):
            tgts = list(n.targets)
        elif isinstance(n, ast.AnnAssign) and n.value is not None:
            tgts = [n.target]
        elif isinstance(n, ast.AugAssign):
            t = n.target
            if isinstance(t, ast.Name):
                # in-place for mutable objects (list +=, set |=): a write to the object bound to the name
                out.append(Write(f, n, t, 'aug', None))
            else:
                tgts = [t]
        elif isinstance(n, ast.Delete):
            for t in n.targets:
                if isinstance(t, ast.Attribute):
                    out.append(Write(f, n, t.value, 'del', t.attr))
                elif isinstance(t, ast.Subscript):
                    out.append(Write(f, n, t.value, 'del', None))
        elif isinstance(n, (ast.For, ast.comprehension)):
            tgts = [n.target]
        elif isinstance(n, ast.With):
            tgts = [it.optional_vars for it in n.items if it.optional_vars is not None]
        flat: List[ast.AST] = []
        for t in tgts:
            for x in ([t] if not isinstance(t, (ast.Tuple, ast.List)) else list(ast.walk(t))):
                flat.append(x)
        for t in flat:
            if isinstance(t, ast.Attribute) and isinstance(t.ctx, ast.Store):
                out.append(Write(f, n, t.value, 'store-attr', t.attr))
            elif isinstance(t, ast.Subscript) and isinstance(t.ctx, ast.Store):
                out.append(Write(f, n, t.value, 'store-item', None))
            elif isinstance(t, ast.Name) and t.id in globals_decl:
                out.append(Write(f, n, t, 'global', t.id))
        if isinstance(n, ast.Call):
            fn = n.func
            if isinstance(fn, ast.Attribute) and fn.attr in MUTATORS:
                out.append(Write(f, n, fn.value, 'mutator:' + fn.attr, None))
            elif isinstance(fn, ast.Name) and fn.id == 'setattr' and n.args:
                out.append(Write(f, n, n.args[0], 'store-attr', norm(n.args[1]) if len(n.args) > 1 else None))
            elif isinstance(fn, ast.Attribute) and fn.attr == '__setattr__' and n.args:
                out.append(Write(f, n, n.args[0], 'store-attr', norm(n.args[1]) if len(n.args) > 1 else None))
    return out


def _is_none_guard(test: ast.AST, recv_text: str, attr: str) -> bool:
    want = '%s.%s' % (recv_text, attr)
    for c in ast.walk(test):
        if isinstance(c, ast.Compare) and len(c.ops) == 1 and isinstance(c.ops[0], ast.Is) \
                and isinstance(c.comparators[0], ast.Constant) and c.comparators[0].value is None and norm(c.left) == want:
            return True
    return False


def lazy_atomic(w: Write) -> Tuple[bool, str]:
    """if R.X is None: R.X = V  -- single store, V built before the store, no mutation through R.X later."""
    if w.what != 'store-attr' or not isinstance(w.stmt, ast.Assign) or len(w.stmt.targets) != 1:
        return False, 'not a single attribute store'
    recv = norm(w.recv)
    guard = None
    for a in ancestors(w.stmt):
        if isinstance(a, ast.If) and _is_none_guard(a.test, recv, w.attr) and w.stmt in a.body:
            guard = a
            break
        if isinstance(a, (ast.FunctionDef, ast.AsyncFunctionDef)):
            break
    if guard is None:
        return False, 'store is not guarded by `if %s.%s is None`' % (recv, w.attr)
    # no other write through R.X in this function
    path = '%s.%s' % (recv, w.attr)
    for o in writes_of(w.f):
        if o.stmt is w.stmt:
            continue
        if norm(o.recv) == path or norm(o.recv).startswith(path + '.') or norm(o.recv).startswith(path + '['):
            return False, 'the published object is modified through %s after/besides the store' % path
        if o.what == 'store-attr' and o.attr == w.attr and norm(o.recv) == recv:
            return False, 'more than one store to %s' % path
    return True, 'lazy, guarded, single store'


def run_effects(ctx: Ctx) -> RuleResult:
    return _run_effects(ctx, 'R-SHARED-EFFECTS',
                        'every write reachable from parse/lex/scan/parse_interactive and the interactive '
                        'API goes to per-call state or is an atomic idempotent lazy publication',
                        facts.ENTRY_POINTS + [q for q in facts.INTERACTIVE_API if ctx.repo.has_func(q)], full=True)


ACCEPTS_ENTRIES = ['lark.parsers.lalr_interactive_parser:InteractiveParser.accepts',
                   'lark.parsers.lalr_interactive_parser:InteractiveParser.choices']


def run_accepts_pure(ctx: Ctx) -> RuleResult:
    """R-ACCEPTS-PURE [C08 C13]: accepts()/choices() are functions of the current parser state only: no write
    reachable from them outlives the call (no memo keyed by less than the whole stack)."""
    res = _run_effects(ctx, 'R-ACCEPTS-PURE',
                       'accepts()/choices() write nothing that outlives the call (their result depends on the whole stack, '
                       'so it cannot be cached per state); a terminal is recorded only when its trial feed succeeded',
                       [q for q in ACCEPTS_ENTRIES if ctx.repo.has_func(q)], full=False)
    from .fork import accepts_on_success
    accepts_on_success(ctx, res)
    return res


def _run_effects(ctx: Ctx, rule_id: str, description: str, entries: List[str], full: bool) -> RuleResult:
    repo, ty, cg = ctx.repo, ctx.typer, ctx.cg
    res = RuleResult(rule_id, description)
    reach = cg.reach(entries)
    own = Own(ctx, reach, resolve_self=not full, entries=entries)
    n_writes = 0
    shared_writes: List[Tuple[Write, str]] = []
    unknown_writes: List[Tuple[Write, str]] = []
    classified = {'fresh': 0, 'percall': 0, 'ctor-self': 0, 'shared': 0, 'postlex': 0, 'unknown': 0}
    lazy_sites: List[Write] = []
    used_facts: Set[Tuple[str, str]] = set()
    for q in sorted(reach):
        f = repo.functions[q]
        for w in writes_of(f):
            n_writes += 1
            o = own.origin(f, w.recv)
            recv_t = ty.expr(f, w.recv)
            kind = own.class_kind(recv_t)
            site = '%s %s' % (f.loc(w.stmt), f.qual)
            desc = '%s %s' % (w.what, norm(w.recv) + ('.' + w.attr if w.attr and w.what == 'store-attr' else ''))
            shared = sorted(t for t in o if t.startswith('shared'))
            postlex = sorted(t for t in o if t.startswith('postlex'))
            unknown = sorted(t for t in o if t.startswith('unknown'))
            verdict = None
            if 'entry-self' in o:
                res.ob(site, desc + ': modifies the parser it observes', False)
                res.finding(f, w.stmt, 'accepts()/choices() modify the parser they are called on (%s): a result remembered on the parser is '
                            'keyed by less than the whole stack, and observing the parser changes it' % desc,
                            construct='observer-writes:%s %s' % (w.what, norm(w.recv) + (('.' + w.attr) if w.attr and w.what == 'store-attr' else '')),
                            path=cg.path_to(reach, f.qual))
                classified['shared'] += 1
                continue
            fact = RECEIVER_FACTS.get(f.qual)
            if fact is not None and isinstance(w.recv, ast.Name):
                from ..exprs import unify, pat
                defs_ = [x.value for x in f.body_nodes() if isinstance(x, ast.Assign)
                         and any(isinstance(t, ast.Name) and t.id == w.recv.id for t in x.targets)]
                if any(unify(pat(fact[0]), d) is not None and unify(pat(fact[0]), d).get('c') in f.param_names() for d in defs_):
                    used_facts.add(f.qual)
                    classified['percall'] += 1
                    res.ob(site, desc + ': ' + fact[1], True)
                    continue
            if w.what == 'aug' and isinstance(w.recv, ast.Name):
                # augmented assignment to a plain name: in-place only for mutable containers
                if not any(t in ('b:list', 'b:set', 'b:dict', 'b:deque', 'b:defaultdict') or t.startswith('C:') for t in recv_t):
                    classified['fresh'] += 1
                    res.ob(site, desc + ': rebinding of a local', True)
                    continue
            if shared:
                verdict = ('shared', shared[0])
            elif 'self' in o:
                if kind == 'shared':
                    verdict = ('shared', 'shared:self of %s' % f.owner_class.qual)
                elif kind == 'postlex':
                    verdict = ('postlex', '')
                elif kind == 'percall':
                    verdict = ('percall', '')
                else:
                    verdict = ('unknown', 'self of unclassified class')
            elif postlex or kind == 'postlex':
                verdict = ('postlex', '')
            elif o and o <= {'fresh', 'elem-of-fresh', 'user'} and 'fresh' in o and not (o & {'user'}):
                verdict = ('fresh', '')
            elif kind == 'percall':
                verdict = ('percall', '')
            elif kind == 'shared':
                verdict = ('shared', 'shared:object of class %s' % sorted(t for t in recv_t if t.startswith('C:'))[0][2:])
            elif o and o <= {'fresh', 'elem-of-fresh'}:
                verdict = ('fresh', '')
            elif o and o <= {'fresh', 'elem-of-fresh', 'user'}:
                # container handed in by the API caller (or built here): the caller's own object
                verdict = ('fresh', '')
            else:
                verdict = ('unknown', unknown[0] if unknown else 'origin %s' % sorted(o))
            classified[verdict[0]] += 1
            if verdict[0] in ('fresh', 'percall'):
                res.ob(site, desc + ': ' + verdict[0], True)
            elif verdict[0] == 'postlex':
                res.ob(site, desc + ': post-lexer state (reset per stream: R-POSTLEX-RESET)', True)
            elif verdict[0] == 'shared':
                shared_writes.append((w, verdict[1]))
            else:
                unknown_writes.append((w, verdict[1]))
    # -- shared writes: only lazy atomic publications -----------------------------------------
    builders: Dict[str, List[Write]] = {}
    for w, why in shared_writes:
        ok, note = lazy_atomic(w)
        if ok:
            lazy_sites.append(w)
    lazy_value_calls: Set[str] = set()
    for w in lazy_sites:
        v = w.stmt.value
        for t in ty.expr(w.f, v.func) if isinstance(v, ast.Call) else []:
            if t.startswith('F:'):
                lazy_value_calls.add(t[2:])
    for w, why in shared_writes:
        site = '%s %s' % (w.f.loc(w.stmt), w.f.qual)
        desc = '%s %s%s' % (w.what, norm(w.recv), ('.' + w.attr) if w.attr and w.what == 'store-attr' else '')
        ok, note = lazy_atomic(w)
        if ok:
            res.ob(site, desc + ': LAZY-ATOMIC (' + note + ')', True)
            continue
        # PUBLISH-IN-BUILDER
        if w.f.qual in lazy_value_calls and w.what == 'store-attr' and isinstance(w.stmt, ast.Assign) \
                and len(w.stmt.targets) == 1 and isinstance(w.stmt.value, ast.Name):
            callers = [s for s in cg.callers_of(w.f.qual) if isinstance(s.node, ast.Call)]
            only_lazy = all(any(lw.stmt.value is s.node for lw in lazy_sites) for s in callers) and callers
            local = w.stmt.value.id
            lo = own.origin(w.f, w.stmt.value)
            fresh_local = bool(lo) and lo <= {'fresh', 'elem-of-fresh'}
            # the local is not modified after the store, and nothing is modified through the field
            g = cfg_of(w.f.node)
            after = g.reachable([g.node_of(w.stmt)]) - {g.node_of(w.stmt)}
            later = []
            for o2 in writes_of(w.f):
                if o2.stmt is w.stmt:
                    continue
                nid = g.node_of(enclosing_stmt(o2.stmt))
                r = norm(o2.recv)
                path = '%s.%s' % (norm(w.recv), w.attr)
                if r == path or r.startswith(path + '[') or r.startswith(path + '.'):
                    later.append(o2)
                elif r == local and nid in after:
                    later.append(o2)
            if only_lazy and fresh_local and not later:
                res.ob(site, desc + ': PUBLISH-IN-BUILDER (complete fresh value, called only from a lazy guard)', True)
                continue
            note = 'builder publication not atomic: only_lazy_callers=%s fresh_value=%s modified_after_store=%s' % (
                bool(only_lazy), fresh_local, [norm(x.stmt)[:60] for x in later])
        res.ob(site, desc + ': write to shared state', False)
        res.finding(w.f, w.stmt, 'write to state that outlives the call (%s); %s' % (why.split(':', 1)[-1], note),
                    construct='%s %s' % (w.what, norm(w.recv) + (('.' + w.attr) if w.attr and w.what == 'store-attr' else '')),
                    path=cg.path_to(reach, w.f.qual))
    for w, why in unknown_writes:
        site = '%s %s' % (w.f.loc(w.stmt), w.f.qual)
        desc = '%s %s' % (w.what, norm(w.recv))
        res.ob(site, desc + ': receiver cannot be classified', False)
        res.finding(w.f, w.stmt, 'cannot show that this write goes to per-call state (%s)' % why.split(':', 1)[-1],
                    construct='%s %s' % (w.what, norm(w.recv)), path=cg.path_to(reach, w.f.qual))
    stale = set(RECEIVER_FACTS) - used_facts
    if stale and full:
        raise AnalysisError('receiver-facts rows matched nothing (code moved?): %s' % sorted(stale))
    res.tables['receiver_facts'] = {k: '%s: %s' % v for k, v in RECEIVER_FACTS.items()}
    res.tables['reachable_functions'] = len(reach)
    res.tables['writes'] = n_writes
    res.tables['classification'] = classified
    res.tables['lazy_publications'] = ['%s.%s in %s' % (norm(w.recv), w.attr, w.f.qual) for w in lazy_sites]
    if full:
        res.require_instances(len(reach), 150, 'functions reachable from the entry points')
        res.require_instances(n_writes, 150, 'write sites in reachable functions')
        res.require_instances(len(lazy_sites), 2, 'lazy publications (scanner caches)')
    else:
        res.require_instances(len(reach), 10, 'functions reachable from accepts()')
        res.require_instances(n_writes, 8, 'write sites reachable from accepts()')
    return res


# ------------------------------------------------------------------------------------------------
def _self_fields_written(repo: Repo, ty, f: FuncInfo, seen: Set[str]) -> Set[str]:
    """self fields written (stored or mutated) by f and by the self-methods it calls."""
    if f.qual in seen:
        return set()
    seen.add(f.qual)
    sn = f.self_name()
    out: Set[str] = set()
    for w in writes_of(f):
        r = w.recv
        if w.what == 'store-attr' and isinstance(r, ast.Name) and r.id == sn:
            out.add(w.attr)
        else:
            # mutation through self.X...
            while isinstance(r, (ast.Attribute, ast.Subscript)):
                if isinstance(r, ast.Attribute) and isinstance(r.value, ast.Name) and r.value.id == sn:
                    out.add(r.attr)
                    break
                r = r.value
    for n in f.body_nodes():
        if isinstance(n, ast.Call) and isinstance(n.func, ast.Attribute) and isinstance(n.func.value, ast.Name) \
                and n.func.value.id == sn and f.owner_class is not None:
            for m in f.owner_class.dispatch(n.func.attr):
                out |= _self_fields_written(repo, ty, m, seen)
    return out


def run_postlex_reset(ctx: Ctx) -> RuleResult:
    repo, ty = ctx.repo, ctx.typer
    res = RuleResult('R-POSTLEX-RESET', 'every field a PostLex implementor modifies while streaming is re-initialised '
                                        'by process() before it hands out the stream')
    base = repo.cls(POSTLEX)
    impls = [k for k in base.all_subclasses() if 'process' in k.methods]
    res.require_instances(len(impls), 1, 'PostLex implementors with a process method')
    for k in impls:
        proc = k.methods['process']
        sn = proc.self_name()
        # fields assigned at the top level of process (on every path: top-level statements before the return)
        reset: Set[str] = set()
        ret_seen = False
        for st in proc.node.body:
            if isinstance(st, ast.Return):
                ret_seen = True
                break
            if isinstance(st, ast.Assign):
                for t in st.targets:
                    if isinstance(t, ast.Attribute) and isinstance(t.value, ast.Name) and t.value.id == sn:
                        reset.add(t.attr)
        # streaming functions: everything process calls on self, transitively
        written: Set[str] = set()
        seen: Set[str] = {proc.qual}
        for n in proc.body_nodes():
            if isinstance(n, ast.Call) and isinstance(n.func, ast.Attribute) and isinstance(n.func.value, ast.Name) \
                    and n.func.value.id == sn:
                for m in k.dispatch(n.func.attr):
                    written |= _self_fields_written(repo, ty, m, seen)
        site = '%s %s' % (proc.loc(), proc.qual)
        for fld in sorted(written):
            ok = fld in reset
            res.ob(site, 'streaming state %s is reset at the start of every stream' % fld, ok)
            if not ok:
                res.finding(proc, proc.node, 'field %s is modified while streaming but process() does not reset it: '
                            'a stream abandoned half-way leaks into the next one' % fld, construct='no-reset:' + fld)
        # the reset values equal the constructor's initial values
        init = k.find_method('__init__')
        if init is not None:
            init_vals = {}
            for n in init.body_nodes():
                if isinstance(n, ast.Assign):
                    for t in n.targets:
                        if isinstance(t, ast.Attribute) and isinstance(t.value, ast.Name) and t.value.id == init.self_name():
                            init_vals[t.attr] = norm(n.value)
            for st in proc.node.body:
                if isinstance(st, ast.Assign):
                    for t in st.targets:
                        if isinstance(t, ast.Attribute) and isinstance(t.value, ast.Name) and t.value.id == sn \
                                and t.attr in init_vals:
                            ok = norm(st.value) == init_vals[t.attr]
                            res.ob(site, 'reset value of %s equals its initial value %s' % (t.attr, init_vals[t.attr]), ok)
                            if not ok:
                                res.finding(proc, st, 'process() resets %s to %s but a fresh object starts with %s' % (
                                    t.attr, norm(st.value), init_vals[t.attr]))
        # a field that is updated in place (append / pop / += on a container) must be reset to a *fresh* object: a display or a
        # constructor call, never a shared one (class attribute, module constant) -- or every stream, and every object, appends
        # to the same list
        inplace: Set[str] = set()
        for m in k.swept_methods():
            msn = m.self_name()
            for n in m.body_nodes():
                if isinstance(n, ast.Call) and isinstance(n.func, ast.Attribute) and n.func.attr in MUTATORS \
                        and isinstance(n.func.value, ast.Attribute) and isinstance(n.func.value.value, ast.Name) and n.func.value.value.id == msn:
                    inplace.add(n.func.value.attr)
        for fn_ in [proc] + ([init] if init is not None else []):
            fsn = fn_.self_name()
            for st in fn_.body_nodes():
                if isinstance(st, ast.Assign):
                    for t in st.targets:
                        if isinstance(t, ast.Attribute) and isinstance(t.value, ast.Name) and t.value.id == fsn and t.attr in inplace:
                            fresh = isinstance(st.value, (ast.List, ast.Dict, ast.Set, ast.ListComp, ast.DictComp, ast.SetComp)) or (
                                isinstance(st.value, ast.Call) and isinstance(st.value.func, ast.Name) and st.value.func.id in (
                                    'list', 'dict', 'set', 'deque', 'copy', 'deepcopy'))
                            res.ob('%s %s' % (fn_.module.loc(st), fn_.qual), '%s, which is updated in place, is (re)initialised with a fresh object' % t.attr, fresh)
                            if not fresh:
                                res.finding(fn_, st, '%s is updated in place while streaming but is initialised from %s, an object that is not created '
                                            'here: all streams (and all objects of the class) then modify one shared container' % (t.attr, norm(st.value)),
                                            construct='shared-initial:%s' % t.attr)
        res.tables[k.qual] = {'reset': sorted(reset), 'written_while_streaming': sorted(written)}
        if len(written) < 1:
            res.notes.append('%s writes no state while streaming' % k.qual)
    # the post-lexer sees every stream: where the library applies it, the only condition is that there is one
    from ..exprs import path_conditions
    n_apply = 0
    for fq in ('lark.lark:Lark.lex', 'lark.parser_frontends:PostLexConnector.lex'):
        if not repo.has_func(fq):
            continue
        f = repo.func(fq)
        for c in f.body_nodes():
            if isinstance(c, ast.Call) and isinstance(c.func, ast.Attribute) and c.func.attr == 'process' and 'postlex' in norm(c.func.value):
                n_apply += 1
                conds = path_conditions(enclosing_stmt(c))
                parts = []
                for t, pol in conds:
                    parts += list(t.values) if (pol and isinstance(t, ast.BoolOp) and isinstance(t.op, ast.And)) else [t]
                extra = [norm(t) for t in parts if 'postlex' not in norm(t)]
                ok = not extra
                res.ob('%s %s' % (f.module.loc(c), f.qual), 'the post-lexer is applied whenever there is one (conditions: %s)' % [norm(t) for t, _ in conds], ok)
                if not ok:
                    res.finding(f, enclosing_stmt(c), 'the post-lexer is skipped under %s: that stream reaches the caller without INDENT/DEDENT '
                                '(and with the newlines inside brackets)' % extra, construct='postlex-skipped')
    res.require_instances(n_apply, 2, 'sites applying the post-lexer')
    return res


LOAD_ENTRIES = ['lark.lark:Lark._load', 'lark.lark:Lark._load_from_dict', 'lark.lark:Lark.load']


def run_load_pure(ctx: Ctx) -> RuleResult:
    """R-LOAD-PURE [C11]: loading does not modify the data it loads from (the dictionaries handed to _load /
    _load_from_dict are shared: the stand-alone module's DATA/MEMO are module globals used by every instance)."""
    repo, ty, cg = ctx.repo, ctx.typer, ctx.cg
    res = RuleResult('R-LOAD-PURE', 'the load path never writes into the data it was given')
    entries = [q for q in LOAD_ENTRIES if repo.has_func(q)]
    reach = cg.reach(entries)
    own = Own(ctx, reach)
    n = 0
    for q in sorted(reach):
        f = repo.functions[q]
        if f.module.name not in ('lark.lark', 'lark.utils', 'lark.parser_frontends', 'lark.parsers.lalr_parser',
                                 'lark.parsers.lalr_analysis', 'lark.common', 'lark.lexer', 'lark.grammar'):
            continue
        for w in writes_of(f):
            if w.what == 'aug' and isinstance(w.recv, ast.Name):
                continue
            n += 1
            o = own.origin(f, w.recv)
            site = '%s %s' % (f.loc(w.stmt), f.qual)
            bad = 'user' in o and not (o & {'self'})
            # `self` of the entry methods is the instance being loaded: not input data
            if isinstance(w.recv, ast.Name) and w.recv.id == f.self_name():
                bad = False
            res.ob(site, '%s %s: receiver is not the caller\'s data (origin %s)' % (w.what, norm(w.recv), sorted(o)), not bad)
            if bad:
                res.finding(f, w.stmt, 'the load path modifies %s, which is (part of) the data it was asked to load: the stand-alone '
                            'module\'s DATA/MEMO and a caller\'s dictionary are shared by later loads, which then inherit this '
                            'instance\'s options' % norm(w.recv), construct='writes-input:%s %s' % (w.what, norm(w.recv)),
                            path=cg.path_to(reach, f.qual))
    res.require_instances(n, 15, 'writes on the load path')
    return res


# ------------------------------------------------------------------------------------------------
# Per-call classes that are plain data values: a shared object may hold them (grammar trees, templates, analysis sets);
# what R-SHARED-EFFECTS assumes is only that the *stateful machinery* below is never reachable from shared state.
PER_CALL_VALUES = {
    'lark.tree:Tree': 'grammar / template trees are data held by the loader and by tree templates',
    'lark.tree:SlottedTree': 'same as Tree',
    'lark.lexer:Token': 'tokens are immutable strings; grammar trees and tree matchers hold them',
    'lark.tree:Meta': 'position record of a data tree',
    'lark.utils:OrderedSet': 'a container used by grammar analysis for its (construction-time) item sets',
    'lark.utils:TextSlice': 'immutable view of the input',
}


def run_percall_escape(ctx: Ctx) -> RuleResult:
    """R-PERCALL-ESCAPE [C10]: the ownership analysis treats instances of the per-call classes (lexer/parser state,
    forest visitors, ...) as owned by one parse.  That holds only if no such instance is ever stored in a field of
    an object that outlives the call -- in particular not by a constructor, which the per-call region does not
    cover.  Every field of every long-lived class is listed with the classes its stores can hold."""
    repo = ctx.repo
    ty = ctx.typer
    own = Own(ctx, {})
    res = RuleResult('R-PERCALL-ESCAPE', 'no field of a long-lived object holds per-call machinery (lexer/parser state, forest visitors)')
    n = 0
    for (cq, attr), ts in sorted(ty.fields.items()):
        kind = own.class_kind({'C:' + cq})
        if kind in ('percall', None):
            continue
        n += 1
        hits = set()
        for t in ts:
            core = t
            while core.startswith(('E:', 'K:')):
                core = core[2:]
            if core.startswith('C:') and core[2:] not in PER_CALL_VALUES and own.class_kind({core}) == 'percall' \
                    and not _is_exception(repo, core[2:]):
                hits.add(core[2:])
        k = repo.classes[cq]
        ok = not hits
        res.ob('%s %s.%s' % (k.module.loc(k.node), cq, attr), 'field of a long-lived class holds no per-call machinery (holds %s)'
               % (sorted(x for x in ts if x.startswith(('C:', 'E:C:')))[:3] or 'no class instance'), ok)
        if not ok:
            # the stores themselves, for the report
            where = None
            for f in repo.functions.values():
                for node in f.body_nodes():
                    if isinstance(node, ast.Assign):
                        for t in node.targets:
                            if isinstance(t, ast.Attribute) and t.attr == attr and ('C:' + cq) in ty.expr(f, t.value):
                                where = (f, node)
            msg = ('%s.%s holds an instance of %s: state that the analysis (and the code) treats as owned by one parse is shared by every '
                   'call on the same object -- re-entrant or concurrent parse() calls see each other\'s state' % (cq, attr, ', '.join(sorted(hits))))
            if where is not None:
                res.finding(where[0], where[1], msg, construct='escape:%s.%s<-%s' % (cq.split(':')[1], attr, ','.join(sorted(h.split(':')[1] for h in hits))))
            else:
                res.finding(cq, k.node, msg, construct='escape:%s.%s<-%s' % (cq.split(':')[1], attr, ','.join(sorted(h.split(':')[1] for h in hits))),
                            module=k.module)
    res.require_instances(n, 150, 'fields of long-lived classes')
    return res


def _is_exception(repo: Repo, q: str) -> bool:
    k = repo.classes.get(q)
    return k is not None and any(c.qual == EXC_BASE for c in k.mro())


# ------------------------------------------------------------------------------------------------
def _tree_positions(ann: ast.AST) -> Optional[List[Tuple[int, ...]]]:
    """For an annotation List[Tuple[...]] return the index paths of the Tree components of the element tuple."""
    if not (isinstance(ann, ast.Subscript) and norm(ann.value) in ('List', 'list', 'Sequence')):
        return None
    out: List[Tuple[int, ...]] = []

    def walk(t: ast.AST, path: Tuple[int, ...]):
        if isinstance(t, ast.Subscript) and norm(t.value) in ('Tuple', 'tuple'):
            elts = t.slice.elts if isinstance(t.slice, ast.Tuple) else [t.slice]
            for i, el in enumerate(elts):
                walk(el, path + (i,))
        elif isinstance(t, ast.Name) and t.id == 'Tree':
            out.append(path)
        elif isinstance(t, ast.Subscript) and norm(t.value) == 'Optional':
            walk(t.slice, path)
    walk(ann.slice, ())
    return out


def _target_at(t: ast.AST, path: Tuple[int, ...]) -> Optional[ast.AST]:
    for i in path:
        if not isinstance(t, (ast.Tuple, ast.List)) or i >= len(t.elts):
            return None
        t = t.elts[i]
    return t


COPY_FUNCS = {'nr_deepcopy_tree', 'deepcopy'}


def run_compile_copies(ctx: Ctx) -> RuleResult:
    """R-COMPILE-COPIES [C10]: Grammar.compile rewrites definition trees in place (anonymous tokens, EBNF expansion,
    simplification).  A Grammar object can be compiled more than once (Lark(other.grammar), the second compile for
    postlex.always_accept, Reconstructor / TreeMatcher), so every tree that compile reads from the Grammar object must
    be deep-copied first; otherwise an instance depends on which instances were created before it."""
    repo = ctx.repo
    res = RuleResult('R-COMPILE-COPIES', 'Grammar.compile deep-copies every definition tree it takes from the (re-usable) Grammar object')
    k = repo.cls('lark.load_grammar:Grammar')
    comp = k.methods.get('compile')
    if comp is None:
        raise AnalysisError('Grammar.compile not found (anchor vanished)')
    sn = comp.self_name()
    fields: Dict[str, List[Tuple[int, ...]]] = {}
    for n in k.node.body:
        if isinstance(n, ast.AnnAssign) and isinstance(n.target, ast.Name):
            pos = _tree_positions(n.annotation)
            if pos:
                fields[n.target.id] = pos
    res.require_instances(len(fields), 2, 'Grammar fields annotated as lists of tuples holding a Tree')
    n_reads = 0
    for n in comp.body_nodes():
        if not (isinstance(n, ast.Attribute) and isinstance(n.value, ast.Name) and n.value.id == sn and n.attr in fields
                and isinstance(n.ctx, ast.Load)):
            continue
        n_reads += 1
        site = '%s %s' % (comp.module.loc(n), comp.qual)
        p = parent(n)
        ok, why = False, 'it is not the iterable of a copying comprehension'
        if isinstance(p, ast.comprehension) and p.iter is n:
            lc = parent(p)
            if isinstance(lc, (ast.ListComp, ast.GeneratorExp)) and len(lc.generators) == 1:
                ok = True
                for path in fields[n.attr]:
                    tv = _target_at(p.target, path)
                    if not isinstance(tv, ast.Name):
                        ok, why = False, 'the tree component %s of the element is not bound to a name of its own' % (path,)
                        break
                    uses = [x for x in ast.walk(lc.elt) if isinstance(x, ast.Name) and x.id == tv.id]
                    uses += [x for c in p.ifs for x in ast.walk(c) if isinstance(x, ast.Name) and x.id == tv.id and False]
                    for u in uses:
                        c = parent(u)
                        if not (isinstance(c, ast.Call) and isinstance(c.func, ast.Name) and c.func.id in COPY_FUNCS and c.args and c.args[0] is u):
                            ok, why = False, 'the tree `%s` is passed on without a deep copy' % tv.id
                    if not uses:
                        ok, why = False, 'the tree `%s` is dropped' % tv.id
                    if not ok:
                        break
        res.ob(site, 'the trees of %s.%s are deep-copied before compile rewrites them' % (k.name, n.attr), ok)
        if not ok:
            res.finding(comp, enclosing_stmt(n), 'Grammar.compile uses the trees of self.%s without copying them (%s): compile rewrites them in place, '
                        'so the next Lark built from the same Grammar object gets the rewritten trees' % (n.attr, why),
                        construct='compile-shares-trees:' + n.attr)
    res.require_instances(n_reads, 2, 'reads of tree-holding Grammar fields in compile')
    return res
