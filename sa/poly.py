"""Integer polynomials in named symbols: the arithmetic of the count algebra (R-REPEAT-COUNT).

Identities such as  (i + 1)*T == i*T + T  are decided by normal form (a dict monomial -> coefficient), nothing is searched
and nothing is solved: two polynomials are the same function on the integers iff their normal forms are equal."""
from __future__ import annotations

from typing import Dict, Tuple, Optional, Set

Mon = Tuple[Tuple[str, int], ...]


def _mul_mon(a: Mon, b: Mon) -> Mon:
    d: Dict[str, int] = dict(a)
    for v, e in b:
        d[v] = d.get(v, 0) + e
    return tuple(sorted((v, e) for v, e in d.items() if e))


class Poly:
    __slots__ = ('t',)

    def __init__(self, terms: Optional[Dict[Mon, int]] = None):
        self.t: Dict[Mon, int] = {m: c for m, c in (terms or {}).items() if c}

    @staticmethod
    def const(c: int) -> 'Poly':
        return Poly({(): int(c)})

    @staticmethod
    def var(name: str) -> 'Poly':
        return Poly({((name, 1),): 1})

    @staticmethod
    def lift(x) -> 'Poly':
        return x if isinstance(x, Poly) else Poly.const(x)

    def __add__(self, o) -> 'Poly':
        o = Poly.lift(o)
        d = dict(self.t)
        for m, c in o.t.items():
            d[m] = d.get(m, 0) + c
        return Poly(d)

    __radd__ = __add__

    def __neg__(self) -> 'Poly':
        return Poly({m: -c for m, c in self.t.items()})

    def __sub__(self, o) -> 'Poly':
        return self + (-Poly.lift(o))

    def __rsub__(self, o) -> 'Poly':
        return Poly.lift(o) - self

    def __mul__(self, o) -> 'Poly':
        o = Poly.lift(o)
        d: Dict[Mon, int] = {}
        for m1, c1 in self.t.items():
            for m2, c2 in o.t.items():
                m = _mul_mon(m1, m2)
                d[m] = d.get(m, 0) + c1 * c2
        return Poly(d)

    __rmul__ = __mul__

    def __eq__(self, o) -> bool:
        if not isinstance(o, (Poly, int)):
            return NotImplemented
        return self.t == Poly.lift(o).t

    def __ne__(self, o) -> bool:
        r = self.__eq__(o)
        return r if r is NotImplemented else not r

    def __hash__(self):
        return hash(frozenset(self.t.items()))

    def is_const(self) -> bool:
        return all(m == () for m in self.t)

    def const_value(self) -> int:
        assert self.is_const()
        return self.t.get((), 0)

    def vars(self) -> Set[str]:
        return {v for m in self.t for v, _ in m}

    def subst(self, var: str, by) -> 'Poly':
        by = Poly.lift(by)
        out = Poly()
        for m, c in self.t.items():
            term = Poly.const(c)
            for v, e in m:
                base = by if v == var else Poly.var(v)
                for _ in range(e):
                    term = term * base
            out = out + term
        return out

    def subst_product(self, v1: str, v2: str, by) -> 'Poly':
        """Replace the product v1*v2 (each to the first power) by `by` in every monomial that holds both."""
        by = Poly.lift(by)
        out = Poly()
        for m, c in self.t.items():
            d = dict(m)
            if d.get(v1) == 1 and d.get(v2) == 1:
                rest = tuple(sorted((v, e) for v, e in d.items() if v not in (v1, v2)))
                out = out + Poly({rest: c}) * by
            else:
                out = out + Poly({m: c})
        return out

    def __str__(self) -> str:
        if not self.t:
            return '0'
        parts = []
        for m, c in sorted(self.t.items(), key=lambda mc: (-sum(e for _, e in mc[0]), mc[0])):
            mon = '*'.join(v if e == 1 else '%s^%d' % (v, e) for v, e in m)
            if not mon:
                s = str(abs(c))
            elif abs(c) == 1:
                s = mon
            else:
                s = '%d*%s' % (abs(c), mon)
            parts.append(('-' if c < 0 else '+', s))
        out = ''
        for k, (sg, s) in enumerate(parts):
            if k == 0:
                out = ('-' if sg == '-' else '') + s
            else:
                out += ' %s %s' % (sg, s)
        return out

    __repr__ = __str__
