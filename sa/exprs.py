"""Small expression utilities: linear normal forms (a dataflow value domain, not symbolic execution of
paths), argument binding, boolean-context detection."""
from __future__ import annotations

import ast
from typing import Dict, List, Optional, Tuple

from .model import norm, FuncInfo, ClassInfo, parent

Lin = Dict[str, int]     # atom text -> coefficient; '' is the constant term


def lin_add(a: Lin, b: Lin, sign: int = 1) -> Lin:
    out = dict(a)
    for k, v in b.items():
        out[k] = out.get(k, 0) + sign * v
        if out[k] == 0:
            del out[k]
    return out


def linear(e: ast.AST, subst: Optional[Dict[str, Lin]] = None) -> Lin:
    """Linear normal form of an integer expression.  Non-arithmetic sub-expressions are atoms keyed by
    their normalised text; `subst` maps atom text to a linear form to substitute (def-use chase)."""
    subst = subst or {}
    if isinstance(e, ast.Constant) and isinstance(e.value, int) and not isinstance(e.value, bool):
        return {'': e.value} if e.value else {}
    if isinstance(e, ast.BinOp) and isinstance(e.op, (ast.Add, ast.Sub)):
        return lin_add(linear(e.left, subst), linear(e.right, subst), 1 if isinstance(e.op, ast.Add) else -1)
    if isinstance(e, ast.UnaryOp) and isinstance(e.op, ast.USub):
        return lin_add({}, linear(e.operand, subst), -1)
    if isinstance(e, ast.UnaryOp) and isinstance(e.op, ast.UAdd):
        return linear(e.operand, subst)
    if isinstance(e, ast.BinOp) and isinstance(e.op, ast.Mult):
        l, r = linear(e.left, subst), linear(e.right, subst)
        if set(l) <= {''}:
            c = l.get('', 0)
            return {k: v * c for k, v in r.items() if v * c}
        if set(r) <= {''}:
            c = r.get('', 0)
            return {k: v * c for k, v in l.items() if v * c}
    key = norm(e)
    if key in subst:
        return dict(subst[key])
    return {key: 1}


def lin_str(l: Lin) -> str:
    if not l:
        return '0'
    parts = []
    for k in sorted(l, key=lambda x: (x == '', x)):
        v = l[k]
        if k == '':
            parts.append('%+d' % v)
        elif v == 1:
            parts.append('+' + k)
        elif v == -1:
            parts.append('-' + k)
        else:
            parts.append('%+d*%s' % (v, k))
    return ' '.join(parts).lstrip('+')


def dataclass_fields(k: ClassInfo) -> List[str]:
    out: List[str] = []
    for c in reversed(k.mro()):
        for n in c.node.body:
            if isinstance(n, ast.AnnAssign) and isinstance(n.target, ast.Name):
                ann = norm(n.annotation)
                if ann.startswith('ClassVar'):
                    continue
                if n.target.id not in out:
                    out.append(n.target.id)
    return out


def is_dataclass(k: ClassInfo) -> bool:
    for c in k.mro():
        for d in c.node.decorator_list:
            if 'dataclass' in norm(d):
                return True
    return False


def bind_call(call: ast.Call, names: List[str]) -> Tuple[Dict[str, ast.AST], bool]:
    """Bind the arguments of `call` to the positional parameter names `names`.
    Returns (param -> arg node, exact) where exact is False when *args / **kwargs prevent binding."""
    out: Dict[str, ast.AST] = {}
    exact = True
    for i, a in enumerate(call.args):
        if isinstance(a, ast.Starred):
            exact = False
            break
        if i < len(names):
            out[names[i]] = a
        else:
            exact = False
    for kw in call.keywords:
        if kw.arg is None:
            exact = False
        else:
            out[kw.arg] = kw.value
    return out, exact


def in_bool_context(n: ast.AST) -> bool:
    """Is expression node n evaluated for its truth value?"""
    p = parent(n)
    if isinstance(p, (ast.If, ast.While, ast.IfExp)) and p.test is n:
        return True
    if isinstance(p, ast.Assert) and p.test is n:
        return True
    if isinstance(p, ast.UnaryOp) and isinstance(p.op, ast.Not):
        return True
    if isinstance(p, ast.BoolOp):
        # every operand but the last is tested; the last is tested when the BoolOp itself is
        if p.values[-1] is not n:
            return True
        return in_bool_context(p)
    if isinstance(p, ast.comprehension) and n in p.ifs:
        return True
    if isinstance(p, ast.Call) and isinstance(p.func, ast.Name) and p.func.id == 'bool' and p.args and p.args[0] is n:
        return True
    return False


# ------------------------------------------------------------------------------------------------
# Structural patterns with name wildcards: rules must not depend on how locals are called.
#   $x     matches any plain Name (local, parameter, global); the same $x must match the same name
#   $$x    matches any expression; the same $$x must match the same expression (by normalised text)
#   $_ / $$_   anonymous forms (no consistency)
# Everything else is compared structurally (node types and fields; ctx, positions and type comments ignored).
import re as _re

_WILD = _re.compile(r'\$\$?[A-Za-z_][A-Za-z0-9_]*')
_pat_cache: Dict[str, ast.AST] = {}


def pat(src: str) -> ast.AST:
    p = _pat_cache.get(src)
    if p is None:
        def repl(m):
            t = m.group(0)
            return ('__E_' + t[2:]) if t.startswith('$$') else ('__V_' + t[1:])
        code = _WILD.sub(repl, src)
        mod = ast.parse(code)
        if len(mod.body) != 1:
            raise ValueError('pattern must be one statement or expression: %r' % src)
        st = mod.body[0]
        p = st.value if isinstance(st, ast.Expr) else st
        _pat_cache[src] = p
    return p


def unify(p: ast.AST, n: ast.AST, b: Optional[Dict[str, str]] = None) -> Optional[Dict[str, str]]:
    """Bindings if pattern p matches node n (extending b), else None."""
    b = dict(b) if b is not None else {}
    return b if _unify(p, n, b) else None


def _unify(p, n, b) -> bool:
    if isinstance(p, ast.Name):
        if p.id.startswith('__V_'):
            if not isinstance(n, ast.Name):
                return False
            key = p.id[4:]
            if key == '_':
                return True
            if key in b:
                return b[key] == n.id
            b[key] = n.id
            return True
        if p.id.startswith('__E_'):
            if not isinstance(n, ast.AST):
                return False
            key = p.id[4:]
            if key == '_':
                return True
            t = norm(n)
            if ('$$' + key) in b:
                return b['$$' + key] == t
            b['$$' + key] = t
            return True
    if isinstance(p, ast.arg) and p.arg.startswith('__V_'):
        if not isinstance(n, ast.arg):
            return False
        key = p.arg[4:]
        if key != '_':
            if key in b and b[key] != n.arg:
                return False
            b[key] = n.arg
        return True
    if type(p) is not type(n):
        return False
    for field in p._fields:
        if field in ('ctx', 'type_comment', 'kind'):
            continue
        pv, nv = getattr(p, field, None), getattr(n, field, None)
        if isinstance(pv, list):
            if not isinstance(nv, list) or len(pv) != len(nv):
                return False
            for a, c in zip(pv, nv):
                if isinstance(a, ast.AST):
                    if not _unify(a, c, b):
                        return False
                elif a != c:
                    return False
        elif isinstance(pv, ast.AST):
            if not isinstance(nv, ast.AST) or not _unify(pv, nv, b):
                return False
        else:
            if isinstance(pv, str) and field in ('name', 'id', 'attr') and pv.startswith('__V_'):
                key = pv[4:]
                if key != '_':
                    if key in b and b[key] != nv:
                        return False
                    b[key] = nv
                continue
            if pv != nv:
                return False
    return True


def find_pat(nodes, src: str, b: Optional[Dict[str, str]] = None) -> List[Tuple[ast.AST, Dict[str, str]]]:
    """All nodes (from an iterable of AST nodes, e.g. FuncInfo.body_nodes()) matching the pattern."""
    p = pat(src)
    out = []
    for n in nodes:
        if type(n) is type(p) or (isinstance(p, ast.Name) and p.id.startswith('__E_')):
            r = unify(p, n, b)
            if r is not None:
                out.append((n, r))
    return out


def has_pat(nodes, src: str, b: Optional[Dict[str, str]] = None) -> bool:
    return bool(find_pat(nodes, src, b))
