"""Fork rules [C13].

R-FORK-ALIAS          copy audit over the fork API: every constructor argument of a copy is FRESH, IMMUTABLE,
                      or a reference to a class that feeding/lexing never writes; the copy is coherent
                      (one copied lexer thread in both places).
R-SHALLOW-FORK        forks whose value stack is only shallow-copied never run tree-building callbacks.
R-TERM-NAME-PROTOCOL  the predicate that tells terminal names from rule names recognises every name the
                      grammar loader can produce.
"""
from __future__ import annotations

import ast
from typing import Dict, List, Optional, Set, Tuple

from ..model import Repo, ClassInfo, FuncInfo, AnalysisError, norm, parent, ancestors, enclosing_stmt, const_str
from ..report import Ctx, RuleResult
from ..cfg import cfg_of
from ..exprs import bind_call
from .effects import writes_of, CTOR_NAMES, lazy_atomic

IP = 'lark.parsers.lalr_interactive_parser:InteractiveParser'
IIP = 'lark.parsers.lalr_interactive_parser:ImmutableInteractiveParser'
PS = 'lark.parsers.lalr_parser_state:ParserState'
PCONF = 'lark.parsers.lalr_parser_state:ParseConf'

# Objects that are written only between their creation and their publication (never afterwards).
IMMUTABLE_AFTER_PUBLICATION = {
    'lark.lexer:Token': 'fields are written by next_token / lexer callbacks on the token being produced, before it is returned',
    'lark.utils:TextSlice': 'frozen dataclass',
    'lark.lexer:_TextSlice_WithLineCount': 'frozen dataclass',
}
FEED_ENTRIES = [IP + '.feed_token', IP + '.iter_parse', IP + '.exhaust_lexer', IP + '.resume_parse', IP + '.feed_eof',
                'lark.lexer:LexerThread.lex', 'lark.parsers.lalr_parser:_Parser.parse_from_state']


def _written_classes(ctx: Ctx) -> Dict[str, List[str]]:
    """class qual -> sample write sites, for writes in code reachable from feeding / lexing."""
    repo, ty, cg = ctx.repo, ctx.typer, ctx.cg
    reach = cg.reach([q for q in FEED_ENTRIES if repo.has_func(q)])
    out: Dict[str, List[str]] = {}
    for q in reach:
        f = repo.functions[q]
        if f.name in CTOR_NAMES:
            continue
        # lazily built caches (accepted as atomic idempotent publications by R-SHARED-EFFECTS) do not count
        callers = [s for s in cg.callers_of(f.qual) if isinstance(s.node, ast.Call)]
        lazy_builder = bool(callers) and all(_is_lazy_value(s.node) for s in callers)
        for w in writes_of(f):
            if lazy_atomic(w)[0]:
                continue
            if lazy_builder:
                # writes of a function that only runs as the value of a lazy `if x is None: x = build()` happen once, while
                # the cache is being built; whether they are atomic is C10's business (R-SHARED-EFFECTS), not a fork issue
                root = w.recv
                while isinstance(root, (ast.Attribute, ast.Subscript)):
                    root = root.value
                if isinstance(root, ast.Name) and root.id == f.self_name():
                    continue
            for t in ty.expr(f, w.recv):
                if t.startswith('C:'):
                    out.setdefault(t[2:], []).append('%s %s' % (f.loc(w.stmt), norm(w.stmt)[:50]))
            # a write through obj.attr[...] / obj.attr.append also modifies obj's state
            r = w.recv
            while isinstance(r, (ast.Attribute, ast.Subscript)):
                r = r.value
                for t in ty.expr(f, r):
                    if t.startswith('C:'):
                        out.setdefault(t[2:], []).append('%s %s' % (f.loc(w.stmt), norm(w.stmt)[:50]))
    return out


def _is_lazy_value(call: ast.Call) -> bool:
    """call is the value of `if X.a is None: X.a = call`"""
    st = parent(call)
    if not (isinstance(st, ast.Assign) and st.value is call and len(st.targets) == 1 and isinstance(st.targets[0], ast.Attribute)):
        return False
    t = st.targets[0]
    p = parent(st)
    return isinstance(p, ast.If) and any(isinstance(c, ast.Compare) and isinstance(c.ops[0], ast.Is) and norm(c.left) == norm(t)
                                         for c in ast.walk(p.test))


def _mutable_reachable(ctx: Ctx, cq: str, written: Dict[str, List[str]], seen: Optional[Set[str]] = None) -> Optional[str]:
    """Why an object of class cq can change while feeding/lexing (None = it cannot)."""
    seen = seen if seen is not None else set()
    if cq in seen:
        return None
    seen.add(cq)
    if cq in IMMUTABLE_AFTER_PUBLICATION:
        return None
    k = ctx.repo.classes.get(cq)
    if k is None:
        return None
    if any(c.qual == 'lark.lark:PostLex' for c in k.mro()):
        return None     # the post-lexer is a user object with its own state: outside the fork guarantee (DESIGN section 6)
    fam = [c.qual for c in k.mro()] + [c.qual for c in k.all_subclasses()]
    for q in fam:
        if q in written and q not in IMMUTABLE_AFTER_PUBLICATION:
            return '%s is written at %s' % (q.split(':')[1], written[q][0])
    # fields holding mutable-reachable per-call objects
    fields = set()
    for c in k.mro():
        for (cq2, attr), ts in ctx.typer.fields.items():
            if cq2 == c.qual:
                fields.add((attr, frozenset(ts)))
    for attr, ts in fields:
        for t in ts:
            if t.startswith('C:'):
                why = _mutable_reachable(ctx, t[2:], written, seen)
                if why:
                    return 'field %s: %s' % (attr, why)
    return None


def _fresh_expr(f: FuncInfo, e: ast.AST, depth: int = 0) -> bool:
    if isinstance(e, ast.Call):
        fn = e.func
        if isinstance(fn, ast.Name) and fn.id in ('copy', 'deepcopy', 'list', 'dict', 'set', 'tuple'):
            return True
        if isinstance(fn, ast.Attribute) and fn.attr in ('copy', '__copy__', '__deepcopy__'):
            return True
        if isinstance(fn, ast.Call) and isinstance(fn.func, ast.Name) and fn.func.id == 'type':
            return True
        if isinstance(fn, ast.Name) and fn.id[:1].isupper():
            return True
        return False
    if isinstance(e, ast.IfExp):
        return _fresh_expr(f, e.body, depth) and _fresh_expr(f, e.orelse, depth)
    if isinstance(e, ast.Subscript) and isinstance(e.slice, ast.Slice):
        return True
    if isinstance(e, (ast.List, ast.Dict, ast.Set, ast.Tuple, ast.ListComp, ast.DictComp, ast.Constant)):
        return True
    if isinstance(e, ast.Name) and depth < 3:
        defs = [n.value for n in f.body_nodes() if isinstance(n, ast.Assign)
                and any(isinstance(t, ast.Name) and t.id == e.id for t in n.targets)]
        return bool(defs) and all(_fresh_expr(f, d, depth + 1) for d in defs)
    return False


def _copy_calls(f: FuncInfo) -> List[ast.Call]:
    """constructor calls building the copy: type(self)(...), ClassName(...) in return position or assigned."""
    out = []
    for n in f.body_nodes():
        if isinstance(n, ast.Call):
            fn = n.func
            if isinstance(fn, ast.Call) and isinstance(fn.func, ast.Name) and fn.func.id == 'type':
                out.append(n)
            elif isinstance(fn, ast.Name) and fn.id in ('InteractiveParser', 'ImmutableInteractiveParser', 'Token'):
                out.append(n)
    return out


def run_alias(ctx: Ctx) -> RuleResult:
    repo, ty = ctx.repo, ctx.typer
    res = RuleResult('R-FORK-ALIAS', 'copies made by the fork API share no state that feeding or lexing writes, and are coherent')
    written = _written_classes(ctx)
    res.tables['classes_written_while_feeding_or_lexing'] = {k: v[:2] for k, v in sorted(written.items())}
    res.tables['immutable_after_publication'] = IMMUTABLE_AFTER_PUBLICATION
    audited = [
        (IP + '.copy', IP), (PS + '.copy', PS), ('lark.lexer:LexerThread.__copy__', 'lark.lexer:LexerThread'),
        ('lark.lexer:LexerState.__copy__', 'lark.lexer:LexerState'), ('lark.tree:Tree.__deepcopy__', 'lark.tree:Tree'),
        ('lark.lexer:Token.__deepcopy__', 'lark.lexer:Token'),
    ]
    n_args = 0
    for fq, cq in audited:
        f = repo.func(fq)
        k = repo.cls(cq)
        init = k.find_method('__init__') or k.find_method('__new__')
        names = init.positional_names() if init is not None else []
        if cq == 'lark.lexer:Token':
            names = k.find_method('_future_new').positional_names()
        calls = _copy_calls(f)
        site = '%s %s' % (f.loc(), f.qual)
        if len(calls) != 1:
            res.ob(site, 'the copy is built by one constructor call', False)
            res.finding(f, f.node, 'cannot find the single constructor call that builds the copy (found %d)' % len(calls),
                        construct='copy-ctor')
            continue
        call = calls[0]
        binds, _ = bind_call(call, names)
        sn = f.self_name()
        for pname, arg in binds.items():
            n_args += 1
            what = '%s(%s=%s)' % (cq.split(':')[1], pname, norm(arg))
            if _fresh_expr(f, arg):
                res.ob(site, what + ': FRESH', True)
                continue
            ats = ty.expr(f, arg)
            classes = [t[2:] for t in ats if t.startswith('C:')]
            prim = all(t.startswith('b:') and t[2:] in ('int', 'str', 'none', 'bool', 'float', 'bytes') for t in ats
                       if not t.startswith(('E:', 'K:'))) and ats and not classes
            if prim or isinstance(arg, ast.Constant):
                res.ob(site, what + ': immutable value', True)
                continue
            is_self_attr = isinstance(arg, ast.Attribute) and isinstance(arg.value, ast.Name) and arg.value.id == sn
            if classes:
                why = None
                for c in classes:
                    why = why or _mutable_reachable(ctx, c, written)
                # tabled exception: ParseConf is written only on private copies / before any fork exists (checked below)
                if why and set(classes) == {PCONF}:
                    res.ob(site, what + ': shared ParseConf (written only on private copies / before forks exist: checked)', True)
                    continue
                # ParserState.copy's lexer: acceptable only through the coherence repair in the fork API (checked below)
                if why and fq == PS + '.copy' and pname == 'lexer':
                    ok = _coherent_fork(ctx, res)
                    res.ob(site, what + ': shared LexerThread, replaced by the fork API with the copied thread on every path', ok)
                    if not ok:
                        res.finding(f, call, 'the copied parser state keeps the original\'s lexer thread (%s) and the fork API does not '
                                    'replace it: a fork that lexes advances the original' % why, construct='shared:lexer')
                    continue
                ok = why is None
                res.ob(site, what + (': shared reference to state that never changes while feeding/lexing' if ok else ': SHARED MUTABLE'), ok)
                if not ok:
                    res.finding(f, call, 'the copy shares %s with the original, and %s' % (norm(arg), why),
                                construct='shared:%s' % pname)
                continue
            # untyped / container
            if is_self_attr or isinstance(arg, ast.Attribute):
                ft = ats
                cont = any(t in ('b:list', 'b:dict', 'b:set', 'b:deque') for t in ft)
                if cont:
                    res.ob(site, what + ': container shared without a copy', False)
                    res.finding(f, call, 'the copy shares the container %s with the original' % norm(arg), construct='shared:%s' % pname)
                    continue
                if pname in ('data', 'type', 'value', 'start_pos', 'line', 'column', 'end_line', 'end_column', 'end_pos', 'text'):
                    res.ob(site, what + ': scalar field', True)
                    continue
                res.ob(site, what + ': untyped shared reference', False)
                res.finding(f, call, 'cannot show that %s, shared by the copy, never changes' % norm(arg), construct='shared:%s' % pname)
                continue
            res.ob(site, what + ': value', True)
    res.require_instances(n_args, 15, 'constructor arguments of copies')
    # value stack: deep copy in the deep mode
    f = repo.func(PS + '.copy')
    vs = [n for n in f.body_nodes() if isinstance(n, ast.IfExp) and 'value_stack' in norm(n)]
    ok = len(vs) == 1 and norm(vs[0].test) == 'deepcopy_values' and norm(vs[0].body).startswith('deepcopy(') \
        and norm(vs[0].orelse).startswith('copy(')
    res.ob(f.loc(), 'value stack is deep-copied unless the caller asks for a shallow fork', ok)
    if not ok:
        res.finding(f, f.node, 'the value stack of a fork is not deep-copied under deepcopy_values=True', construct='value-stack')
    dflt = f.node.args.defaults
    ok = bool(dflt) and isinstance(dflt[-1], ast.Constant) and dflt[-1].value is True
    res.ob(f.loc(), 'deep copy is the default', ok)
    if not ok:
        res.finding(f, f.node, 'ParserState.copy does not default to a deep copy of the value stack', construct='value-stack-default')
    f2 = repo.func(IP + '.copy')
    dflt = f2.node.args.defaults
    ok = bool(dflt) and isinstance(dflt[-1], ast.Constant) and dflt[-1].value is True
    res.ob(f2.loc(), 'InteractiveParser.copy defaults to a deep copy', ok)
    if not ok:
        res.finding(f2, f2.node, 'InteractiveParser.copy does not default to deepcopy_values=True', construct='ip-copy-default')
    _immutable_api(ctx, res)
    _immutable_no_self_store(ctx, res)
    _immutable_returns(ctx, res)
    _parseconf_writes(ctx, res)
    _construction_sites(ctx, res)
    return res


def _coherent_fork(ctx: Ctx, res: RuleResult) -> bool:
    """InteractiveParser.copy: the new state's .lexer is the copied thread on every path to the return."""
    repo = ctx.repo
    f = repo.func(IP + '.copy')
    calls = _copy_calls(f)
    if len(calls) != 1:
        return False
    call = calls[0]
    if len(call.args) < 3:
        return False
    s_arg, l_arg = call.args[1], call.args[2]
    if not (isinstance(s_arg, ast.Name) and isinstance(l_arg, ast.Name)):
        # type(self)(self.parser, st, st.lexer) with st from a copy that copies the lexer is also coherent
        return isinstance(l_arg, ast.Attribute) and l_arg.attr == 'lexer' and norm(l_arg.value) == norm(s_arg) and False
    g = cfg_of(f.node)
    fixes = [n for n in f.body_nodes() if isinstance(n, ast.Assign) and len(n.targets) == 1
             and isinstance(n.targets[0], ast.Attribute) and n.targets[0].attr == 'lexer'
             and norm(n.targets[0].value) == s_arg.id and norm(n.value) == l_arg.id]
    if not fixes:
        return False
    ret = g.node_of(enclosing_stmt(call))
    if g.must_pass(g.entry, [g.node_of(x) for x in fixes], [ret]):
        return True
    # accepted guard: `if <state>.lexer is self.lexer_thread:` -- the skipped path is the one where the state does
    # not hold the original's thread, which the class invariant (checked at every construction site) excludes
    sn = f.self_name()
    for x in fixes:
        p = parent(x)
        if isinstance(p, ast.If) and x in p.body and isinstance(p.test, ast.Compare) and len(p.test.ops) == 1 \
                and isinstance(p.test.ops[0], ast.Is):
            sides = {norm(p.test.left), norm(p.test.comparators[0])}
            if sides == {'%s.lexer' % s_arg.id, '%s.lexer_thread' % sn} and g.must_pass(g.entry, [g.node_of(p)], [ret]):
                return True
    return False


def _immutable_api(ctx: Ctx, res: RuleResult):
    repo = ctx.repo
    for fq in (IP + '.as_immutable', IIP + '.as_mutable', IIP + '.feed_token', IIP + '.exhaust_lexer'):
        f = repo.func(fq)
        sn = f.self_name()
        site = '%s %s' % (f.loc(), f.qual)
        # a local copy of self is taken, and everything handed on / mutated goes through it
        copies = [n.targets[0].id for n in f.body_nodes() if isinstance(n, ast.Assign) and len(n.targets) == 1
                  and isinstance(n.targets[0], ast.Name) and isinstance(n.value, ast.Call)
                  and ((isinstance(n.value.func, ast.Name) and n.value.func.id == 'copy' and norm(n.value.args[0]) == sn)
                       or norm(n.value.func) in ('%s.copy' % sn, '%s.as_mutable' % sn, '%s.as_immutable' % sn))]
        ok = len(copies) >= 1
        res.ob(site, 'works on a copy of self', ok)
        if not ok:
            res.finding(f, f.node, 'this fork operation does not start from a copy of the parser', construct='no-copy')
            continue
        c = copies[0]
        bad = []
        for n in f.body_nodes():
            if isinstance(n, ast.Call):
                for a in n.args:
                    # self.<state> handed to a constructor / feed: must come from the copy
                    if isinstance(a, ast.Attribute) and isinstance(a.value, ast.Name) and a.value.id == sn \
                            and a.attr in ('parser_state', 'lexer_thread'):
                        bad.append(norm(n))
                    if isinstance(a, ast.Name) and a.id == sn and norm(n.func).endswith('feed_token'):
                        bad.append(norm(n))
                if isinstance(n.func, ast.Attribute) and isinstance(n.func.value, ast.Name) and n.func.value.id == sn \
                        and n.func.attr in ('feed_token', 'exhaust_lexer', 'iter_parse', 'feed_eof', 'resume_parse') \
                        and fq.startswith(IIP):
                    bad.append(norm(n))
        ok = not bad
        res.ob(site, 'state handed on / advanced comes from the copy `%s`, never from self' % c, ok)
        if not ok:
            res.finding(f, f.node, 'the original parser\'s state is handed on or advanced: %s' % bad[:2], construct='uses-self-state')


def _immutable_no_self_store(ctx: Ctx, res: RuleResult):
    """No method of the immutable parser stores into self: what a fork operation computes belongs to the fork it returns."""
    repo = ctx.repo
    k = repo.cls(IIP)
    for m in k.methods.values():
        if m.name in ('__init__', '__new__', '__setstate__'):
            continue
        sn = m.self_name()
        if sn is None:
            continue
        stores = [t for n in m.body_nodes() if isinstance(n, (ast.Assign, ast.AugAssign, ast.AnnAssign))
                  for t in (n.targets if isinstance(n, ast.Assign) else [n.target])
                  for x in ast.walk(t) if isinstance(x, ast.Attribute) and isinstance(x.ctx, ast.Store)
                  and isinstance(x.value, ast.Name) and x.value.id == sn]
        ok = not stores
        res.ob('%s %s' % (m.loc(), m.qual), 'does not store into self', ok)
        if not ok:
            res.finding(m, stores[0], 'a method of the immutable parser stores into self (%s): the parser it was called on changes, and the fork it '
                        'returns does not carry the value' % norm(stores[0]), construct='immutable-self-store:%s' % m.name)


def _immutable_returns(ctx: Ctx, res: RuleResult):
    """What a fork operation of the immutable parser hands back is immutable again: `<x>.as_immutable()`, or a copy of self."""
    repo = ctx.repo
    k = repo.cls(IIP)
    for mname in ('feed_token', 'exhaust_lexer'):
        m = k.methods.get(mname)
        if m is None:
            continue
        sn = m.self_name() or 'self'
        copies = {a.targets[0].id for a in m.body_nodes() if isinstance(a, ast.Assign) and len(a.targets) == 1 and isinstance(a.targets[0], ast.Name)
                  and isinstance(a.value, ast.Call) and norm(a.value.func) == 'copy' and a.value.args and norm(a.value.args[0]) == sn}
        rets = [r for r in m.body_nodes() if isinstance(r, ast.Return) and r.value is not None]
        bad = [r for r in rets if not ((isinstance(r.value, ast.Call) and isinstance(r.value.func, ast.Attribute) and r.value.func.attr == 'as_immutable')
                                       or (isinstance(r.value, ast.Name) and r.value.id in copies))]
        ok = bool(rets) and not bad
        res.ob('%s %s' % (m.loc(), m.qual), 'returns an immutable parser (as_immutable() of the work cursor, or a copy of self)', ok)
        if not ok:
            res.finding(m, bad[0] if bad else m.node, '%s of the immutable parser returns %s: the caller gets a parser that changes in place, so the forks that '
                        'follow share its state' % (mname, norm(bad[0].value) if bad else 'nothing'), construct='immutable-returns:%s' % mname)


def _parseconf_writes(ctx: Ctx, res: RuleResult):
    """ParseConf is shared by all forks: attribute stores only on a private copy or on a freshly created parser."""
    repo, ty = ctx.repo, ctx.typer
    n = 0
    for f in repo.functions.values():
        if f.cls is not None and f.cls.qual == PCONF and f.name == '__init__':
            continue
        for w in writes_of(f):
            if w.what != 'store-attr' and not w.what.startswith('mutator') and w.what not in ('store-item', 'del', 'aug'):
                continue
            ts = ty.expr(f, w.recv)
            via = w.recv
            hit = ('C:' + PCONF) in ts
            # writes *through* a ParseConf: conf.callbacks[...] = / conf.states.update(...)
            r = w.recv
            while not hit and isinstance(r, (ast.Attribute, ast.Subscript)):
                r = r.value
                if ('C:' + PCONF) in ty.expr(f, r):
                    hit = True
                    via = r
            if not hit:
                continue
            n += 1
            site = '%s %s' % (f.loc(w.stmt), f.qual)
            ok = False
            why = ''
            if via is w.recv and w.what == 'store-attr':
                if isinstance(via, ast.Name) and _fresh_expr(f, via):
                    ok, why = True, 'store on a private copy'
                else:
                    # receiver path starts at a parser created in this function (no fork exists yet)
                    root = via
                    while isinstance(root, ast.Attribute):
                        root = root.value
                    if isinstance(root, ast.Name):
                        defs = [x.value for x in f.body_nodes() if isinstance(x, ast.Assign)
                                and any(isinstance(t, ast.Name) and t.id == root.id for t in x.targets)]
                        if defs and all(isinstance(d, ast.Call) and norm(d.func).endswith('parse_interactive') for d in defs):
                            ok, why = True, 'store on the ParseConf of a parser created in this function (no fork exists yet)'
            res.ob(site, 'ParseConf write %s: %s' % (norm(w.stmt)[:60], why or 'on shared configuration'), ok)
            if not ok:
                res.finding(f, w.stmt, 'ParseConf is shared by every fork of a parser; this write is visible to all of them',
                            construct='parseconf:' + norm(w.stmt)[:60])
    res.require_instances(n, 2, 'writes to ParseConf objects')


def _construction_sites(ctx: Ctx, res: RuleResult):
    """Class invariant: InteractiveParser(p, state, thread) has thread is state.lexer (or both from one copy)."""
    repo, ty = ctx.repo, ctx.typer
    n = 0
    for f in repo.functions.values():
        for c in f.body_nodes():
            if not isinstance(c, ast.Call) or len(c.args) < 3:
                continue
            ts = ty.expr(f, c.func)
            is_ip = ('T:' + IP) in ts or ('T:' + IIP) in ts
            if isinstance(c.func, ast.Call) and norm(c.func) == 'type(self)' and f.cls is not None and f.cls.qual in (IP, IIP):
                is_ip = True
            if not is_ip:
                continue
            n += 1
            s_arg, l_arg = c.args[1], c.args[2]
            ok = False
            if isinstance(l_arg, ast.Attribute) and l_arg.attr == 'lexer' and norm(l_arg.value) == norm(s_arg):
                ok = True
            elif isinstance(s_arg, ast.Attribute) and isinstance(l_arg, ast.Attribute) and s_arg.attr == 'parser_state' \
                    and l_arg.attr == 'lexer_thread' and norm(s_arg.value) == norm(l_arg.value):
                ok = True      # both taken from one (copied) parser
            elif f.qual == IP + '.copy':
                ok = _coherent_fork(ctx, res)
            res.ob('%s %s' % (f.loc(c), f.qual), 'InteractiveParser(%s, %s): one lexer thread in both places' % (norm(s_arg), norm(l_arg)), ok)
            if not ok:
                res.finding(f, c, 'an InteractiveParser is built whose lexer_thread is not its parser state\'s lexer',
                            construct='incoherent:' + norm(c)[:80])
    res.require_instances(n, 4, 'InteractiveParser construction sites')


# ------------------------------------------------------------------------------------------------
def run_shallow(ctx: Ctx) -> RuleResult:
    repo, ty = ctx.repo, ctx.typer
    res = RuleResult('R-SHALLOW-FORK', 'a fork with a shallow-copied value stack is only fed with tree-building callbacks switched off')
    sites = []
    for f in repo.functions.values():
        for c in f.body_nodes():
            if isinstance(c, ast.Call) and isinstance(c.func, ast.Attribute) and c.func.attr == 'copy':
                for kw in c.keywords:
                    if kw.arg == 'deepcopy_values' and isinstance(kw.value, ast.Constant) and kw.value.value is False:
                        sites.append((f, c))
                if c.args and isinstance(c.args[0], ast.Constant) and c.args[0].value is False and \
                        any(t in ('C:' + PS, 'C:' + IP) for t in ty.expr(f, c.func.value)):
                    sites.append((f, c))
    res.require_instances(len(sites), 2, 'shallow fork sites')
    for f, c in sites:
        st = enclosing_stmt(c)
        site = '%s %s' % (f.loc(c), f.qual)
        # (C03: ChildFilterLALR extends the child list of an inlined first child in place, which is only sound
        #  while no tree on a value stack is shared between two parsers that both reduce)
        props = ['C14'] if f.module.name == 'lark.parser_frontends' else ['C13', 'C03']
        if not (isinstance(st, ast.Assign) and isinstance(st.targets[0], ast.Name)):
            res.ob(site, 'shallow fork bound to a local', False)
            res.finding(f, st, 'a shallow fork is not kept in a local: cannot follow what is fed to it', construct='shallow-unbound')
            continue
        var = st.targets[0].id
        src = norm(c.func.value)          # what was copied
        g = cfg_of(f.node)
        feeds = [n for n in f.body_nodes() if isinstance(n, ast.Call) and isinstance(n.func, ast.Attribute)
                 and n.func.attr in ('feed_token', 'feed_eof', 'resume_parse', 'exhaust_lexer', 'iter_parse')
                 and (norm(n.func.value) == var or norm(n.func.value).startswith(var + '.'))]
        # escapes: the shallow fork must not leave the function
        escapes = [n for n in f.body_nodes() if isinstance(n, (ast.Return, ast.Yield)) and n.value is not None
                   and var in {x.id for x in ast.walk(n.value) if isinstance(x, ast.Name)}]
        ok = not escapes
        res.ob(site, 'the shallow fork `%s` does not escape the function' % var, ok, props=props)
        if not ok:
            res.finding(f, escapes[0], 'a shallow fork is returned / yielded: callers may feed it with callbacks on', construct='shallow-escape', props=props)
        empties = []
        for n in f.body_nodes():
            if isinstance(n, ast.Assign) and len(n.targets) == 1 and isinstance(n.targets[0], ast.Attribute) \
                    and n.targets[0].attr == 'callbacks' and isinstance(n.value, ast.Dict) and not n.value.keys:
                empties.append(n)
        for fd in feeds:
            fid = g.node_of(enclosing_stmt(fd))
            ok = False
            how = ''
            for e in empties:
                recv = e.targets[0].value
                eid = g.node_of(e)
                if not g.dominates(eid, fid):
                    continue
                rtxt = norm(recv)
                # (a) the conf of the object that was copied: <src>.parse_conf / <src>.parser_state.parse_conf
                if rtxt in (src + '.parse_conf', src + '.parser_state.parse_conf'):
                    ok, how = True, 'callbacks of %s emptied before the fork is fed' % rtxt
                # (b) a private conf installed into the fork
                if isinstance(recv, ast.Name):
                    inst = [n for n in f.body_nodes() if isinstance(n, ast.Assign) and len(n.targets) == 1
                            and isinstance(n.targets[0], ast.Attribute) and n.targets[0].attr == 'parse_conf'
                            and (norm(n.targets[0].value) in (var, var + '.parser_state')) and norm(n.value) == recv.id]
                    if any(g.dominates(g.node_of(i), fid) for i in inst):
                        ok, how = True, 'private conf %s with empty callbacks installed before feeding' % recv.id
            res.ob(f.loc(fd), 'shallow fork %s fed with callbacks off (%s)' % (var, how), ok, props=props)
            if not ok:
                res.finding(f, enclosing_stmt(fd), 'a shallow fork is fed while tree-building callbacks may run: the in-place child-list '
                            'reuse of the LALR tree builder then modifies trees shared with the sibling fork',
                            construct='shallow-feed:' + norm(fd)[:60], props=props)
        if not feeds:
            res.ob(site, 'shallow fork `%s` is never fed' % var, True)
    # the driver really skips callbacks when the table is empty
    ft = repo.func(PS + '.feed_token')
    from ..exprs import match_cond
    ok = bool(match_cond(ft.body_nodes(), '$$cb', '$$cb[$r]($s)', '$s'))
    res.ob(ft.loc(), 'the LALR driver builds no tree when the callback table is empty', ok)
    if not ok:
        res.finding(ft, ft.node, 'feed_token no longer skips the rule callback when the callback table is empty', construct='driver-skip')
    return res


# ------------------------------------------------------------------------------------------------
def run_term_names(ctx: Ctx) -> RuleResult:
    repo, ty = ctx.repo, ctx.typer
    res = RuleResult('R-TERM-NAME-PROTOCOL', 'consumers that tell terminal names from rule names recognise every name the loader produces')
    lg = repo.module('lark.load_grammar')
    # producers: can a terminal name fail str.isupper()?  The mangle prefix comes from the import path.
    mangle = repo.func('lark.load_grammar:_get_mangle.mangle')
    fmts = [const_str(n.left) for n in mangle.body_nodes() if isinstance(n, ast.BinOp) and isinstance(n.op, ast.Mod)
            and const_str(n.left) is not None]
    prefix_any_case = any(f and f.replace('_', '').startswith('%s') for f in fmts)
    res.tables['mangle_formats'] = fmts
    res.tables['terminal_name_producers'] = ['meta-grammar TERMINAL token', '_TERMINAL_NAMES values', 'value.upper()',
                                             '__ANON_%d', '__IGNORE_%d', '$END', 'mangle: ' + ', '.join(map(str, fmts))]
    # the meta-grammar's own classification by case is over constant tables: fold it
    TERMS, RULES = set(lg.const_keys('TERMINALS')), lg.const('RULES')
    bad = [t for t in TERMS if not t.isupper()]
    used = {s for xs in RULES.values() for x in xs for s in x.split()}
    bad += [s for s in used if s.isupper() != (s in TERMS)]
    ok = not bad
    res.ob(lg.relpath, 'symbol_from_strcase: every meta-grammar terminal name is upper-case and no rule name is (constant tables)', ok)
    if not ok:
        res.finding('lark.load_grammar', None, 'meta-grammar names misclassified by case: %s' % bad[:5], construct='meta-case', module=lg)
    tn = lg.const('_TERMINAL_NAMES')
    ok = all(v.isupper() for v in tn.values())
    res.ob(lg.relpath, '_TERMINAL_NAMES values are upper-case', ok)
    # consumers
    consumers = [(IP + '.accepts', 'choices'), (PS + '.feed_token', 'expected')]
    n = 0
    for fq, what in consumers:
        f = repo.func(fq)
        site = '%s %s' % (f.loc(), f.qual)
        preds = []
        for x in f.body_nodes():
            if isinstance(x, ast.Call) and isinstance(x.func, ast.Attribute) and x.func.attr == 'isupper':
                preds.append(('isupper', x))
            if isinstance(x, ast.Call) and ((isinstance(x.func, ast.Name) and 'terminal' in x.func.id.lower())
                                            or (isinstance(x.func, ast.Attribute) and 'terminal' in x.func.attr.lower()
                                                and x.func.attr != 'terminals_by_name')):
                preds.append(('call', x))
        n += len(preds)
        if not preds:
            res.ob(site, 'a terminal/non-terminal classification of the action-table keys exists', False)
            res.finding(f, f.node, 'cannot find how %s tells terminals from rules among the action-table keys' % f.name, construct='no-classifier')
            continue
        for kind, x in preds:
            if kind == 'isupper':
                ok = not prefix_any_case
                res.ob(f.loc(x), 'classification by %s is exact for every producer of terminal names' % norm(x), ok)
                if not ok:
                    res.finding(f, enclosing_stmt(x), 'terminals are recognised by str.isupper(), but a terminal imported together with a '
                                'rule is named <grammar>__<NAME> with the grammar\'s (lower-case) name as prefix: such terminals '
                                'are left out', construct='isupper:' + norm(x))
            else:
                ok, why = _authoritative(ctx, f, x)
                res.ob(f.loc(x), 'classification by %s: %s' % (norm(x.func), why), ok)
                if not ok:
                    res.finding(f, enclosing_stmt(x), 'terminal classification %s is not exact: %s' % (norm(x.func), why),
                                construct='classifier:' + norm(x.func))
    res.require_instances(n, 2, 'terminal-name classification sites')
    return res


def _authoritative(ctx: Ctx, f: FuncInfo, call: ast.Call) -> Tuple[bool, str]:
    """The predicate consults a set collected from the symbols' own is_term flags."""
    repo, ty = ctx.repo, ctx.typer
    fn = call.func
    target = None
    if isinstance(fn, ast.Name):
        # local alias: is_terminal = <...>.is_terminal
        defs = [n.value for n in f.body_nodes() if isinstance(n, ast.Assign)
                and any(isinstance(t, ast.Name) and t.id == fn.id for t in n.targets)]
        for d in defs:
            for t in ty.expr(f, d):
                if t.startswith('F:'):
                    target = repo.functions.get(t[2:])
    else:
        for t in ty.expr(f, fn):
            if t.startswith('F:'):
                target = repo.functions.get(t[2:])
    if target is None:
        return False, 'cannot resolve the predicate'
    rets = [n.value for n in target.body_nodes() if isinstance(n, ast.Return) and n.value is not None]
    if len(rets) != 1:
        return False, 'predicate has %d returns' % len(rets)
    r = rets[0]
    disj = r.values if isinstance(r, ast.BoolOp) and isinstance(r.op, ast.Or) else [r]
    sn = target.self_name()
    for d in disj:
        if isinstance(d, ast.Compare) and len(d.ops) == 1 and isinstance(d.ops[0], ast.In) and isinstance(d.comparators[0], ast.Attribute) \
                and isinstance(d.comparators[0].value, ast.Name) and d.comparators[0].value.id == sn:
            field = d.comparators[0].attr
            k = target.owner_class
            init = k.find_method('__init__') if k else None
            if init is None:
                continue
            text = ' '.join(norm(n) for n in init.body_nodes() if isinstance(n, (ast.Assign, ast.Expr, ast.For)) and field in norm(n))
            if 'is_term' in text and '.name' in text and '$END' in text:
                return True, 'membership in %s.%s, collected from the is_term flag of every symbol in the table (+ $END)' % (k.name, field)
            return False, '%s.%s is not collected from the symbols\' is_term flags' % (k.name, field)
    if any(isinstance(d, ast.Call) and isinstance(d.func, ast.Attribute) and d.func.attr == 'isupper' for d in disj) and len(disj) == 1:
        return False, 'only str.isupper()'
    return False, 'no authoritative terminal set consulted'

def accepts_on_success(ctx: Ctx, res: RuleResult):
    """clause of R-ACCEPTS-PURE"""
    repo = ctx.repo
    # accepts(): a terminal is recorded only on the path where its trial feed did not raise
    ac = repo.func(IP + '.accepts')
    tries = [t for t in ac.body_nodes() if isinstance(t, ast.Try) and any(isinstance(c, ast.Call) and isinstance(c.func, ast.Attribute)
                                                                           and c.func.attr == 'feed_token' for s_ in t.body for c in ast.walk(s_))]
    adds = [c for c in ac.body_nodes() if isinstance(c, ast.Call) and isinstance(c.func, ast.Attribute) and c.func.attr in ('add', 'append')]
    ok = len(tries) == 1 and len(adds) >= 1
    why = 'cannot find the trial feed / the recording'
    if ok:
        t = tries[0]

        def inside(stmts, node) -> bool:
            return any(node is x for s_ in stmts for x in ast.walk(s_))
        for a_ in adds:
            in_else = inside(t.orelse, a_)
            feed_stmt_idx = next((i for i, s_ in enumerate(t.body) if any(isinstance(c, ast.Call) and isinstance(c.func, ast.Attribute)
                                                                            and c.func.attr == 'feed_token' for c in ast.walk(s_))), None)
            after_feed = feed_stmt_idx is not None and inside(t.body[feed_stmt_idx + 1:], a_)
            swallowing = all(not any(isinstance(x, (ast.Raise, ast.Continue, ast.Return, ast.Break)) for s_ in h.body for x in ast.walk(s_)) for h in t.handlers)
            after_try_ok = not swallowing and not inside([t], a_)      # handlers all leave: code after the try runs only on success
            if not (in_else or after_feed or after_try_ok):
                ok = False
                why = '`%s` also runs when the trial feed raised' % norm(a_)
    res.ob('%s %s' % (ac.loc(), ac.qual), 'accepts() records a terminal only when feeding it to the trial fork succeeded', ok)
    if not ok:
        res.finding(ac, ac.node, 'accepts() no longer records a terminal exactly when its trial feed succeeds (%s): it returns terminals whose '
                    'token would be rejected' % why, construct='accepts-on-success')
