#!/venv/bin/python
"""Regenerates /verif/MANIFEST.json from sa/registry.py (run after changing the registry)."""
import json, sys
sys.path.insert(0, '/verif')
from sa import registry

checks = []
for pid in sorted(registry.PROPERTIES):
    spec = registry.PROPERTIES[pid]
    checks.append({
        'property_id': pid,
        'quick_cmd': './check %s --tier quick' % pid,
        'thorough_cmd': './check %s --tier thorough' % pid,
        'evidence_file': '/verif/evidence/%s.json' % pid,
        'replay_cmd_template': './check %s --replay {path}' % pid,
        'engine': 'sa',
        'level_claimed': {'category': 'other', 'text': spec['level_text'], 'design_ref': 'DESIGN.md section 4 (%s), rules in section 3' % pid},
        'level_note': spec['level_note'],
        'technique': 'static analysis: ' + spec['technique'] + ' [rules: ' + ', '.join(spec['rules']) + ']',
    })
m = {
    'version': 1,
    'setup_cmd': 'true',
    'hooks': {
        'guard': 'LARK_VERIF',
        'enable': 'none needed: the checks are static analyses of the source text and never import or run lark; no hook exists in /repo',
        'baseline_off_cmd': 'cd /repo && /venv/bin/python -m pytest -ra -q -p no:cacheprovider --timeout=900 --continue-on-collection-errors',
        'source_commits': [],
        'add_only': True,
    },
    'engines': [{
        'name': 'sa', 'path': '/verif/sa',
        'serves_properties': sorted(registry.PROPERTIES),
        'kind_free_text': 'repository-specific static analysis (pure stdlib ast/symtable): repository model, type-lite receiver typing and '
                          'call graph with a frozen dispatch table, statement CFG with dominators / must-pass-through, ownership dataflow, '
                          'linear normal forms, truth tables of extracted predicates; 57 rules; in-memory seeded variants as positive controls',
    }],
    'checks': checks,
    'notes': 'Exit 0: every obligation discharged (known findings printed as KNOWN-FINDING). Exit 1 + VIOLATION line: a rule instance failed on a '
             'construct not listed in known_findings.json. Exit 2 + ANALYSIS-ERROR: the checker could not do its job (anchor vanished, instance '
             'count below the hand-confirmed minimum, control wrong) and no rule found a violation -- a refusal of one rule never masks what another '
             'rule finds. Repairs of genuine defects are the 19 unguarded "fix:" commits in /repo '
             '(listed as fixed: entries in known_findings.json). The deciding step reads /repo\'s working tree on every run (VERIF_REPO overrides '
             'the root for the self-test only).',
    'not_applicable': [{'property_id': k, 'reason': v} for k, v in sorted(registry.NOT_APPLICABLE.items())],
}
json.dump(m, open('/verif/MANIFEST.json', 'w'), indent=1)
print('wrote MANIFEST.json with %d checks' % len(checks))
