"""R-EQHASH [C03 C04 C20]: a == b  =>  hash(a) == hash(b) for every package class used as a set/dict key.

Structural form: the set of `self` attributes the hash reads must be contained in the set the
equality reads (following super()/explicit base calls, cached `_hash` fields traced to their defining
expression, properties expanded).  Extra obligations: a cached hash is recomputed by `_deserialize`
when the class is Serialize and the cache is not a serialised field; hashed fields are not assigned
outside constructors.
"""
from __future__ import annotations

import ast
from typing import Dict, List, Optional, Set, Tuple

from ..model import Repo, ClassInfo, FuncInfo, AnalysisError, norm
from ..report import Ctx, RuleResult

RULE = 'R-EQHASH'

# property served by each class (which parser's data structure it is)
CLASS_PROPS = {
    'lark.parsers.cyk:Rule': ['C03'], 'lark.parsers.cyk:UnitSkipRule': ['C03'],
    # (C05: which families survive in a symbol node's set decides what priority resolution can choose from)
    'lark.parsers.earley_forest:PackedNode': ['C04', 'C05', 'C20'], 'lark.parsers.earley_forest:TokenNode': ['C04', 'C05', 'C20'],
    'lark.parsers.earley_common:Item': ['C04', 'C05', 'C20'],
    'lark.lexer:Token': ['C03', 'C04', 'C05', 'C20'], 'lark.tree:Tree': ['C03', 'C04', 'C20'],
    'lark.grammar:Symbol': ['C03', 'C04', 'C05', 'C20'], 'lark.grammar:Rule': ['C03', 'C04', 'C05', 'C20'],
    'lark.lexer:Pattern': ['C03'], 'lark.parsers.grammar_analysis:RulePtr': ['C03'],
}
CONSTRUCTORS = {'__init__', '__new__', '_deserialize', 'deserialize', '_future_new', '__post_init__'}
MIN_BOTH = 11   # classes defining/inheriting both __eq__ and a usable __hash__, confirmed by hand


def _self_reads(f: FuncInfo, expr_root: Optional[ast.AST], repo: Repo, depth: int = 0) -> Set[str]:
    """self attributes read inside expr_root (or the whole body), with base-method calls followed."""
    out: Set[str] = set()
    sn = f.self_name()
    nodes = list(ast.walk(expr_root)) if expr_root is not None else list(f.body_nodes())
    cls = f.owner_class
    for n in nodes:
        if isinstance(n, ast.Attribute) and isinstance(n.value, ast.Name) and n.value.id == sn \
                and isinstance(n.ctx, ast.Load):
            # a method call on self is not a field read; a property is expanded
            m = cls.find_method(n.attr) if cls is not None else None
            if m is not None and m.is_property and depth < 3:
                out |= _self_reads(m, None, repo, depth + 1)
            elif m is not None:
                continue
            else:
                # maximal access path rooted at self: self.token.value -> 'token.value'
                top = n
                from ..model import parent as _parent
                while isinstance(_parent(top), ast.Attribute) and _parent(top).value is top and isinstance(_parent(top).ctx, ast.Load) \
                        and not (isinstance(_parent(_parent(top)), ast.Call) and _parent(_parent(top)).func is _parent(top)):
                    top = _parent(top)
                path = []
                x = top
                while x is not n:
                    path.append(x.attr)
                    x = x.value
                # a field compared through str() / repr() / bytes() is compared by a coarser notion than its own equality
                # (str(Token) forgets the terminal type): a different access path than the bare field
                pc = _parent(top)
                if f.name in ('__eq__', '__ne__') and isinstance(pc, ast.Call) and isinstance(pc.func, ast.Name) \
                        and pc.func.id in ('str', 'repr', 'bytes', 'len') and pc.args and pc.args[0] is top:
                    path = ['<%s>' % pc.func.id] + path
                out.add('.'.join([n.attr] + list(reversed(path))))
        elif isinstance(n, ast.Call):
            fn = n.func
            # type(self) -> pseudo attribute
            if isinstance(fn, ast.Name) and fn.id == 'type' and n.args and isinstance(n.args[0], ast.Name) \
                    and n.args[0].id == sn:
                out.add('<type>')
            if isinstance(fn, ast.Attribute) and fn.attr in ('__eq__', '__hash__') and depth < 3:
                target = None
                if isinstance(fn.value, ast.Call) and isinstance(fn.value.func, ast.Name) and fn.value.func.id == 'super':
                    if cls is not None:
                        for b in cls.mro()[1:]:
                            if fn.attr in b.methods:
                                target = b.methods[fn.attr]
                                break
                        if target is None:
                            out.add('<base>')
                else:
                    k = repo.resolve_class_expr(f.module, fn.value, f)
                    if k is not None:
                        target = k.find_method(fn.attr)
                    elif isinstance(fn.value, ast.Name) and fn.value.id in ('str', 'object', 'int', 'tuple'):
                        out.add('<base:%s>' % fn.value.id)
                if target is not None:
                    out |= _self_reads(target, None, repo, depth + 1)
    return out


def _hash_spec(k: ClassInfo, repo: Repo) -> Tuple[str, Optional[FuncInfo], Optional[str]]:
    """('method', f, None) | ('external', None, 'str') | ('none', ...) | ('default', ...)"""
    for c in k.mro():
        defines_eq = '__eq__' in c.methods
        if '__hash__' in c.methods:
            return 'method', c.methods['__hash__'], None
        if '__hash__' in c.class_attrs:
            v = c.class_attrs['__hash__']
            if isinstance(v, ast.Constant) and v.value is None:
                return 'none', None, None
            if isinstance(v, ast.Attribute) and v.attr == '__hash__':
                base = repo.resolve_class_expr(c.module, v.value)
                if base is not None:
                    m = base.find_method('__hash__')
                    if m is not None:
                        return 'method', m, None
                if isinstance(v.value, ast.Name):
                    return 'external', None, v.value.id
            return 'external', None, norm(v)
        if defines_eq:
            return 'none', None, None     # Python sets __hash__ = None
    return 'default', None, None


def _eq_method(k: ClassInfo) -> Optional[FuncInfo]:
    return k.find_method('__eq__')


def run(ctx: Ctx) -> RuleResult:
    repo = ctx.repo
    res = RuleResult(RULE, 'hash reads a subset of what equality compares; cached hashes recomputed on load; '
                           'hashed fields immutable after construction')
    both = 0
    eq_only = []
    for k in sorted(repo.classes.values(), key=lambda c: c.qual):
        eq = _eq_method(k)
        if eq is None:
            continue
        kind, hm, ext = _hash_spec(k, repo)
        props = CLASS_PROPS.get(k.qual)
        if props is None:
            for b in k.mro():
                if b.qual in CLASS_PROPS:
                    props = CLASS_PROPS[b.qual]
                    break
        site = '%s %s' % (k.module.loc(k.node), k.qual)
        if kind == 'none':
            eq_only.append(k.qual)
            continue
        if kind == 'default':
            # __eq__ inherited from object? cannot happen: eq is a package method
            continue
        f_eq = _self_reads(eq, None, repo)
        if kind == 'external':
            f_hash = {'<base:%s>' % ext}
            hdesc = '%s.__hash__' % ext
        else:
            assert hm is not None
            f_hash = _self_reads(hm, None, repo)
            hdesc = hm.qual
            # cached hash: trace to the defining expression(s)
            cached = [a for a in f_hash if a.startswith('_hash') or a == '_hash']
            if cached and len(f_hash) == 1:
                attr = cached[0]
                defs = []
                owner = hm.owner_class
                for c in k.mro():
                    for m in c.swept_methods():
                        sn = m.self_name()
                        for n in m.body_nodes():
                            if isinstance(n, ast.Assign):
                                for t in n.targets:
                                    if isinstance(t, ast.Attribute) and t.attr == attr and isinstance(t.value, ast.Name) \
                                            and t.value.id in (sn, 'inst'):
                                        defs.append((m, n.value))
                if not defs:
                    raise AnalysisError('%s: cached hash %s.%s has no defining assignment' % (RULE, k.qual, attr))
                f_hash = set()
                for m, v in defs:
                    f_hash |= _self_reads(m, v, repo)
                    # constructor parameters that were stored in a field stand for that field: self.token = token; hash(token)
                    msn = m.self_name()
                    alias = {}
                    for a in m.body_nodes():
                        if isinstance(a, ast.Assign) and isinstance(a.value, ast.Name):
                            for t in a.targets:
                                if isinstance(t, ast.Attribute) and isinstance(t.value, ast.Name) and t.value.id == msn:
                                    alias[a.value.id] = t.attr
                    for x in ast.walk(v):
                        if isinstance(x, ast.Name) and x.id in alias:
                            f_hash.add(alias[x.id])
                # Serialize: cache outside serialised fields must be recomputed in _deserialize
                ser = k.literal_attr('__serialize_fields__')
                if ser is not None and attr not in ser:
                    has = any(m.name == '_deserialize' for m, _ in defs)
                    ok = res.ob(site, 'cached hash %s recomputed in _deserialize' % attr, has, props)
                    if not ok:
                        res.finding(k.qual, k.node, 'Serialize class caches its hash in %s, which is not a serialised '
                                    'field, and no _deserialize recomputes it' % attr, construct=attr, props=props,
                                    module=k.module)
                # all defining expressions agree
                texts = {norm(v) for _, v in defs}
                ok = res.ob(site, 'all assignments of %s compute the same expression' % attr, len(texts) == 1, props)
                if not ok:
                    res.finding(k.qual, k.node, 'cached hash computed differently in different constructors: %s'
                                % sorted(texts), construct=attr, props=props, module=k.module)
        both += 1
        # closure: '<type>' is compared whenever __eq__ tests isinstance(other, type(self)) or type(self)==type(other)
        def _covered(p_):
            return any(p_ == q_ or p_.startswith(q_ + '.') for q_ in f_eq)
        extra = {p_ for p_ in f_hash if not _covered(p_)}
        # str content: Token.__eq__ delegates to str.__eq__
        ok = res.ob(site, 'fields read by %s %s are all compared by %s %s' % (hdesc, sorted(f_hash), eq.qual, sorted(f_eq)),
                    not extra, props)
        if not ok:
            res.finding(k.qual, eq.node, '__hash__ reads %s which __eq__ does not compare: two objects can be equal '
                        'with different hashes (set/dict lookups then depend on the hash seed)' % sorted(extra),
                        construct='hash%s vs eq%s' % (sorted(f_hash), sorted(f_eq)), props=props, module=k.module)
        # two field comparisons are joined by `and` (an `or` between them makes objects equal that differ in one hashed field: set
        # members vanish depending on the hash seed).  The identity shortcut `self is other or (...)` is the accepted `or`.
        osn0 = eq.self_name() or 'self'
        opar = (eq.positional_names() + ['other'])[0]

        def field_cmp(e) -> bool:
            return isinstance(e, ast.Compare) and len(e.ops) == 1 and isinstance(e.ops[0], (ast.Eq, ast.NotEq)) and \
                any(isinstance(x, ast.Attribute) and isinstance(x.value, ast.Name) and x.value.id == osn0 for x in ast.walk(e.left)) and \
                any(isinstance(x, ast.Attribute) and isinstance(x.value, ast.Name) and x.value.id == opar for x in ast.walk(e.comparators[0]))
        for bo in [b for b in eq.body_nodes() if isinstance(b, ast.BoolOp) and isinstance(b.op, ast.Or)]:
            n_f = [v for v in bo.values if field_cmp(v) and isinstance(v.ops[0], ast.Eq)]
            ok_or = len(n_f) < 2
            res.ob(site, 'no two field comparisons of %s are joined by `or`' % eq.qual, ok_or, props)
            if not ok_or:
                res.finding(k.qual, bo, '%s joins the comparisons of two fields by `or` (%s): objects that differ in one of the fields compare equal although their '
                            'hashes differ' % (eq.qual, norm(bo)[:90]), construct='eq-or:%s' % norm(bo)[:60], props=props, module=k.module)
        # hashed fields are compared by value, not by identity (equal-valued distinct objects hash alike and must compare equal,
        # otherwise sets keep duplicates that the hash says are the same)
        osn = eq.self_name()
        for cmp_ in [x for x in eq.body_nodes() if isinstance(x, ast.Compare)]:
            if len(cmp_.ops) == 1 and isinstance(cmp_.ops[0], (ast.Is, ast.IsNot)):
                l, r = cmp_.left, cmp_.comparators[0]
                if isinstance(l, ast.Attribute) and isinstance(r, ast.Attribute) and l.attr == r.attr and l.attr in {h_.split('.')[0] for h_ in f_hash} \
                        and isinstance(l.value, ast.Name) and isinstance(r.value, ast.Name) and {l.value.id, r.value.id} >= {osn} \
                        and l.value.id != r.value.id:
                    res.ob(site, 'hashed field %s is compared by value' % l.attr, False, props)
                    res.finding(k.qual, cmp_, '__eq__ compares the hashed field %s by identity: two nodes with equal (but distinct) '
                                'children hash alike yet compare unequal, so the same derivation is stored twice' % l.attr,
                                construct='identity-compare:%s' % l.attr, props=props, module=k.module)
        # fields behind a *cached* hash are not assigned outside constructors (the cache would go stale);
        # classes that hash on the fly (Tree, Symbol ...) are mutable by design and not constrained here
        is_cached = kind == 'method' and any(a.startswith('_hash') for a in _self_reads(hm, None, repo))
        for c in (k.mro() if is_cached else []):
            for m in c.swept_methods():
                if m.name in CONSTRUCTORS:
                    continue
                sn = m.self_name()
                for n in m.body_nodes():
                    tgts = []
                    if isinstance(n, ast.Assign):
                        tgts = n.targets
                    elif isinstance(n, (ast.AugAssign, ast.AnnAssign)):
                        tgts = [n.target]
                    for t in tgts:
                        if isinstance(t, ast.Attribute) and isinstance(t.value, ast.Name) and t.value.id == sn \
                                and t.attr in {h_.split('.')[0] for h_ in f_hash}:
                            res.ob(site, 'hashed field %s not assigned in %s' % (t.attr, m.qual), False, props)
                            res.finding(m, n, 'field %s takes part in the hash but is assigned after construction'
                                        % t.attr, props=props)
    res.tables['eq_only_unhashable_classes'] = eq_only
    res.require_instances(both, MIN_BOTH, 'classes with both __eq__ and __hash__')
    return res


# ------------------------------------------------------------------------------------------------
def run_identity(ctx: Ctx) -> RuleResult:
    """R-IDENTITY-EQ [C08 C13]: two values of a class that defines value equality are not compared with `is`.
    Wrappers such as InteractiveParser are created afresh around the same state (every failing parse_from_state
    attaches a new one to the exception), so an identity test between two of them is never true where equality
    is: the "same state again" guard of the on_error loop then never fires and parse() does not terminate.
    Comparisons with a module-level singleton / sentinel / class / None, and `self is other` shortcuts inside
    __eq__, are the accepted uses of `is`."""
    repo, ty = ctx.repo, ctx.typer
    res = RuleResult('R-IDENTITY-EQ', 'values of classes with value equality are not compared by identity')

    def singleton(f: FuncInfo, e: ast.AST) -> bool:
        if isinstance(e, ast.Constant):
            return True
        if isinstance(e, ast.Name):
            # a module-level name (sentinel instance, class, function), not a local
            local = e.id in {a.arg for a in f.params()} or any(
                isinstance(x, ast.Name) and x.id == e.id and isinstance(x.ctx, ast.Store) for x in f.body_nodes())
            g = f.parent
            while g is not None and not local:
                local = e.id in {a.arg for a in g.params()} or any(
                    isinstance(x, ast.Name) and x.id == e.id and isinstance(x.ctx, ast.Store) for x in g.body_nodes())
                g = g.parent
            return not local
        if isinstance(e, ast.Attribute) and isinstance(e.value, ast.Name):
            ts = ty.expr(f, e.value)
            return any(t.startswith(('T:', 'M:')) for t in ts)       # Class.SENTINEL / module.NAME
        return False

    def eq_classes(ts) -> List[str]:
        out = []
        for t in ts:
            if t.startswith('C:'):
                k = repo.classes.get(t[2:])
                if k is not None and k.find_method('__eq__') is not None:
                    out.append(k.qual)
        return sorted(out)

    n = 0
    for f in repo.functions.values():
        if f.module.name.startswith('lark.tools'):
            continue
        env = None
        for c in f.body_nodes():
            if not (isinstance(c, ast.Compare) and len(c.ops) == 1 and isinstance(c.ops[0], (ast.Is, ast.IsNot))):
                continue
            n += 1
            l, r = c.left, c.comparators[0]
            site = '%s %s' % (f.module.loc(c), f.qual)
            if singleton(f, l) or singleton(f, r):
                res.ob(site, '%s: identity with a constant / module-level singleton / class attribute' % norm(c), True)
                continue
            if f.name in ('__eq__', '__ne__') and f.self_name() in (norm(l), norm(r)):
                res.ob(site, '%s: identity shortcut inside %s' % (norm(c), f.name), True)
                continue
            if env is None:
                env = ty.env(f)
            kl, kr = eq_classes(ty.expr(f, l, env)), eq_classes(ty.expr(f, r, env))
            ok = not (kl and kr)
            res.ob(site, '%s: operands are not both instances of classes with value equality (%s / %s)' % (norm(c), kl or '-', kr or '-'), ok)
            if not ok:
                res.finding(f, c, '`%s` compares two %s objects by identity although the class defines __eq__: distinct wrappers around the '
                            'same state are equal but never identical, so a "same as before" test written with `is` never holds'
                            % (norm(c), kl[0].split(':')[1]), construct='identity:%s' % _shape(c))
    res.require_instances(n, 20, 'identity comparisons')
    return res


def _shape(c: ast.Compare) -> str:
    def tail(e):
        return e.attr if isinstance(e, ast.Attribute) else type(e).__name__
    return '%s-%s' % (tail(c.left), tail(c.comparators[0]))
