"""R-INDENT-PAIRING and R-SPLIT-TOTAL [C18, C08].

Structural proof of the balance clause of the Indenter: #INDENT emitted = #push, #DEDENT emitted = #pop,
the stack is drained to depth 1 at end of stream, nothing is emitted inside brackets, a dedent to a
column that is not an open level raises DedentError, the indentation width is spaces + tabs*tab_len of
the text after the *last* newline, and no partial string operation can raise on the newline token.
"""
from __future__ import annotations

import ast
from typing import Dict, List, Optional, Set, Tuple

from ..model import Repo, FuncInfo, AnalysisError, norm, parent, ancestors, enclosing_stmt, const_str
from ..report import Ctx, RuleResult
from ..cfg import cfg_of

IND = 'lark.indenter:Indenter'


def _block_of(stmt: ast.AST) -> Optional[List[ast.stmt]]:
    p = parent(stmt)
    for field in ('body', 'orelse', 'finalbody'):
        b = getattr(p, field, None)
        if isinstance(b, list) and stmt in b:
            return b
    return None


def _yields_type(stmt: ast.AST, sn: str, type_attr: str) -> List[ast.AST]:
    """yield expressions in stmt that create a token whose type argument is self.<type_attr>."""
    out = []
    for n in ast.walk(stmt):
        if isinstance(n, ast.Yield) and n.value is not None:
            for c in ast.walk(n.value):
                if isinstance(c, ast.Call) and c.args and norm(c.args[0]) == '%s.%s' % (sn, type_attr):
                    out.append(n)
                    break
    return out


def _yields_on_path(stmts: List[ast.stmt], sn: str, type_attr: str) -> Tuple[int, int]:
    """(min, max) number of such yields executed by one pass through a statement list: the two arms of an `if` are
    alternatives, not a sum (`yield A if c else B` and its if-statement spelling both count once); loops count their
    body once (they are looked at separately)."""
    lo = hi = 0
    for st in stmts:
        if isinstance(st, ast.If):
            a = _yields_on_path(st.body, sn, type_attr)
            b = _yields_on_path(st.orelse, sn, type_attr)
            own = len(_yields_type(st.test, sn, type_attr))
            lo += own + min(a[0], b[0])
            hi += own + max(a[1], b[1])
        elif isinstance(st, (ast.For, ast.While, ast.With, ast.Try)):
            inner: List[ast.stmt] = []
            for field in ('body', 'orelse', 'finalbody'):
                inner += getattr(st, field, []) or []
            a = _yields_on_path(inner, sn, type_attr)
            lo += a[0]
            hi += a[1]
        else:
            k_ = len(_yields_type(st, sn, type_attr))
            lo += k_
            hi += k_
    return lo, hi


def _cmp(test: ast.AST) -> Optional[Tuple[str, str, str]]:
    if isinstance(test, ast.Compare) and len(test.ops) == 1:
        return norm(test.left), type(test.ops[0]).__name__, norm(test.comparators[0])
    return None


def _flip(op: str) -> str:
    return {'Gt': 'Lt', 'Lt': 'Gt', 'GtE': 'LtE', 'LtE': 'GtE', 'Eq': 'Eq', 'NotEq': 'NotEq'}.get(op, op)


def _is_cmp(test: ast.AST, left: str, op: str, right: str) -> bool:
    c = _cmp(test)
    if c is None:
        return False
    return c == (left, op, right) or c == (right, _flip(op), left)


def run_pairing(ctx: Ctx) -> RuleResult:
    repo = ctx.repo
    res = RuleResult('R-INDENT-PAIRING', 'Indenter: one INDENT per push (guarded by indent > top), one DEDENT per pop, '
                                         'drain to depth 1 at end, nothing inside brackets, DedentError on a bad dedent, '
                                         'width = spaces + tabs*tab_len after the last newline')
    k = repo.cls(IND)
    hnl = k.methods.get('handle_NL')
    proc = k.methods.get('_process')
    if hnl is None or proc is None:
        raise AnalysisError('Indenter.handle_NL/_process not found (anchor vanished)')
    sn = hnl.self_name()
    top = '%s.indent_level[-1]' % sn
    site_h = '%s %s' % (hnl.loc(), hnl.qual)
    site_p = '%s %s' % (proc.loc(), proc.qual)

    def fail(f: FuncInfo, node, msg, construct):
        res.finding(f, node, msg, construct=construct)

    # -- which local is the indentation width? ------------------------------------------------
    width_var, text_var = None, None
    for n in hnl.body_nodes():
        if isinstance(n, ast.Assign) and len(n.targets) == 1 and isinstance(n.targets[0], ast.Name):
            cnt = [c for c in ast.walk(n.value) if isinstance(c, ast.Call) and isinstance(c.func, ast.Attribute)
                   and c.func.attr == 'count' and c.args]
            if len(cnt) >= 2:
                width_var = n.targets[0].id
                width_stmt = n
    ok = width_var is not None
    res.ob(site_h, 'indentation width is computed from character counts', ok)
    if not ok:
        fail(hnl, hnl.node, 'cannot find the indentation width computation (count of spaces and tabs)', 'width')
        return res
    v = width_stmt.value
    # spaces + tabs * tab_len
    terms = []
    stack = [v]
    while stack:
        x = stack.pop()
        if isinstance(x, ast.BinOp) and isinstance(x.op, ast.Add):
            stack += [x.left, x.right]
        else:
            terms.append(x)
    sp = [t for t in terms if isinstance(t, ast.Call) and isinstance(t.func, ast.Attribute) and t.func.attr == 'count'
          and const_str(t.args[0]) == ' ']
    tb = [t for t in terms if isinstance(t, ast.BinOp) and isinstance(t.op, ast.Mult)
          and any(isinstance(s, ast.Call) and isinstance(s.func, ast.Attribute) and s.func.attr == 'count'
                  and const_str(s.args[0]) == '\t' for s in (t.left, t.right))
          and any(norm(s) == '%s.tab_len' % sn for s in (t.left, t.right))]
    ok = len(terms) == 2 and len(sp) == 1 and len(tb) == 1
    res.ob(site_h, 'width == count(" ") + count("\\t") * tab_len', ok)
    if not ok:
        fail(hnl, width_stmt, 'indentation width is not spaces + tabs * tab_len', 'width=' + norm(v))
    else:
        srcs = {norm(sp[0].func.value)} | {norm(s.func.value) for s in (tb[0].left, tb[0].right) if isinstance(s, ast.Call)}
        ok = len(srcs) == 1
        res.ob(site_h, 'spaces and tabs are counted in the same string', ok)
        if not ok:
            fail(hnl, width_stmt, 'spaces and tabs are counted in different strings %s' % sorted(srcs), 'width-src')
        text_var = sorted(srcs)[0]
    # the counted string is the text after the last newline of the token
    tok_param = hnl.positional_names()[0] if hnl.positional_names() else 'token'
    if text_var is not None:
        all_defs = [n for n in hnl.body_nodes() if isinstance(n, ast.Assign) and len(n.targets) == 1
                    and isinstance(n.targets[0], ast.Name) and n.targets[0].id == text_var]
        # the definition that splits the token; a second one may be the '' of the "no newline in the token" arm
        defs = [d for d in all_defs if any(isinstance(c, ast.Call) and isinstance(c.func, ast.Attribute)
                                           and c.func.attr in ('rsplit', 'split', 'rpartition', 'partition') for c in ast.walk(d.value))]
        others = [d for d in all_defs if d not in defs]
        ok = False
        recv = None
        splits = []
        if len(defs) == 1:
            splits = [c for c in ast.walk(defs[0].value) if isinstance(c, ast.Call) and isinstance(c.func, ast.Attribute)
                      and c.func.attr in ('rsplit', 'split', 'rpartition', 'partition')]
            if len(splits) == 1:
                c = splits[0]
                sub = [x for x in ast.walk(defs[0].value) if isinstance(x, ast.Subscript) and x.value is c]
                idx = norm(sub[0].slice) if sub else None
                recv = norm(c.func.value)
                if c.func.attr == 'rsplit' and c.args and const_str(c.args[0]) == '\n' and idx in ('1', '-1') \
                        and recv in (tok_param, tok_param + '.value'):
                    ok = True
                if c.func.attr == 'split' and c.args and const_str(c.args[0]) == '\n' and len(c.args) == 1 and idx == '-1' \
                        and recv in (tok_param, tok_param + '.value'):
                    ok = True
                if c.func.attr == 'rpartition' and c.args and const_str(c.args[0]) == '\n' and idx in ('2', '-1') \
                        and recv in (tok_param, tok_param + '.value'):
                    ok = True
        # ... and a newline token WITHOUT a newline (a comment at end of input) contributes no indentation at all:
        # the split is conditional on the separator being present, with '' otherwise
        if ok:
            cond_ok = False
            v0 = defs[0].value
            if isinstance(v0, ast.IfExp):
                cond_ok = _contains_in_test(v0.test, "'\\n'", recv) and isinstance(v0.orelse, ast.Constant) \
                    and v0.orelse.value == '' and any(x is splits[0] for x in ast.walk(v0.body))
            guard = parent(defs[0])
            if isinstance(guard, ast.If) and defs[0] in guard.body and _contains_in_test(guard.test, "'\\n'", recv) \
                    and len(others) == 1 and others[0] in guard.orelse and isinstance(others[0].value, ast.Constant) \
                    and others[0].value.value == '':
                cond_ok = True
            if isinstance(guard, ast.If) and defs[0] in guard.orelse and len(others) == 1 and others[0] in guard.body \
                    and isinstance(others[0].value, ast.Constant) and others[0].value.value == '' \
                    and isinstance(guard.test, ast.Compare) and isinstance(guard.test.ops[0], ast.NotIn) and const_str(guard.test.left) == '\n':
                cond_ok = True
            if not cond_ok and not others:
                # or: an earlier `if '\n' not in token: return`
                for st in hnl.node.body:
                    if isinstance(st, ast.If) and isinstance(st.test, ast.Compare) and isinstance(st.test.ops[0], ast.NotIn) \
                            and const_str(st.test.left) == '\n' and any(isinstance(x, ast.Return) for x in st.body) \
                            and st.lineno < defs[0].lineno:
                        cond_ok = True
            res.ob(site_h, 'a newline token that contains no newline yields empty indentation (no INDENT/DEDENT)', cond_ok)
            if not cond_ok:
                fail(hnl, defs[0], 'for a newline token without a newline (a comment ending the input) the whole token is measured as '
                                   'indentation: a spurious INDENT / DedentError where CPython produces neither', 'indent-text-no-newline')
        # ... and a last line that holds more than indentation (a comment ending the input: the newline terminal
        # of python.lark is ( /\\r?\\n[\\t ]*/ | COMMENT )+ ) is not measured: counting characters anywhere in it would
        # add the blanks inside the comment to the width
        counted = sorted({const_str(c.args[0]) for c in ast.walk(width_stmt.value) if isinstance(c, ast.Call)
                          and isinstance(c.func, ast.Attribute) and c.func.attr == 'count' and c.args and const_str(c.args[0])})
        guard_ok = False
        for st in hnl.node.body:
            if st.lineno >= width_stmt.lineno or not isinstance(st, ast.If) or st.orelse:
                continue
            t = st.test
            if isinstance(t, ast.Compare) and len(t.ops) == 1 and isinstance(t.ops[0], ast.NotEq) and const_str(t.comparators[0]) == '':
                t = t.left
            if isinstance(t, ast.Call) and isinstance(t.func, ast.Attribute) and t.func.attr in ('strip', 'lstrip') \
                    and norm(t.func.value) == text_var and len(t.args) == 1 and const_str(t.args[0]) is not None \
                    and sorted(set(const_str(t.args[0]))) == counted and len(st.body) >= 1 and isinstance(st.body[-1], ast.Return) \
                    and st.body[-1].value is None and not any(isinstance(x, (ast.Yield, ast.YieldFrom)) for b_ in st.body for x in ast.walk(b_)):
                guard_ok = True
        res.ob(site_h, 'only text made of the counted characters %r is measured (a last line with other content is skipped)' % counted, guard_ok)
        if not guard_ok:
            fail(hnl, width_stmt, 'the characters %r are counted anywhere in the text after the last newline: a comment on the last line '
                                  '(part of the newline token when it ends the input) adds its blanks to the indentation -- a spurious '
                                  'INDENT / DEDENT / DedentError where CPython produces none' % counted, 'indent-text-not-only-indentation')
        res.ob(site_h, 'the counted text is what follows the LAST newline of the newline token', ok)
        if not ok:
            fail(hnl, defs[0] if defs else hnl.node, 'indentation is not taken from the text after the last newline of the token',
                 'indent-text=' + (norm(defs[0].value) if defs else '?'))

    # -- pushes -----------------------------------------------------------------------------
    pushes, pops, other_mut = [], [], []
    for m in k.swept_methods():
        if m.name in ('__init__',):
            continue
        msn = m.self_name()
        for n in m.body_nodes():
            if isinstance(n, ast.Call) and isinstance(n.func, ast.Attribute) and norm(n.func.value) == '%s.indent_level' % msn:
                if n.func.attr == 'append':
                    pushes.append((m, n))
                elif n.func.attr == 'pop':
                    pops.append((m, n))
                elif n.func.attr in ('extend', 'insert', 'remove', 'clear', 'sort', 'reverse', '__setitem__'):
                    other_mut.append((m, n))
            if isinstance(n, (ast.Assign, ast.AugAssign, ast.Delete)):
                tg = n.targets if isinstance(n, (ast.Assign, ast.Delete)) else [n.target]
                for t in tg:
                    if (isinstance(t, ast.Attribute) and t.attr == 'indent_level' and m.name != 'process') or \
                            (isinstance(t, ast.Subscript) and norm(t.value) == '%s.indent_level' % msn):
                        other_mut.append((m, n))
    res.require_instances(len(pushes), 1, 'indent_level.append sites')
    res.require_instances(len(pops), 2, 'indent_level.pop sites')
    ok = not other_mut
    res.ob(site_h, 'indent_level is modified only by append/pop (and the reset in process)', ok)
    for m, n in other_mut:
        fail(m, n, 'indent_level is modified other than by a paired push/pop', 'other-mutation:' + norm(n)[:60])
    for m, n in pushes:
        st = enclosing_stmt(n)
        blk = _block_of(st) or []
        ys = [None] * _yields_on_path(blk, m.self_name(), 'INDENT_type')[1] if _yields_on_path(blk, m.self_name(), 'INDENT_type')[0] == \
            _yields_on_path(blk, m.self_name(), 'INDENT_type')[1] else [None] * 99
        ok = len(ys) == 1 and norm(n.args[0]) == width_var
        res.ob(m.loc(n), 'push of the new width is paired with exactly one INDENT in the same block', ok)
        if not ok:
            fail(m, st, 'a level is pushed without emitting exactly one INDENT (found %d) or pushes something other than '
                        'the measured width' % len(ys), 'push-pairing')
        guards = [a for a in ancestors(st) if isinstance(a, ast.If) and st in a.body]
        ok = any(_is_cmp(g.test, width_var, 'Gt', top) for g in guards)
        res.ob(m.loc(n), 'push guarded by width > top of stack', ok)
        if not ok:
            fail(m, st, 'INDENT is not emitted exactly when the new indentation exceeds the current level '
                        '(guard %s)' % [norm(g.test) for g in guards], 'push-guard')
    # INDENT yields only at pushes
    all_ind = [None] * sum(_yields_on_path(m.node.body, m.self_name() or 'self', 'INDENT_type')[1] for m in k.swept_methods())
    ok = len(all_ind) == len(pushes)
    res.ob(site_h, 'no INDENT is emitted without a push', ok)
    if not ok:
        fail(hnl, hnl.node, '%d INDENT yields for %d pushes' % (len(all_ind), len(pushes)), 'indent-count')

    # -- pops -------------------------------------------------------------------------------
    for m, n in pops:
        st = enclosing_stmt(n)
        blk = _block_of(st) or []
        ys = _yields_on_path(blk, m.self_name(), 'DEDENT_type')
        ok = ys == (1, 1)
        res.ob(m.loc(n), 'pop is paired with exactly one DEDENT in the same block (on every path through it)', ok)
        if not ok:
            fail(m, st, 'a level is popped without emitting exactly one DEDENT (between %d and %d on the paths of the block)' % ys, 'pop-pairing')
        loops = [a for a in ancestors(st) if isinstance(a, ast.While) and st in a.body]
        if m is hnl:
            ok = any(_is_cmp(l.test, width_var, 'Lt', top) for l in loops)
            res.ob(m.loc(n), 'levels are closed while width < top of stack', ok)
            if not ok:
                fail(m, st, 'DEDENT loop condition is not `width < top of stack` (%s)' % [norm(l.test) for l in loops], 'pop-guard')
        else:
            ok = any(_is_cmp(l.test, 'len(%s.indent_level)' % m.self_name(), 'Gt', '1') for l in loops)
            res.ob(m.loc(n), 'end-of-stream drain pops while depth > 1', ok)
            if not ok:
                fail(m, st, 'end-of-stream drain does not pop down to exactly the base level (%s)'
                     % [norm(l.test) for l in loops], 'drain-guard')
    all_ded = [None] * sum(_yields_on_path(m.node.body, m.self_name() or 'self', 'DEDENT_type')[1] for m in k.swept_methods())
    ok = len(all_ded) == len(pops)
    res.ob(site_h, 'no DEDENT is emitted without a pop', ok)
    if not ok:
        fail(hnl, hnl.node, '%d DEDENT yields for %d pops' % (len(all_ded), len(pops)), 'dedent-count')

    # -- DedentError on a dedent to a column that is not an open level -------------------------
    raises = [n for n in hnl.body_nodes() if isinstance(n, ast.Raise) and n.exc is not None and 'DedentError' in norm(n.exc)]
    ok = False
    for r in raises:
        g = [a for a in ancestors(r) if isinstance(a, ast.If) and r in a.body]
        if g and _is_cmp(g[0].test, width_var, 'NotEq', top):
            # must come after the dedent loop in the same block
            blk = _block_of(g[0]) or []
            i = blk.index(g[0])
            ok = any(isinstance(s, ast.While) for s in blk[:i])
    res.ob(site_h, 'after closing levels, width != top raises DedentError', ok)
    if not ok:
        fail(hnl, hnl.node, 'a dedent to a column that is not an open level does not raise DedentError', 'dedent-error')

    # -- brackets -----------------------------------------------------------------------------
    from ..model import core_stmts
    first = (core_stmts(hnl.node.body) or [None])[0]
    ok = isinstance(first, ast.If) and _is_cmp(first.test, '%s.paren_level' % sn, 'Gt', '0') \
        and len(first.body) == 1 and isinstance(first.body[0], ast.Return) and not first.orelse
    res.ob(site_h, 'handle_NL returns before emitting anything when paren_level > 0', ok)
    if not ok:
        fail(hnl, first or hnl.node, 'newlines inside brackets are not ignored up front (`if paren_level > 0: return`)',
             'paren-guard')
    psn = proc.self_name()
    incs, decs = [], []
    for m in k.swept_methods():
        for n in m.body_nodes():
            if isinstance(n, ast.AugAssign) and isinstance(n.target, ast.Attribute) and n.target.attr == 'paren_level':
                (incs if isinstance(n.op, ast.Add) else decs).append((m, n))
            elif isinstance(n, ast.Assign) and m.name not in ('__init__', 'process'):
                for t in n.targets:
                    if isinstance(t, ast.Attribute) and t.attr == 'paren_level':
                        incs.append((m, n))
    ok = len(incs) == 1 and len(decs) == 1
    res.ob(site_p, 'paren_level has exactly one increment and one decrement site', ok)
    if not ok:
        fail(proc, proc.node, 'paren_level is updated at %d increment / %d decrement sites' % (len(incs), len(decs)), 'paren-sites')
    else:
        for (m, n), attr, what in ((incs[0], 'OPEN_PAREN_types', 'opening'), (decs[0], 'CLOSE_PAREN_types', 'closing')):
            g = [a for a in ancestors(n) if isinstance(a, ast.If) and n in a.body]
            okg = bool(g) and isinstance(g[0].test, ast.Compare) and len(g[0].test.ops) == 1 \
                and isinstance(g[0].test.ops[0], ast.In) and norm(g[0].test.comparators[0]) == '%s.%s' % (psn, attr) \
                and norm(g[0].test.left).endswith('.type') and isinstance(n.value, ast.Constant) and n.value.value == 1
            res.ob(m.loc(n), 'paren_level changes by 1 exactly on %s bracket tokens' % what, okg)
            if not okg:
                fail(m, n, 'paren_level update is not guarded by `token.type in %s`' % attr, 'paren-' + what)
    # -- _process: NL tokens go through handle_NL, everything else is passed on, drain after loop ----
    loops = [n for n in proc.node.body if isinstance(n, ast.For)]
    ok = len(loops) == 1
    if ok:
        loop = loops[0]
        tv = loop.target.id if isinstance(loop.target, ast.Name) else None
        ifs = [s for s in loop.body if isinstance(s, ast.If) and _is_cmp(s.test, '%s.type' % tv, 'Eq', '%s.NL_type' % psn)]
        ok = len(ifs) == 1
        if ok:
            nl_if = ifs[0]
            yf = [n for s in nl_if.body for n in ast.walk(s) if isinstance(n, ast.YieldFrom)
                  and isinstance(n.value, ast.Call) and norm(n.value.func) == '%s.handle_NL' % psn
                  and n.value.args and norm(n.value.args[0]) == tv]
            ye = [n for s in nl_if.orelse for n in ast.walk(s) if isinstance(n, ast.Yield) and n.value is not None and norm(n.value) == tv]
            ok = len(yf) == 1 and len(ye) == 1
        # the drain loop comes after the token loop
        idx = proc.node.body.index(loop)
        ok = ok and any(isinstance(s, ast.While) for s in proc.node.body[idx + 1:])
    res.ob(site_p, 'every token is passed on (newline tokens through handle_NL), and the drain follows the token loop', ok)
    if not ok:
        fail(proc, proc.node, '_process does not pass every token on / route newline tokens through handle_NL / drain after the loop',
             'process-shape')
    # a token is handed on before the bracket depth is checked: the parser, not an assertion of the post-lexer, reports an
    # unmatched closing bracket (as UnexpectedToken at that token)
    loops_p = [l for l in proc.node.body if isinstance(l, ast.For)]
    ok = False
    if len(loops_p) == 1:
        lp_ = loops_p[0]
        tv = lp_.target.id if isinstance(lp_.target, ast.Name) else None
        order_ok = True
        handed = False
        for st in lp_.body:
            has_yield = any(isinstance(y, (ast.Yield, ast.YieldFrom)) for y in ast.walk(st))
            has_check = any(isinstance(y, (ast.Assert, ast.Raise)) for y in ast.walk(st))
            if has_check and not handed:
                order_ok = False
            if has_yield:
                handed = True
        ok = order_ok and handed and tv is not None
    res.ob(site_p, 'each token is handed on before any assertion about it can fail', ok, props=['C08', 'C18'])
    if not ok:
        res.finding(proc, loops_p[0] if loops_p else proc.node, 'the bracket depth is checked (assert) before the token has been passed on: an unmatched '
                    'closing bracket raises AssertionError from the token stream instead of reaching the parser, which would report '
                    'UnexpectedToken at it', construct='assert-before-yield', props=['C08', 'C18'])
    # handle_NL passes the newline token itself on before INDENT/DEDENT
    ys = [n for n in hnl.body_nodes() if isinstance(n, ast.Yield)]
    ys.sort(key=lambda n: (n.lineno, n.col_offset))
    ok = bool(ys) and ys[0].value is not None and norm(ys[0].value) == tok_param
    res.ob(site_h, 'the newline token itself is emitted first', ok)
    if not ok:
        fail(hnl, hnl.node, 'the newline token is not passed on before INDENT/DEDENT', 'nl-first')
    for f_ in res.findings:
        if f_.props is None:
            f_.props = ['C18']
    return res


# ------------------------------------------------------------------------------------------------
def run_split_total(ctx: Ctx) -> RuleResult:
    """An index [k], k >= 1, into str.split/rsplit(sep, k) must be dominated by a `sep in s` test."""
    repo = ctx.repo
    res = RuleResult('R-SPLIT-TOTAL', 'no partial index into the result of split/rsplit on the input path')
    scope = ['lark.indenter', 'lark.lexer', 'lark.exceptions', 'lark.parser_frontends', 'lark.parsers.lalr_parser',
             'lark.parsers.lalr_parser_state', 'lark.parsers.lalr_interactive_parser', 'lark.parsers.xearley',
             'lark.parsers.earley', 'lark.utils']
    n_sites = 0
    for f in repo.functions.values():
        if f.module.name not in scope:
            continue
        for n in f.body_nodes():
            if not (isinstance(n, ast.Subscript) and isinstance(n.value, ast.Call) and isinstance(n.value.func, ast.Attribute)
                    and n.value.func.attr in ('split', 'rsplit')):
                continue
            c = n.value
            n_sites += 1
            idx = n.slice
            site = '%s %s' % (f.loc(n), f.qual)
            if isinstance(idx, ast.Slice):
                res.ob(site, norm(n) + ': slice (total)', True)
                continue
            ival = None
            try:
                ival = ast.literal_eval(idx)
            except Exception:
                pass
            if ival in (0, -1):
                res.ob(site, norm(n) + ': index %s is total' % ival, True)
                continue
            # guarded?
            sep = norm(c.args[0]) if c.args else None
            recv = norm(c.func.value)
            guarded = False
            p = n
            for a in ancestors(n):
                if isinstance(a, ast.IfExp) and (p is a.body) and _contains_in_test(a.test, sep, recv):
                    guarded = True
                if isinstance(a, ast.If) and p in a.body and _contains_in_test(a.test, sep, recv):
                    guarded = True
                p = a
            props = ['C08', 'C18'] if f.module.name == 'lark.indenter' else ['C08']
            res.ob(site, norm(n) + ': partial index guarded by `%s in %s`' % (sep, recv), guarded)
            if not guarded:
                res.finding(f, enclosing_stmt(n), 'index %s into %s raises IndexError when the separator is absent '
                            '(an input-dependent crash that is not an UnexpectedInput)' % (norm(idx), norm(c)),
                            construct=norm(n), props=props)
    res.require_instances(n_sites, 3, 'subscripted split/rsplit calls')
    return res


def _contains_in_test(test: ast.AST, sep: Optional[str], recv: str) -> bool:
    for c in ast.walk(test):
        if isinstance(c, ast.Compare) and len(c.ops) == 1 and isinstance(c.ops[0], ast.In) \
                and norm(c.left) == sep and norm(c.comparators[0]) == recv:
            return True
    return False


# ------------------------------------------------------------------------------------------------
# R-INDENT-GRAMMAR: the bundled Python grammar and PythonIndenter agree on what a newline token is.
import re as _re

_TERM_DEF = _re.compile(r'^(?P<name>[_A-Z][_A-Z0-9]*)(?:\.\d+)?\s*:(?P<body>.*)$')


def _grammar_terminals(text: str) -> Dict[str, Tuple[int, str]]:
    """name -> (line, definition text) of the terminal definitions of a .lark file (continuation lines joined)."""
    out: Dict[str, Tuple[int, str]] = {}
    cur = None
    for i, raw in enumerate(text.splitlines(), 1):
        line = raw.split('//')[0] if not _re.search(r'/[^/]*//', raw) else raw    # keep lines whose // may sit in a regexp
        m = _TERM_DEF.match(line)
        if m:
            cur = m.group('name')
            out[cur] = (i, m.group('body').strip())
        elif cur and line[:1] in (' ', '\t') and line.strip().startswith('|'):
            out[cur] = (out[cur][0], out[cur][1] + ' ' + line.strip())
        elif line.strip():
            cur = None
    return out


def _regex_literals(defn: str) -> List[Tuple[str, str]]:
    """(pattern, flags) of the /.../flags literals of a terminal definition."""
    out = []
    i = 0
    while i < len(defn):
        ch = defn[i]
        if ch == '"':
            j = i + 1
            while j < len(defn) and defn[j] != '"':
                j += 2 if defn[j] == '\\' else 1
            i = j + 1
        elif ch == '/':
            j = i + 1
            while j < len(defn) and defn[j] != '/':
                j += 2 if defn[j] == '\\' else 1
            pat_ = defn[i + 1:j]
            k = j + 1
            while k < len(defn) and defn[k].isalpha():
                k += 1
            out.append((pat_, defn[j + 1:k]))
            i = k
        else:
            i += 1
    return out


def _charset(item) -> Optional[Set[int]]:
    """Character set of a one-character regex node (sre parse tree), None when not a plain set."""
    import re._constants as C     # the regex parser of the standard library: a syntax tree, nothing is matched
    op, av = item
    if op is C.LITERAL:
        return {av}
    if op is C.IN:
        s: Set[int] = set()
        for o, a in av:
            if o is C.LITERAL:
                s.add(a)
            elif o is C.RANGE:
                s |= set(range(a[0], a[1] + 1))
            elif o is C.CATEGORY and a is C.CATEGORY_SPACE:
                s |= {9, 10, 11, 12, 13, 32}
            else:
                return None
        return s
    return None


def _indent_tail(pattern: str) -> Tuple[bool, Optional[Set[int]]]:
    """(has a newline, set of characters repeated after the last newline) for a regexp whose top level is a sequence."""
    import re._parser as P
    import re._constants as C
    seq = list(P.parse(pattern))
    last = None
    for i, it in enumerate(seq):
        cs = _charset(it)
        if cs is not None and 10 in cs:
            last = i
        elif it[0] in (C.MAX_REPEAT, C.MIN_REPEAT):
            inner = list(it[1][2])
            if any((_charset(x) or set()) & {10} for x in inner):
                last = i
    if last is None:
        return False, None
    tail = seq[last + 1:]
    if len(tail) == 1 and tail[0][0] is C.MAX_REPEAT and tail[0][1][0] == 0 and tail[0][1][1] == C.MAXREPEAT \
            and len(tail[0][1][2]) == 1:
        return True, _charset(list(tail[0][1][2])[0])
    if not tail and seq[last][0] is C.MAX_REPEAT:
        return True, None
    return True, set() if not tail else None


def run_grammar(ctx: Ctx) -> RuleResult:
    repo = ctx.repo
    res = RuleResult('R-INDENT-GRAMMAR', 'lark/grammars/python.lark and PythonIndenter agree: the newline terminal captures the '
                                         'indentation characters the Indenter counts; INDENT/DEDENT are declared; bracket terminals exist')
    k = repo.cls('lark.indenter:PythonIndenter')
    base = repo.cls(IND)
    hnl = base.methods.get('handle_NL')
    if hnl is None:
        raise AnalysisError('Indenter.handle_NL not found (anchor vanished)')
    counted = sorted({const_str(c.args[0]) for c in hnl.body_nodes() if isinstance(c, ast.Call) and isinstance(c.func, ast.Attribute)
                      and c.func.attr == 'count' and c.args and const_str(c.args[0])})
    if not counted:
        raise AnalysisError('no counted indentation characters found in Indenter.handle_NL')
    rel = 'lark/grammars/python.lark'
    text = repo.text(rel)
    terms = _grammar_terminals(text)

    def lit(name):
        v = k.literal_attr(name)
        if v is None:
            raise AnalysisError('PythonIndenter.%s is not a literal (anchor vanished)' % name)
        return v
    nl = lit('NL_type')
    site = '%s:%s' % (rel, terms[nl][0] if nl in terms else 1)
    ok = nl in terms
    res.ob(site, 'the newline terminal %s of PythonIndenter is defined by the grammar' % nl, ok)
    if not ok:
        res.finding('lark/grammars/python.lark', None, 'terminal %s (PythonIndenter.NL_type) is not defined in python.lark' % nl,
                    construct='nl-terminal-missing', file=rel, line=terms.get(nl, (1, ''))[0])
        return res
    n_re = 0
    for pattern, flags in _regex_literals(terms[nl][1]):
        try:
            has_nl, tail = _indent_tail(pattern)
        except Exception as e:          # not a regexp the stdlib parser reads: report, do not guess
            raise AnalysisError('cannot parse the regexp /%s/ of %s: %s' % (pattern, nl, e))
        if not has_nl:
            continue
        n_re += 1
        ok = tail is not None and {ord(c) for c in counted} <= tail
        res.ob(site, 'after its last newline, /%s/ captures a run of a class containing every counted character %r' % (pattern, counted), ok)
        if not ok:
            res.finding('lark/grammars/python.lark', None,
                        'the newline terminal %s = /%s/ does not capture the indentation that Indenter.handle_NL measures (a run of %r after '
                        'the last newline; found %s): indentation made of the missing characters is eaten by %%ignore and the line is seen '
                        'at a smaller column -- INDENT/DEDENT differ from CPython' % (
                            nl, pattern, counted, sorted(chr(c) for c in tail) if tail is not None else 'no such run'),
                        construct='nl-terminal-indent:' + pattern, file=rel, line=terms.get(nl, (1, ''))[0])
    res.require_instances(n_re, 1, 'regexps with a newline in the newline terminal')
    # a comment-only line must not show up as a line of its own: every named terminal the grammar %ignores that starts like a
    # comment (its definition is a regexp beginning with `#`) is also an alternative inside the newline terminal, so the comment
    # and the newlines around it are one token (CPython ignores comment lines for indentation)
    ignored = [m.group(1) for m in _re.finditer(r'^%ignore\s+([A-Z_][A-Z_0-9]*)\s*(?://.*)?$', text, _re.M)]
    for ig in ignored:
        if ig not in terms:
            continue
        lits = _regex_literals(terms[ig][1])
        if not any(p_.startswith('#') for p_, _f in lits):
            continue
        ok = bool(_re.search(r'(?<![A-Z_0-9])%s(?![A-Z_0-9])' % _re.escape(ig), terms[nl][1]))
        res.ob(site, 'the ignored comment terminal %s is an alternative of the newline terminal %s' % (ig, nl), ok)
        if not ok:
            res.finding('lark/grammars/python.lark', None, 'the comment terminal %s is %%ignore-d but is not part of the newline terminal %s: a comment-only '
                        'line then yields a newline token of its own whose indentation the Indenter measures -- INDENT/DEDENT/DedentError for a '
                        'line CPython ignores' % (ig, nl), construct='nl-terminal-comment:' + ig, file=rel, line=terms.get(nl, (1, ''))[0])
    # blank lines and comment lines between two statements belong to ONE newline token (the Indenter looks at the text after the token's
    # last newline): the newline terminal is a repetition `( ... )+` of its alternatives
    body_nl = terms[nl][1].split('//')[0].strip()
    ok = bool(_re.search(r'\)\s*\+\s*$', body_nl)) or bool(_re.search(r'\)\s*~\s*1\s*\.\.', body_nl))
    res.ob(site, 'the newline terminal %s is a one-or-more repetition of its alternatives' % nl, ok)
    if not ok:
        res.finding('lark/grammars/python.lark', None, 'the newline terminal %s is defined as `%s`, not as a repetition `( ... )+`: a blank or comment line after a '
                    'statement becomes a newline token of its own, and the indentation of that line (none) dedents the block -- CPython ignores such lines'
                    % (nl, body_nl[:60]), construct='nl-terminal-repetition', file=rel, line=terms.get(nl, (1, ''))[0])
    # an explicit line continuation (backslash, optional blanks, newline) is ignored text, so the physical newline inside it is no NEWLINE token
    conts = []
    for m in _re.finditer(r'^%ignore\s+/((?:[^/\\\n]|\\.)+)/([a-z]*)', text, _re.M):
        pat_ = m.group(1)
        try:
            import re._parser as _sp
            seq = list(_sp.parse(pat_))
        except Exception as e:
            raise AnalysisError('cannot parse the ignored regexp /%s/: %s' % (pat_, e))
        if seq and str(seq[0][0]) == 'LITERAL' and seq[0][1] == ord('\\'):
            conts.append((pat_, seq, text[:m.start()].count('\n') + 1))
    okc = False
    whyc = 'no ignored regexp starts with a backslash'
    for pat_, seq, ln_ in conts:
        rest = seq[1:]
        # optional blanks: a repeat with minimum 0 (or nothing), then an optional \r and the newline
        if rest and str(rest[0][0]) in ('MAX_REPEAT', 'MIN_REPEAT'):
            mn_, _mx, _sub = rest[0][1]
            if mn_ != 0:
                whyc = 'the blanks between the backslash and the line break are required (/%s/): a backslash directly before the line break no longer joins lines' % pat_
                continue
            rest = rest[1:]
        nl_ok = any(str(op_) == 'LITERAL' and av_ == 10 for op_, av_ in rest) or any(str(op_) == 'LITERAL' and av_ == 10 for op_, av_ in seq)
        if nl_ok:
            okc = True
    res.ob(site, 'a backslash, optional blanks and the line break are ignored text (explicit line joining)', okc)
    if not okc:
        res.finding('lark/grammars/python.lark', None, 'explicit line joining: %s -- the line break stays a newline token and the Indenter measures the continuation line'
                    % whyc, construct='line-continuation', file=rel, line=conts[0][2] if conts else 1)
    declared = set()
    for m in _re.finditer(r'^%declare\s+(.*)$', text, _re.M):
        declared |= set(m.group(1).split('//')[0].split())
    for attr in ('INDENT_type', 'DEDENT_type'):
        v = lit(attr)
        ok = v in declared or v in terms
        res.ob(rel, '%s (%s) is declared by the grammar' % (v, attr), ok)
        if not ok:
            res.finding('lark/grammars/python.lark', None, '%s = %s is neither %%declare-d nor defined in python.lark' % (attr, v),
                        construct='declare:' + attr, file=rel, line=terms.get(nl, (1, ''))[0])
    # bracket terminals: the names load_grammar gives the anonymous tokens "(" "[" "{" ...
    names = repo.modules['lark.load_grammar'].const('_TERMINAL_NAMES')
    if not isinstance(names, dict):
        raise AnalysisError('_TERMINAL_NAMES of load_grammar is not a literal dict (anchor vanished)')
    by_name = {v: k_ for k_, v in names.items()}
    op, cl = lit('OPEN_PAREN_types'), lit('CLOSE_PAREN_types')
    ok = isinstance(op, (list, tuple)) and isinstance(cl, (list, tuple)) and len(op) == len(cl) and len(set(op) | set(cl)) == 2 * len(op)
    res.ob('%s %s' % (k.module.loc(k.node), k.qual), 'as many distinct opening as closing bracket types', ok)
    if not ok:
        res.finding(k.qual, k.node, 'OPEN_PAREN_types / CLOSE_PAREN_types are not two disjoint lists of equal length', construct='paren-lists',
                    module=k.module)
    pairs = {'(': ')', '[': ']', '{': '}'}
    for o_, c_ in zip(op or [], cl or []):
        lo, lc = by_name.get(o_), by_name.get(c_)
        ok = (lo in pairs and pairs[lo] == lc and ('"%s"' % lo) in text and ('"%s"' % lc) in text) or (o_ in terms and c_ in terms)
        res.ob(rel, 'bracket types %s/%s name a matching pair of tokens the grammar uses' % (o_, c_), ok)
        if not ok:
            res.finding('lark/grammars/python.lark', None, 'bracket types %s/%s of PythonIndenter are not the names of a matching bracket pair '
                        'used by python.lark (%r/%r)' % (o_, c_, lo, lc), construct='paren-pair:%s/%s' % (o_, c_), file=rel, line=terms.get(nl, (1, ''))[0])
    return res
