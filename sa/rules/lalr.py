"""R-LALR-DRIVER, R-LALR-TABLE [C02]: the parts of "LALR(1): conflicts reported, accepted language sound" that are in the shape of the code.

C02 as a whole (the automaton is *the* LALR(1) automaton of the grammar, for all grammars) is algorithmic and is not decided.
Decided here, each a necessary condition:

R-LALR-DRIVER  (ParserState.feed_token -- the shift/reduce loop)
  d1  the state stack and the value stack move in lockstep: on every path through one round of the loop each gets exactly one push, and
      they lose the same number of slices;
  d2  a reduction takes `len(rule.expansion)` entries -- the arguments are read off the value stack *before* both stacks are cut by that
      same amount, and the goto state is looked up *after* the cut, from the new top of the state stack and the rule's origin;
  d3  a shift returns (the token is consumed once); a reduction does not (the same token is looked at again), except for the accepting
      return, which needs `is_end` and the end state on top;
  d4  the action is looked up in the row of the current top of the state stack, read anew in every round, under the token's type.

R-LALR-TABLE   (LALR_Analyzer.compute_lalr1_states / compute_lookaheads)
  t1  shift actions are the LR(0) transitions;
  t2  two rules competing for one lookahead are resolved only by a *strictly* greater priority of the best over the second best of a
      descending sort (missing priority = 0); otherwise the conflict is recorded and no action is stored;
  t3  a recorded reduce/reduce conflict raises GrammarError (after all states were examined);
  t4  a reduce action is stored only where no shift action exists (shift/reduce resolves as shift; strict mode raises instead);
  t5  the lookahead sets are Follow = digraph(includes, Read) with Read = digraph(reads, DR), distributed through lookback;
  t6  `includes` relates (p', B) to (p, A) only when the rest of the rule after B is nullable (every position after it, up to the end), and
      only for non-terminal transitions; `lookback` pairs the final state of a rule walked from its start with that rule;
  t7  DR holds the terminals shiftable after the transition, `reads` its nullable non-terminals; the start transition reads `$END`;
  t8  the digraph traversal keeps the smaller positive stack depth, unions F[y] into F[x] for every successor, and pops a whole
      strongly connected component when the depth is unchanged.
"""
from __future__ import annotations

import ast
from typing import Dict, List, Optional, Set, Tuple

from ..model import Repo, FuncInfo, AnalysisError, norm, parent, ancestors, enclosing_stmt, const_str
from ..report import Ctx, RuleResult
from ..exprs import path_vectors, path_conditions, bool_relation, runs_only_if, linear, find_pat, has_pat, as_less

PS = 'lark.parsers.lalr_parser_state:ParserState'
LA = 'lark.parsers.lalr_analysis:'


def _pe(text: str) -> ast.AST:
    return ast.parse(text, mode='eval').body


def _stmt_index_map(f: FuncInfo) -> Dict[int, int]:
    """source order of statements (line, col) -> rank"""
    sts = sorted((s for s in ast.walk(f.node) if isinstance(s, ast.stmt)), key=lambda s: (s.lineno, s.col_offset))
    return {id(s): i for i, s in enumerate(sts)}


# ------------------------------------------------------------------------------------------------------------------------
def run_driver(ctx: Ctx) -> RuleResult:
    repo = ctx.repo
    res = RuleResult('R-LALR-DRIVER', 'the LALR shift/reduce loop keeps its two stacks in lockstep, reduces by the rule\'s length, looks the goto '
                                      'up after the cut, consumes the token exactly on a shift')
    f = repo.func(PS + '.feed_token')
    site = '%s %s' % (f.loc(), f.qual)
    loops = [n for n in f.node.body if isinstance(n, ast.While)]
    if len(loops) != 1:
        raise AnalysisError('R-LALR-DRIVER: feed_token is not one loop')
    loop = loops[0]
    # the two stacks: what is cut with `del X[-k:]`
    # local aliases of self.<stack> (when the canonical form is off, or where it had to keep them)
    alias = {a.targets[0].id: norm(a.value) for a in f.body_nodes() if isinstance(a, ast.Assign) and len(a.targets) == 1
             and isinstance(a.targets[0], ast.Name) and isinstance(a.value, ast.Attribute) and a.value.attr.endswith('_stack')}

    def canon(e: ast.AST) -> str:
        t = norm(e)
        return alias.get(t, t)
    dels = [d for d in ast.walk(loop) if isinstance(d, ast.Delete)]
    cut: Dict[str, List[ast.Delete]] = {}
    for d in dels:
        for t in d.targets:
            if isinstance(t, ast.Subscript) and isinstance(t.slice, ast.Slice) and t.slice.lower is not None and t.slice.upper is None:
                cut.setdefault(canon(t.value), []).append(d)
    stacks = sorted(cut)
    ok = len(stacks) == 2
    res.ob(site, 'd1: exactly two stacks are cut in the loop (%s)' % stacks, ok)
    if not ok:
        res.finding(f, loop, 'a reduction cuts %s: the state stack and the value stack must both lose the reduced entries' % (stacks or 'nothing'),
                    construct='d1:stacks')
        return res
    vs = next((s for s in stacks if 'value' in s), stacks[1])
    ss = next((s for s in stacks if s != vs))

    def is_push(stack):
        return lambda x: isinstance(x, ast.Call) and isinstance(x.func, ast.Attribute) and x.func.attr == 'append' and canon(x.func.value) == stack

    def is_cut(stack):
        return lambda x: isinstance(x, ast.Delete) and any(isinstance(t, ast.Subscript) and canon(t.value) == stack for t in x.targets)
    vecs = path_vectors(loop.body, [is_push(ss), is_push(vs), is_cut(ss), is_cut(vs)])
    bad = sorted(v for v in vecs if not (v[0] == v[1] == 1 and v[2] == v[3]))
    ok = not bad and bool(vecs)
    res.ob(site, 'd1: every round pushes once on each stack and cuts both alike (paths: %s)' % sorted(vecs), ok)
    if not ok:
        res.finding(f, loop, 'a round of the shift/reduce loop changes the stacks by (pushes on %s, pushes on %s, cuts of %s, cuts of %s) = %s: the two '
                    'stacks fall out of step (states no longer belong to the values under them)' % (ss, vs, ss, vs, bad[:3]), construct='d1:lockstep')
    # d2: the amount
    lowers = [t.slice.lower for d in dels for t in d.targets if isinstance(t, ast.Subscript) and isinstance(t.slice, ast.Slice) and t.slice.lower is not None]
    defs1 = {}
    for a_ in f.body_nodes():
        if isinstance(a_, ast.Assign) and len(a_.targets) == 1 and isinstance(a_.targets[0], ast.Name):
            defs1.setdefault(a_.targets[0].id, []).append(a_.value)

    def amount(l) -> Optional[str]:
        """the text of X when the slice bound is -len(X.expansion), directly or through a local defined once"""
        if not (isinstance(l, ast.UnaryOp) and isinstance(l.op, ast.USub)):
            return None
        e = l.operand
        if isinstance(e, ast.Name) and len(defs1.get(e.id, [])) == 1:
            e = defs1[e.id][0]
        if isinstance(e, ast.Call) and norm(e.func) == 'len' and len(e.args) == 1 and isinstance(e.args[0], ast.Attribute) and e.args[0].attr == 'expansion':
            return norm(e.args[0].value)
        return None
    amts = {amount(l) for l in lowers}
    ok = len(amts) == 1 and None not in amts
    rule_name = next(iter(amts)) if ok else None
    size = rule_name
    why = 'the stacks are cut from %s, expected from minus the length of the reduced rule\'s expansion on both' % sorted(norm(l) for l in lowers)
    res.ob(site, 'd2: both stacks are cut by len(<rule>.expansion)', ok)
    if not ok:
        res.finding(f, dels[0], 'a reduction does not remove exactly the entries of the rule\'s right-hand side (%s)' % why, construct='d2:amount')
    # d2: order -- arguments before the cut, goto after it
    rank = _stmt_index_map(f)
    args_reads = [s for s in ast.walk(loop) if isinstance(s, ast.Subscript) and isinstance(s.ctx, ast.Load) and canon(s.value) == vs
                  and isinstance(s.slice, ast.Slice) and s.slice.lower is not None and s.slice.upper is None and size is not None and amount(s.slice.lower) == size]
    ok = len(args_reads) == 1
    why = 'the arguments of the reduction are not the top len(%s.expansion) entries of the value stack' % size
    if ok:
        rd = enclosing_stmt(args_reads[0])
        ok = all(rank[id(rd)] < rank[id(d)] for d in dels)
        why = 'the arguments are read after the value stack was cut'
    res.ob(site, 'd2: the reduction\'s arguments are the top entries of the value stack, read before the cut', ok)
    if not ok:
        res.finding(f, dels[0], 'reduction arguments: %s' % why, construct='d2:args')
    def top_of(e, stack) -> bool:
        return isinstance(e, ast.Subscript) and canon(e.value) == stack and norm(e.slice) == '-1'
    tpar = f.positional_names()[0]
    gotos = [s for s in ast.walk(loop) if isinstance(s, ast.Subscript) and isinstance(s.ctx, ast.Load) and isinstance(s.value, ast.Subscript)
             and top_of(s.value.slice, ss) and norm(s.slice) != tpar + '.type']
    ok = len(gotos) == 1
    why = 'no lookup in the row of the new top of the state stack'
    if ok:
        g = gotos[0]
        ok = rule_name is not None and norm(g.slice) == rule_name + '.origin.name' and all(rank[id(enclosing_stmt(g))] > rank[id(d)] for d in dels)
        why = 'the goto is looked up under %s (expected %s.origin.name), %s the cut' % (norm(g.slice), rule_name,
                                                                                       'after' if all(rank[id(enclosing_stmt(g))] > rank[id(d)] for d in dels) else 'BEFORE')
        if ok:
            # what is pushed on the state stack afterwards is the state found there
            st_ = enclosing_stmt(g)
            tgt = [norm(e) for t in (st_.targets if isinstance(st_, ast.Assign) else []) for e in (t.elts if isinstance(t, ast.Tuple) else [t])]
            pushes = [c for c in ast.walk(loop) if is_push(ss)(c) and rank[id(enclosing_stmt(c))] > rank[id(st_)]]
            ok = bool(pushes) and all(norm(c.args[0]) in tgt for c in pushes)
            why = 'the state pushed after a reduction is not the goto that was looked up'
    res.ob(site, 'd2: the goto state is looked up after the cut, from the new top state and the rule\'s origin, and pushed', ok)
    if not ok:
        res.finding(f, gotos[0] if gotos else loop, 'goto after a reduction: %s' % why, construct='d2:goto')
    # d3: returns
    rets = [r for r in ast.walk(loop) if isinstance(r, ast.Return)]
    # names: the action is what the lookup under token.type is unpacked into; is_end the second parameter; the end state an attribute
    # `.end_state` (or a local holding it)
    pnames = f.positional_names()
    ISEND = pnames[1] if len(pnames) > 1 else 'is_end'
    act_names = set()
    for a_ in ast.walk(loop):
        if isinstance(a_, ast.Assign) and isinstance(a_.targets[0], ast.Tuple) and len(a_.targets[0].elts) == 2 and isinstance(a_.value, ast.Subscript) \
                and norm(a_.value.slice) == pnames[0] + '.type':
            act_names.add(norm(a_.targets[0].elts[0]))
    end_names = {a_.targets[0].id for a_ in f.body_nodes() if isinstance(a_, ast.Assign) and len(a_.targets) == 1 and isinstance(a_.targets[0], ast.Name)
                 and isinstance(a_.value, ast.Attribute) and a_.value.attr == 'end_state'}

    def is_shift_test(t) -> bool:
        return isinstance(t, ast.Compare) and len(t.ops) == 1 and isinstance(t.ops[0], ast.Is) and norm(t.left) in act_names and norm(t.comparators[0]) == 'Shift'
    shift_rets = [r for r in rets if any(is_shift_test(t) and pol for t, pol in path_conditions(r))]
    other = [r for r in rets if r not in shift_rets]
    ok = len(shift_rets) >= 1 and all(r.value is None for r in shift_rets)
    res.ob(site, 'd3: a shift ends the call', ok)
    if not ok:
        res.finding(f, loop, 'feed_token does not return after shifting the token: the token is shifted again in the next round', construct='d3:shift-returns')
    ok = True
    why = ''
    for r in other:
        conds = path_conditions(r)
        has_end = any(norm(t) == ISEND and pol for t, pol in conds) or any(isinstance(t, ast.BoolOp) and isinstance(t.op, ast.And) and pol and
                                                                          any(norm(v) == ISEND for v in t.values) for t, pol in conds)
        top_end = any(pol and any(top_of(x, ss) for x in ast.walk(t)) and any((isinstance(x, ast.Attribute) and x.attr == 'end_state') or
                                                                                (isinstance(x, ast.Name) and x.id in end_names) for x in ast.walk(t))
                      for t, pol in conds)
        if not (has_end and top_end):
            ok = False
            why = 'a return after a reduction under %s' % [('' if p_ else 'not ') + norm(t) for t, p_ in conds][-2:]
    res.ob(site, 'd3: after a reduction the loop goes on; it returns only for is_end with the end state on top', ok and bool(other))
    if not (ok and other):
        res.finding(f, other[0] if other else loop, 'the accepting return of the reduce branch changed (%s): a reduction must be followed by another '
                    'look at the same token, and the parse is over only when $END was fed and the end state is on top'
                    % (why or 'no accepting return'), construct='d3:accept')
    # d4: the action lookup
    look = [s for s in ast.walk(loop) if isinstance(s, ast.Subscript) and isinstance(s.ctx, ast.Load) and isinstance(s.value, ast.Subscript)
            and norm(s.slice).endswith('.type')]
    ok = len(look) == 1
    why = 'no lookup under the token\'s type'
    if ok:
        row = look[0].value.slice
        tparam = f.positional_names()[0]
        ok = norm(look[0].slice) == tparam + '.type'
        why = 'the action is looked up under %s' % norm(look[0].slice)
        if ok:
            if top_of(row, ss):
                pass
            else:
                d_ = [a for a in loop.body if isinstance(a, ast.Assign) and len(a.targets) == 1 and norm(a.targets[0]) == norm(row)]
                ok = len(d_) == 1 and top_of(d_[0].value, ss)
                why = 'the row `%s` is not the top of the state stack read at the start of every round' % norm(row)
    res.ob(site, 'd4: the action comes from the row of the current top state, under the token\'s type', ok)
    if not ok:
        res.finding(f, look[0] if look else loop, 'action lookup: %s' % why, construct='d4:lookup')
    return res


# ------------------------------------------------------------------------------------------------------------------------
def run_table(ctx: Ctx) -> RuleResult:
    repo = ctx.repo
    res = RuleResult('R-LALR-TABLE', 'LALR action table: shifts from transitions, reduce/reduce resolved only by strict priority, shift preferred, '
                                     'conflicts raised; lookaheads composed as Follow = digraph(includes, digraph(reads, DR)) through lookback')
    f = repo.func(LA + 'LALR_Analyzer.compute_lalr1_states')
    site = '%s %s' % (f.loc(), f.qual)
    # t1
    acts = [a for a in f.body_nodes() if isinstance(a, (ast.Assign, ast.AnnAssign)) and isinstance(a.value, ast.DictComp)
            and isinstance(a.value.value, ast.Tuple) and a.value.value.elts and norm(a.value.value.elts[0]) == 'Shift']
    ok = len(acts) == 1 and norm(acts[0].value.generators[0].iter).endswith('.transitions.items()') and not acts[0].value.generators[0].ifs
    actions = norm(acts[0].targets[0] if isinstance(acts[0], ast.Assign) else acts[0].target) if acts else 'actions'
    if ok:
        g = acts[0].value.generators[0]
        kv = [norm(e) for e in g.target.elts] if isinstance(g.target, ast.Tuple) else []
        ok = len(kv) == 2 and norm(acts[0].value.key) == kv[0] and norm(acts[0].value.value.elts[1]).startswith(kv[1])
    res.ob(site, 't1: the shift actions of a state are all its LR(0) transitions', ok)
    if not ok:
        res.finding(f, acts[0] if acts else f.node, 'the shift actions are no longer exactly the transitions of the item set', construct='t1:shifts')
    # t2: strict priority.  Recognised spellings: `p.sort(..., reverse=True)` / `p = sorted(..., reverse=True)`; the best two as
    # `best, second = p[:2]`, as `p[0]` / `p[1]` (directly or through locals); the strict test in either orientation; the outcome acted on
    # at once (`rules = {best[1]}` / record + continue) or through a local that is None on a tie (`if winner is None: record; continue`).
    sorts = [c for c in f.body_nodes() if isinstance(c, ast.Call) and ((isinstance(c.func, ast.Attribute) and c.func.attr == 'sort') or norm(c.func) == 'sorted')]
    if not sorts:
        raise AnalysisError('R-LALR-TABLE: compute_lalr1_states: no sort of the competing rules found (priority resolution not recognised)')
    desc = [c for c in sorts if any(k.arg == 'reverse' and isinstance(k.value, ast.Constant) and k.value.value is True for k in c.keywords)]
    wins: List[ast.If] = []
    rr_names: Set[str] = set()
    ok = len(desc) == 1 and len(sorts) == 1
    why = 'the competing rules are not sorted by descending priority (reverse=True)'
    if ok:
        srt = desc[0]
        if isinstance(srt.func, ast.Attribute):
            plist = norm(srt.func.value)
        else:
            asg = parent(srt)
            if not (isinstance(asg, ast.Assign) and len(asg.targets) == 1):
                raise AnalysisError('R-LALR-TABLE: compute_lalr1_states: the sorted list is not kept in a local')
            plist = norm(asg.targets[0])
        # the sort key is the priority (first component of the pairs)
        keyk = next((k.value for k in srt.keywords if k.arg == 'key'), None)
        key_ok = isinstance(keyk, ast.Lambda) and norm(keyk.body) == '%s[0]' % keyk.args.args[0].arg
        elem: Dict[str, int] = {'%s[0]' % plist: 0, '%s[1]' % plist: 1}
        import re as _re

        def const_index(e) -> Optional[int]:
            m_ = _re.fullmatch(_re.escape(plist) + r'\[(-?\d+)\]', norm(e))
            return int(m_.group(1)) if m_ else None
        for a_ in f.body_nodes():
            if isinstance(a_, ast.Assign) and len(a_.targets) == 1:
                t0 = a_.targets[0]
                if isinstance(t0, ast.Tuple) and len(t0.elts) == 2 and isinstance(a_.value, ast.Subscript) and norm(a_.value.value) == plist \
                        and isinstance(a_.value.slice, ast.Slice) and a_.value.slice.lower is None and a_.value.slice.upper is not None and norm(a_.value.slice.upper) == '2':
                    elem[norm(t0.elts[0])] = 0
                    elem[norm(t0.elts[1])] = 1
                elif isinstance(t0, ast.Name) and const_index(a_.value) is not None:
                    elem[t0.id] = const_index(a_.value)
                elif isinstance(t0, ast.Tuple) and isinstance(a_.value, ast.Tuple) and len(t0.elts) == len(a_.value.elts):
                    for te, ve in zip(t0.elts, a_.value.elts):
                        if isinstance(te, ast.Name) and const_index(ve) is not None:
                            elem[te.id] = const_index(ve)

        def prio_of(e) -> Optional[int]:
            """0 / 1 when e is the priority component of the best / second best"""
            if isinstance(e, ast.Subscript) and norm(e.slice) == '0' and norm(e.value) in elem:
                return elem[norm(e.value)]
            if isinstance(e, ast.Subscript) and norm(e.slice) == '0' and const_index(e.value) is not None:
                return const_index(e.value)
            return None

        def _rel(t_):
            neg_ = False
            while isinstance(t_, ast.UnaryOp) and isinstance(t_.op, ast.Not):
                t_, neg_ = t_.operand, not neg_
            # `(rule if C else None) is None` (a looked-through helper that answers None on a tie) reads `not C`
            if isinstance(t_, ast.Compare) and len(t_.ops) == 1 and isinstance(t_.ops[0], (ast.Is, ast.IsNot)) and norm(t_.comparators[0]) == 'None' \
                    and isinstance(t_.left, ast.IfExp) and (norm(t_.left.orelse) == 'None') != (norm(t_.left.body) == 'None'):
                inner_neg = norm(t_.left.body) == 'None'
                if isinstance(t_.ops[0], ast.Is):
                    neg_ = not neg_
                if inner_neg:
                    neg_ = not neg_
                t_ = t_.left.test
                while isinstance(t_, ast.UnaryOp) and isinstance(t_.op, ast.Not):
                    t_, neg_ = t_.operand, not neg_
            al = as_less(t_)
            if al is None:
                return None
            lo_, op_, hi_ = prio_of(al[0]), al[1], prio_of(al[2])
            if (lo_, op_, hi_) == (1, '<', 0):          # second < best
                return 'negated' if neg_ else 'same'
            if (lo_, op_, hi_) == (0, '<=', 1):         # best <= second
                return 'same' if neg_ else 'negated'
            if lo_ is not None and hi_ is not None:
                return 'other:%s' % norm(t_)
            return None
        cands = [i_ for i_ in f.body_nodes() if isinstance(i_, ast.If) and _rel(i_.test) is not None]
        if not cands:
            cmp_any = [c for c in f.body_nodes() if isinstance(c, ast.Compare) and len(c.ops) == 1 and any(prio_of(x) is not None for x in (c.left, c.comparators[0]))]
            if not cmp_any:
                raise AnalysisError('R-LALR-TABLE: compute_lalr1_states: cannot find the comparison of the two best priorities')
        wins = [i_ for i_ in cands if _rel(i_.test) in ('same', 'negated')]
        ok = key_ok and len(wins) == 1 and len(cands) == 1
        why = 'the winner is not decided by "priority of the best > priority of the second best" on a list sorted by priority (%s)' % (
            [str(_rel(i_.test)) for i_ in cands] or 'key=%s' % (norm(keyk) if keyk is not None else None))
        if ok:
            w = wins[0]
            neg = _rel(w.test) == 'negated'
            win_arm, lose_arm = (w.orelse, w.body) if neg else (w.body, w.orelse)
            if not win_arm and lose_arm and isinstance(lose_arm[-1], (ast.Continue, ast.Return, ast.Raise, ast.Break)):
                blk = parent(w)
                for fld in ('body', 'orelse'):
                    seq_ = getattr(blk, fld, None)
                    if isinstance(seq_, list) and w in seq_:
                        win_arm = seq_[seq_.index(w) + 1:]
            best_rule = {k + '[1]' for k, v in elem.items() if v == 0}

            def records(stmts):
                return [c for s_ in stmts for c in ast.walk(s_) if isinstance(c, ast.Call) and isinstance(c.func, ast.Attribute) and c.func.attr == 'append']
            win_asg = [s_ for s_ in win_arm if isinstance(s_, ast.Assign) and any(norm(x) in best_rule for x in ast.walk(s_.value))]
            direct = bool(win_asg) and bool(records(lose_arm)) and any(isinstance(s_, ast.Continue) for s_ in lose_arm)
            via_none = False
            if win_asg and not direct:
                wv = norm(win_asg[0].targets[0])
                none_in_lose = any(isinstance(s_, ast.Assign) and norm(s_.targets[0]) == wv and norm(s_.value) == 'None' for s_ in lose_arm)
                tests_none = [i_ for i_ in f.body_nodes() if isinstance(i_, ast.If) and bool_relation(i_.test, _pe('%s is None' % wv)) in ('same', 'negated')]
                if none_in_lose and len(tests_none) == 1:
                    tn = tests_none[0]
                    arm = tn.body if bool_relation(tn.test, _pe('%s is None' % wv)) == 'same' else tn.orelse
                    via_none = bool(records(arm)) and any(isinstance(s_, ast.Continue) for s_ in arm)
                    if via_none:
                        rr_names |= {norm(c.func.value) for c in records(arm)}
            ok = direct or via_none
            if direct:
                rr_names |= {norm(c.func.value) for c in records(lose_arm)}
            why = 'with a strict winner its rule must be taken, without one the conflict must be recorded and the lookahead skipped'
        if ok:
            prios = [n for n in f.body_nodes() if isinstance(n, ast.BoolOp) and isinstance(n.op, ast.Or) and norm(n.values[0]).endswith('.options.priority')]
            ok = len(prios) == 1 and norm(prios[0].values[1]) == '0'
            why = 'a rule without priority does not count as priority 0'
    res.ob(site, 't2: competing reductions are resolved only by a strictly greater priority (descending sort, best two, missing = 0)', ok)
    if not ok:
        res.finding(f, wins[0] if wins else (desc[0] if desc else sorts[0]), 'reduce/reduce resolution changed (%s): a tie must be a conflict, the higher '
                    'priority must win' % why, construct='t2:priority')
    # t3: conflicts raise
    ok = False
    if not rr_names:
        rr_names = {norm(a_.targets[0]) for a_ in f.node.body if isinstance(a_, ast.Assign) and isinstance(a_.value, ast.List) and not a_.value.elts
                    and 'reduce' in norm(a_.targets[0])}
    for rrn in rr_names:
        for i_ in f.node.body:
            if isinstance(i_, ast.If) and norm(i_.test) == rrn and any(isinstance(x, ast.Raise) and 'GrammarError' in norm(x) for x in ast.walk(i_)):
                ok = True
    res.ob(site, 't3: recorded reduce/reduce conflicts raise GrammarError once all states were examined', ok)
    if not ok:
        res.finding(f, f.node, 'a recorded reduce/reduce conflict no longer raises GrammarError', construct='t3:raise')
    # t4: shift preference
    stores = [a for a in f.body_nodes() if isinstance(a, ast.Assign) and len(a.targets) == 1 and isinstance(a.targets[0], ast.Subscript)
              and norm(a.targets[0].value) == actions and isinstance(a.value, ast.Tuple) and a.value.elts and norm(a.value.elts[0]) == 'Reduce']
    ok = len(stores) == 1
    why = 'no single place stores the reduce action'
    if ok:
        key = norm(stores[0].targets[0].slice)
        ok = runs_only_if(stores[0], _pe('%s not in %s' % (key, actions)))
        why = 'the reduce action is stored under %s' % [('' if p_ else 'not ') + norm(t) for t, p_ in path_conditions(stores[0])][-2:]
    res.ob(site, 't4: a reduce action is stored only where the state has no shift action for the lookahead', ok)
    if not ok:
        res.finding(f, stores[0] if stores else f.node, 'shift/reduce conflicts are no longer resolved as shift (%s)' % why, construct='t4:shift-preferred')
    # t5: composition
    g = repo.func(LA + 'LALR_Analyzer.compute_lookaheads')
    sn = g.self_name() or 'self'
    inner = '%s(%s.nonterminal_transitions, %s.reads, %s.directly_reads)' % ('digraph', sn, sn, sn)
    calls = [c for c in g.body_nodes() if isinstance(c, ast.Call) and norm(c.func) == 'digraph']
    loc_ = {a.targets[0].id: a.value for a in g.body_nodes() if isinstance(a, ast.Assign) and len(a.targets) == 1 and isinstance(a.targets[0], ast.Name)}

    def res_(e):
        return loc_[e.id] if isinstance(e, ast.Name) and e.id in loc_ else e
    outer = [c for c in calls if len(c.args) == 3 and norm(c.args[1]) == '%s.includes' % sn]
    ok = len(calls) == 2 and len(outer) == 1 and norm(res_(outer[0].args[2])) == inner and norm(outer[0].args[0]) == '%s.nonterminal_transitions' % sn
    res.ob('%s %s' % (g.loc(), g.qual), 't5: Follow = digraph(transitions, includes, digraph(transitions, reads, directly_reads))', ok)
    if not ok:
        res.finding(g, g.node, 'the lookahead sets are not composed as Follow = digraph(includes, Read), Read = digraph(reads, DR): %s'
                    % [norm(c)[:90] for c in calls], construct='t5:composition')
    # ... and distributed through lookback
    adds = [c for c in g.body_nodes() if isinstance(c, ast.Call) and isinstance(c.func, ast.Attribute) and c.func.attr == 'add'
            and isinstance(c.func.value, ast.Subscript) and norm(c.func.value.value).endswith('.lookaheads')]
    ok = len(adds) == 1
    if ok:
        a_ = adds[0]
        loops_ = [l for l in ancestors(a_) if isinstance(l, ast.For)]
        its = [norm(l.iter) for l in loops_]
        fs = norm(outer[0]) if outer else ''
        fsname = next((k for k, v in loc_.items() if v is (outer[0] if outer else None)), None)
        ok = any(i_.endswith('.lookback.items()') for i_ in its) and any((fsname and i_.startswith(fsname + '[')) or i_.startswith(fs + '[') for i_ in its)
        if ok:
            lb = next(l for l in loops_ if norm(l.iter).endswith('.lookback.items()'))
            ntv = norm(lb.target.elts[0]) if isinstance(lb.target, ast.Tuple) else '?'
            fl = next(l for l in loops_ if (fsname and norm(l.iter).startswith(fsname + '[')) or norm(l.iter).startswith(fs + '['))
            ok = norm(fl.iter).endswith('[%s]' % ntv) and norm(a_.func.value.slice) == norm(fl.target)
            pair = next((l for l in loops_ if isinstance(l.target, ast.Tuple) and l is not lb), None)
            ok = ok and pair is not None and norm(a_.func.value.value) == norm(pair.target.elts[0]) + '.lookaheads' and norm(a_.args[0]) == norm(pair.target.elts[1])
    res.ob('%s %s' % (g.loc(), g.qual), 't5: every rule looked back to from a transition gets that transition\'s Follow set as lookaheads (in its state)', ok)
    if not ok:
        res.finding(g, g.node, 'the Follow sets are not distributed as: for (state, rule) in lookback[nt]: for s in Follow[nt]: state.lookaheads[s].add(rule)',
                    construct='t5:distribution')
    _relations(repo, res)
    _digraph(repo, res)
    return res


def _relations(repo: Repo, res: RuleResult):
    f = repo.func(LA + 'LALR_Analyzer.compute_includes_lookback')
    site = '%s %s' % (f.loc(), f.qual)
    sn = f.self_name() or 'self'
    # t6: the nullable-suffix test.  Canonical form: `if all(X[j] in self.NULLABLE for j in range(i + 1, len(X))): <add>` (a for/else with
    # break, or a boolean helper with an early `return False`, reads the same after normalisation N15 / look-through P2); also accepted:
    # a slice `all(s in self.NULLABLE for s in X[i + 1:])`.
    quants = [c for c in f.body_nodes() if isinstance(c, ast.Call) and norm(c.func) in ('all', 'any') and len(c.args) == 1
              and isinstance(c.args[0], (ast.GeneratorExp, ast.ListComp)) and '%s.NULLABLE' % sn in norm(c.args[0].elt)]
    if len(quants) != 1:
        raise AnalysisError('R-LALR-TABLE: compute_includes_lookback: cannot find the test of the rule\'s suffix against NULLABLE (found %d candidates)' % len(quants))
    q = quants[0]
    gen = q.args[0]
    g0 = gen.generators[0]
    outer = next((l for l in ancestors(q) if isinstance(l, ast.For) and isinstance(l.iter, ast.Call) and norm(l.iter.func) == 'range' and isinstance(l.target, ast.Name)), None)
    if outer is None or len(gen.generators) != 1 or g0.ifs:
        raise AnalysisError('R-LALR-TABLE: compute_includes_lookback: the suffix test is not inside the walk over the rule (for i in range(...))')
    i_ = outer.target.id
    el = gen.elt
    neg = False
    while isinstance(el, ast.UnaryOp) and isinstance(el.op, ast.Not):
        el, neg = el.operand, not neg
    ok = isinstance(el, ast.Compare) and len(el.ops) == 1 and isinstance(el.ops[0], (ast.In, ast.NotIn)) and norm(el.comparators[0]) == '%s.NULLABLE' % sn
    why = 'the quantified test is %s' % norm(gen.elt)
    inc_add = None
    if ok:
        member_pos = isinstance(el.ops[0], ast.In) != neg          # True: "is nullable"
        universal = norm(q.func) == 'all'
        # the consumer: the test position the quantifier sits in
        st_q = enclosing_stmt(q)
        pol = True
        p_ = parent(q)
        while isinstance(p_, ast.UnaryOp) and isinstance(p_.op, ast.Not):
            pol, p_ = not pol, parent(p_)
        # all(nullable) == not any(not nullable)
        says_all_nullable = (universal and member_pos and pol) or ((not universal) and (not member_pos) and (not pol))
        ok = says_all_nullable and isinstance(st_q, ast.If)
        why = 'the includes edge is added when %s%s(%s ...)' % ('' if pol else 'not ', norm(q.func), norm(gen.elt))
        if ok:
            # the range
            seq = None
            if isinstance(g0.iter, ast.Call) and norm(g0.iter.func) == 'range' and len(g0.iter.args) == 2 and isinstance(g0.target, ast.Name):
                lo, hi = g0.iter.args
                j_ = g0.target.id
                lft = norm(el.left)
                ok = lft.endswith('[%s]' % j_)
                seq = lft[:-len('[%s]' % j_)] if ok else None
                ok = ok and linear(lo) is not None and linear(lo) == linear(_pe('%s + 1' % i_)) and norm(hi) == 'len(%s)' % seq
                why = 'the suffix examined is %s[%s : %s], expected every position after %s up to the end' % (seq, norm(lo), norm(hi), i_)
            elif isinstance(g0.iter, ast.Subscript) and isinstance(g0.iter.slice, ast.Slice) and g0.iter.slice.upper is None and g0.iter.slice.step is None \
                    and g0.iter.slice.lower is not None and norm(el.left) == norm(g0.target):
                seq = norm(g0.iter.value)
                ok = linear(g0.iter.slice.lower) is not None and linear(g0.iter.slice.lower) == linear(_pe('%s + 1' % i_))
                why = 'the suffix examined is %s, expected everything after position %s' % (norm(g0.iter), i_)
            else:
                raise AnalysisError('R-LALR-TABLE: compute_includes_lookback: the suffix is neither range(i + 1, len(X)) nor a slice X[i + 1:]')
            if ok:
                # it is the rule being walked: the outer loop runs over the same expansion, up to its end
                ok = norm(outer.iter.args[-1]) == 'len(%s)' % seq
                why = 'the suffix is taken from %s but the walk runs to %s' % (seq, norm(outer.iter.args[-1]))
            if ok:
                adds_ = [x for s_ in st_q.body for x in ast.walk(s_) if isinstance(x, ast.Call) and isinstance(x.func, ast.Attribute) and x.func.attr in ('append', 'add')]
                if len(adds_) != 1:
                    raise AnalysisError('R-LALR-TABLE: compute_includes_lookback: what the suffix test guards is not one insertion')
                inc_add = adds_[0]
    res.ob(site, 't6: (p\', B) includes (p, A) only if every symbol after B in the rule is nullable', ok)
    if not ok:
        res.finding(f, q, 'the `includes` relation changed (%s): lookaheads of the enclosing rule are propagated through a '
                    'non-nullable suffix, or not propagated through a nullable one' % why, construct='t6:includes-suffix')
    # only non-terminal transitions; the pair is taken before the state advances; direction includes[nt2].add(nt)
    ok = False
    why = 'shape not understood'
    if inc_add is not None:
        nt2 = norm(inc_add.args[0])
        d2 = [a for a in f.body_nodes() if isinstance(a, ast.Assign) and len(a.targets) == 1 and norm(a.targets[0]) == nt2]
        adv = [a for a in f.body_nodes() if isinstance(a, ast.Assign) and len(a.targets) == 1 and isinstance(a.value, ast.Subscript)
               and norm(a.value.value) == norm(a.targets[0]) + '.transitions']
        guard = runs_only_if(inc_add, _pe('%s in %s.reads' % (nt2, sn)))
        ok = len(d2) == 1 and isinstance(d2[0].value, ast.Tuple) and len(adv) == 1 and norm(d2[0].value.elts[0]) == norm(adv[0].targets[0]) \
            and d2[0].lineno < adv[0].lineno and guard and norm(d2[0].value.elts[1]) == norm(adv[0].value.slice)
        why = 'the transition (state, symbol) must be formed before the walk advances over that symbol, and kept only if it is a non-terminal transition'
        if ok:
            lst = norm(inc_add.func.value)
            fin = [c for c in f.body_nodes() if isinstance(c, ast.Call) and isinstance(c.func, ast.Attribute) and c.func.attr == 'add'
                   and isinstance(c.func.value, ast.Subscript) and norm(c.func.value.value) == '%s.includes' % sn]
            ok = len(fin) == 1
            if ok:
                lp = next((l for l in ancestors(fin[0]) if isinstance(l, ast.For)), None)
                ntl = next((l for l in ancestors(fin[0]) if isinstance(l, ast.For) and norm(l.iter).endswith('.nonterminal_transitions')), None)
                ok = lp is not None and norm(lp.iter) == lst and norm(fin[0].func.value.slice) == norm(lp.target) and ntl is not None \
                    and norm(fin[0].args[0]) == norm(ntl.target)
            why = 'the edge must go from the inner transition to the transition of the enclosing rule: includes[nt2].add(nt)'
    res.ob(site, 't6: includes edges are formed for non-terminal transitions met while walking the rule from the item\'s position, towards the enclosing transition', ok)
    if not ok:
        res.finding(f, inc_add if inc_add is not None else f.node, 'the walk that builds `includes` changed (%s)' % why, construct='t6:includes-walk')
    # lookback
    lb = [c for c in f.body_nodes() if isinstance(c, ast.Call) and isinstance(c.func, ast.Attribute) and c.func.attr == 'add' and c.args
          and isinstance(c.args[0], ast.Tuple) and len(c.args[0].elts) == 2 and norm(c.args[0].elts[1]).endswith('.rule')]
    ok = len(lb) == 1
    why = 'no lookback pair'
    if ok:
        c = lb[0]
        rp2 = norm(c.args[0].elts[1])[:-len('.rule')]
        conds = path_conditions(enclosing_stmt(c))
        texts = [norm(t) for t, pol in conds if pol]
        flat = set()
        for t, pol in conds:
            if pol:
                flat |= {norm(v) for v in (t.values if isinstance(t, ast.BoolOp) and isinstance(t.op, ast.And) else [t])}
        lp = next((l for l in ancestors(c) if isinstance(l, ast.For) and norm(l.target) == rp2), None)
        rp = next((norm(l.target) for l in ancestors(c) if isinstance(l, ast.For) and norm(l.iter).endswith('.closure') and norm(l.target) != rp2), '?')
        ok = lp is not None and norm(lp.iter) == norm(c.args[0].elts[0]) + '.closure' and '%s.is_satisfied' % rp2 in flat \
            and ('%s.rule == %s.rule' % (rp2, rp) in flat or '%s.rule == %s.rule' % (rp, rp2) in flat) and '%s.index == 0' % rp in flat
        why = 'lookback must pair the final state of a rule walked from its start (index == 0) with the satisfied item of that same rule; conditions: %s' % sorted(flat)
    res.ob(site, 't6: lookback pairs the state reached by a whole rule (walked from its start) with that rule', ok)
    if not ok:
        res.finding(f, lb[0] if lb else f.node, 'the `lookback` relation changed (%s)' % why, construct='t6:lookback')
    # t7: DR / reads
    g = repo.func(LA + 'LALR_Analyzer.compute_reads_relations')
    gs = '%s %s' % (g.loc(), g.qual)
    gsn = g.self_name() or 'self'
    loc_ = {a.targets[0].id: norm(a.value) for a in g.body_nodes() if isinstance(a, ast.Assign) and len(a.targets) == 1 and isinstance(a.targets[0], ast.Name)}

    def full(e) -> str:
        t = norm(e)
        return loc_.get(t, t)
    adds = [c for c in g.body_nodes() if isinstance(c, ast.Call) and isinstance(c.func, ast.Attribute) and c.func.attr == 'add']
    dr = [c for c in adds if full(c.func.value).startswith('%s.directly_reads[' % gsn)]
    rd = [c for c in adds if full(c.func.value).startswith('%s.reads[' % gsn)]
    ok = len(dr) == 1 and len(rd) == 1
    why = 'cannot find the two relations'
    if ok:
        s2 = norm(dr[0].args[0])
        okd = runs_only_if(dr[0], _pe('%s not in %s.lr0_rules_by_origin' % (loc_.get(s2, s2), gsn))) or runs_only_if(dr[0], _pe('%s not in %s.lr0_rules_by_origin' % (s2, gsn)))
        tup = rd[0].args[0]
        okr = isinstance(tup, ast.Tuple) and len(tup.elts) == 2 and \
            (runs_only_if(rd[0], _pe('%s in %s.NULLABLE' % (norm(tup.elts[1]), gsn))) or runs_only_if(rd[0], _pe('%s in %s.NULLABLE' % (loc_.get(norm(tup.elts[1]), norm(tup.elts[1])), gsn))))
        # both range over the items of the state *after* the transition
        lp = next((l for l in ancestors(dr[0]) if isinstance(l, ast.For)), None)
        src = full(lp.iter.value) if lp is not None and isinstance(lp.iter, ast.Attribute) and lp.iter.attr == 'closure' else ''
        after = '.transitions[' in src
        sat = any(norm(t).endswith('.is_satisfied') and not pol for t, pol in path_conditions(enclosing_stmt(dr[0])))
        ok = okd and okr and after and sat and isinstance(tup, ast.Tuple) and full(tup.elts[0]) == src
        why = 'DR terminal-only=%s, reads nullable-only=%s, taken from the state after the transition=%s, unsatisfied items only=%s' % (okd, okr, after, sat)
    res.ob(gs, 't7: DR(p, A) = terminals after the transition; (p, A) reads (r, C) for nullable C after it', ok)
    if not ok:
        res.finding(g, dr[0] if dr else g.node, 'the DR / reads relations changed (%s)' % why, construct='t7:reads')
    ends = [a for a in g.body_nodes() if isinstance(a, ast.Assign) and len(a.targets) == 1 and isinstance(a.targets[0], ast.Subscript)
            and norm(a.targets[0].value) == '%s.directly_reads' % gsn]
    ok = len(ends) == 1 and "'$END'" in norm(ends[0].value) and any(norm(l.iter).endswith('.lr0_start_states.values()') for l in ancestors(ends[0]) if isinstance(l, ast.For))
    res.ob(gs, 't7: the start transition reads $END', ok)
    if not ok:
        res.finding(g, ends[0] if ends else g.node, 'the start transitions no longer read $END: the end of input is not a lookahead of the start rule',
                    construct='t7:end')


def _digraph(repo: Repo, res: RuleResult):
    t = repo.func(LA + 'traverse')
    site = '%s %s' % (t.loc(), t.qual)
    p = t.positional_names()
    if len(p) < 7:
        raise AnalysisError('R-LALR-TABLE: traverse signature changed')
    x, S, N, X, R, G, F = p[:7]
    lp = [l for l in t.node.body if isinstance(l, ast.For)]
    ok = len(lp) == 1 and norm(lp[0].iter) == '%s[%s]' % (R, x) and isinstance(lp[0].target, ast.Name)
    why = 'no loop over the successors %s[%s]' % (R, x)
    if ok:
        y = lp[0].target.id
        body = lp[0].body
        loc_ = {a.targets[0].id: norm(a.value) for a in body if isinstance(a, ast.Assign) and len(a.targets) == 1 and isinstance(a.targets[0], ast.Name)}

        def full(e):
            s_ = norm(e)
            for k, v in loc_.items():
                s_ = s_.replace(k, v) if s_ == k else s_
            return s_
        # recursion on unvisited successors
        rec = [i_ for i_ in body if isinstance(i_, ast.If) and norm(i_.test) == '%s[%s] == 0' % (N, y)
               and any(isinstance(c, ast.Call) and norm(c.func) == t.name and c.args and norm(c.args[0]) == y for s_ in i_.body for c in ast.walk(s_))]
        # the union: unconditional, for every successor
        upd = [s_ for s_ in body if isinstance(s_, ast.Expr) and isinstance(s_.value, ast.Call) and norm(s_.value.func) == '%s[%s].update' % (F, x)
               and norm(s_.value.args[0]) == '%s[%s]' % (F, y)]
        # the minimum of positive depths
        mins = [i_ for i_ in body if isinstance(i_, ast.If) and any(isinstance(a, ast.Assign) and norm(a.targets[0]) == '%s[%s]' % (N, x) for a in i_.body)]
        okm = False
        if len(mins) == 1:
            m = mins[0]
            asg = next(a for a in m.body if isinstance(a, ast.Assign) and norm(a.targets[0]) == '%s[%s]' % (N, x))
            ny, nx = '%s[%s]' % (N, y), '%s[%s]' % (N, x)
            test = m.test

            def sub(e):
                s_ = norm(e)
                return loc_.get(s_, s_)
            conj = [test] if not (isinstance(test, ast.BoolOp) and isinstance(test.op, ast.And)) else list(test.values)
            forms = set()
            for c in conj:
                if isinstance(c, ast.Compare):
                    # a chain a < b < c is the conjunction of its links
                    operands = [c.left] + list(c.comparators)
                    for (lft, op_, rgt) in zip(operands, c.ops, operands[1:]):
                        l_, r_ = sub(lft), sub(rgt)
                        op = type(op_).__name__
                        if op == 'Gt':
                            l_, r_, op = r_, l_, 'Lt'
                        forms.add((l_, op, r_))
            okm = ('0', 'Lt', ny) in forms and (ny, 'Lt', nx) in forms and sub(asg.value) == ny
        every = path_vectors(body, [lambda n_: isinstance(n_, ast.Call) and norm(n_.func) == '%s[%s].update' % (F, x)]) == {(1,)}
        ok = len(rec) == 1 and len(upd) == 1 and every and okm and (not rec or body.index(rec[0]) < body.index(upd[0]))
        why = 'visit unvisited successors first=%s, keep the smaller positive depth=%s, union F[y] into F[x] for every successor=%s' % (len(rec) == 1, okm, len(upd) == 1)
    res.ob(site, 't8: traverse visits unvisited successors, keeps the smaller positive depth, unions F[y] into F[x] for every successor', ok)
    if not ok:
        res.finding(t, lp[0] if lp else t.node, 'the digraph traversal changed (%s): the sets of a strongly connected component are no longer the union '
                    'over everything reachable' % why, construct='t8:traverse')
    # the component is popped when the depth is unchanged
    init = any(isinstance(s_, ast.Expr) and norm(s_.value) == '%s.append(%s)' % (S, x) for s_ in t.node.body) and any(isinstance(a, ast.Assign) and norm(a.targets[0]) == '%s[%s]' % (F, x) and norm(a.value) == '%s[%s]' % (G, x)
                                                                 for a in t.node.body)
    dvar = [a for a in t.node.body if isinstance(a, ast.Assign) and norm(a.value) == 'len(%s)' % S]
    pops = [i_ for i_ in t.node.body if isinstance(i_, ast.If) and any(isinstance(c, ast.Call) and norm(c.func) == '%s.pop' % S for c in ast.walk(i_))]
    ok = init and len(pops) == 1 and len(dvar) == 1
    if ok:
        d = norm(dvar[0].targets[0])
        setd = any(isinstance(a, ast.Assign) and norm(a.targets[0]) == '%s[%s]' % (N, x) and norm(a.value) in (d, 'len(%s)' % S) for a in t.node.body)
        pp = pops[0]
        inf = any(isinstance(a, ast.Assign) and norm(a.targets[0]).startswith('%s[' % N) and norm(a.value) in ('-1', 'float("inf")', "float('inf')") for a in ast.walk(pp) if isinstance(a, ast.Assign))
        shares = any(isinstance(a, ast.Assign) and norm(a.targets[0]).startswith('%s[' % F) for a in ast.walk(pp) if isinstance(a, ast.Assign))
        until = any(isinstance(c, ast.Compare) and len(c.ops) == 1 and isinstance(c.ops[0], ast.Eq) and x in (norm(c.left), norm(c.comparators[0]))
                    for c in ast.walk(pp) if isinstance(c, ast.Compare) and c is not pp.test)
        ok = setd and norm(pp.test) in ('%s[%s] == %s' % (N, x, d), '%s == %s[%s]' % (d, N, x)) and inf and shares and until
    res.ob(site, 't8: a node whose depth is unchanged pops its whole component, marks it done and gives every member the same set', ok)
    if not ok:
        res.finding(t, pops[0] if pops else t.node, 'the component pop of the digraph traversal changed shape', construct='t8:pop')
    dg = repo.func(LA + 'digraph')
    dp = dg.positional_names()
    ok = any(isinstance(l, ast.For) and norm(l.iter) == dp[0] and any(isinstance(i_, ast.If) and norm(i_.test).endswith('== 0')
             and any(isinstance(c, ast.Call) and norm(c.func) == t.name for c in ast.walk(i_)) for i_ in l.body) for l in dg.node.body) and \
        any(isinstance(r, ast.Return) and r.value is not None for r in dg.node.body)
    res.ob('%s %s' % (dg.loc(), dg.qual), 't8: digraph traverses every node not yet visited and returns F', ok)
    if not ok:
        res.finding(dg, dg.node, 'digraph no longer starts a traversal from every unvisited node', construct='t8:digraph')
