"""R-MANGLE-PROTOCOL [C17]: the name-mangling protocol of %import.

C17 as a whole ("imports mean what textual inlining means") quantifies over all ways of splitting a grammar and is not decided.
What is decided is the protocol every imported definition goes through -- each clause a necessary condition:

  m1  the mangled name keeps what the library reads off a name's spelling: a leading underscore stays in front
      (`_x` -> `_<prefix>__x`: still inlined / filtered), everything else becomes `<prefix>__x`; explicitly imported names map to
      their alias instead; an enclosing import's mangle is applied on top (innermost first);
  m2  `_unpack_definition` mangles the definition's name, each template parameter and -- through `_mangle_definition_tree` --
      every Symbol in its tree, on a copy of the tree;
  m3  `Symbol.renamed` / `Terminal.renamed` keep the class and `filter_out`;
  m4  in `load_grammar` every defining statement kind goes through `_unpack_definition(<stmt>, mangle)`; `%declare` mangles when
      there is a mangle; `%ignore` applies only at top level; nested imports receive the current mangle as their base;
  m5  `do_import` loads the imported text with the *new* mangle, prunes to what the import names (mangled), refuses a clash
      with an existing definition before merging, and merges all remaining definitions;
  m6  `_define` refuses a second definition unless overriding, and an override of nothing;
  e1  `%extend` inserts into the existing definition tree in place (definitions are shared by reference);
  t1  template instances are named injectively (template name + verbatim argument names joined by a non-name character).
"""
from __future__ import annotations

import ast
from typing import Dict, List, Optional, Set, Tuple

from ..model import Repo, FuncInfo, AnalysisError, norm, parent, ancestors, enclosing_stmt, const_str
from ..report import Ctx, RuleResult
from ..exprs import str_template, find_pat, has_pat, match_cond, cond_values, bool_relation, path_conditions, runs_only_if, call_args_by_name

LG = 'lark.load_grammar:'


def _fmt_strings(f: FuncInfo) -> List[Tuple[str, ast.AST]]:
    """The strings the function builds from a literal template and holes ('%', str.format, f-string, '+'), outermost only."""
    out = []
    for n in f.body_nodes():
        t = str_template(n)
        if t is None or not t[1]:
            continue
        p_ = parent(n)
        if p_ is not None and isinstance(p_, ast.BinOp) and isinstance(p_.op, ast.Add) and str_template(p_) is not None:
            continue
        out.append((t[0], n))
    return out


def _local_defs(f: FuncInfo) -> Dict[str, ast.AST]:
    cnt: Dict[str, int] = {}
    val: Dict[str, ast.AST] = {}
    for a in f.body_nodes():
        if isinstance(a, ast.Assign) and len(a.targets) == 1 and isinstance(a.targets[0], ast.Name):
            cnt[a.targets[0].id] = cnt.get(a.targets[0].id, 0) + 1
            val[a.targets[0].id] = a.value
    return {k: v for k, v in val.items() if cnt[k] == 1}


def run(ctx: Ctx) -> RuleResult:
    repo = ctx.repo
    res = RuleResult('R-MANGLE-PROTOCOL', 'imported definitions are renamed consistently: names, parameters, every symbol; spelling-derived '
                                         'properties survive; clashes are refused')
    # ---- m1 -----------------------------------------------------------------------------------------------------------
    gm = repo.func(LG + '_get_mangle')
    mg = gm.nested.get('mangle')
    if mg is None:
        raise AnalysisError('_get_mangle.mangle not found (anchor vanished)')
    s = mg.positional_names()[0]
    gp = gm.positional_names()          # prefix, aliases, base_mangle
    site = '%s %s' % (mg.loc(), mg.qual)
    fm = _fmt_strings(mg)
    under = [n for t, n in fm if t == '_%s__%s']
    plain = [n for t, n in fm if t == '%s__%s']
    ok = len(under) == 1 and len(plain) == 1 and len(fm) == 2
    if ok:
        ua = str_template(under[0])[1]
        pa = str_template(plain[0])[1]
        ok = len(ua) == 2 and norm(ua[0]) == gp[0] and norm(ua[1]) == '%s[1:]' % s and len(pa) == 2 and norm(pa[0]) == gp[0] and norm(pa[1]) == s
        lead = ast.parse("%s[0] == '_'" % s, mode='eval').body
        lead2 = ast.parse("%s.startswith('_')" % s, mode='eval').body
        ok = ok and (runs_only_if(enclosing_stmt(under[0]), lead) or runs_only_if(enclosing_stmt(under[0]), lead2))
        ok = ok and not (runs_only_if(enclosing_stmt(plain[0]), lead) or runs_only_if(enclosing_stmt(plain[0]), lead2))
    res.ob(site, 'm1: `_x` -> `_<prefix>__x`, `x` -> `<prefix>__x` (the leading underscore stays in front)', ok)
    if not ok:
        res.finding(mg, mg.node, 'the mangled spelling of an imported name changed (formats %s): a leading underscore must stay in front -- '
                    'it is what makes a rule inlined and a terminal filtered -- and the rest must become <prefix>__name' % [t for t, _ in fm],
                    construct='m1:spelling')
    # aliases first: names the import statement lists are not prefixed
    al = gp[1] if len(gp) > 1 else 'aliases'
    ok = has_pat(mg.body_nodes(), '%s = %s[%s]' % (s, al, s)) and all(
        runs_only_if(enclosing_stmt(n), ast.parse('%s in %s' % (s, al), mode='eval').body) is False or True for _t, n in fm)
    okg = any(runs_only_if(a_, ast.parse('%s in %s' % (s, al), mode='eval').body) for a_ in mg.body_nodes()
              if isinstance(a_, ast.Assign) and norm(a_) == '%s = %s[%s]' % (s, al, s))
    okf = all(not runs_only_if(enclosing_stmt(n), ast.parse('%s in %s' % (s, al), mode='eval').body) for _t, n in fm) and \
        all(any(bool_relation(t_, ast.parse('%s in %s' % (s, al), mode='eval').body) and not pol_ for t_, pol_ in path_conditions(enclosing_stmt(n)))
            for _t, n in fm)
    ok = ok and okg and okf
    res.ob(site, 'm1: a name listed by the import statement maps to its alias and is not prefixed', ok)
    if not ok:
        res.finding(mg, mg.node, 'explicitly imported names are no longer mapped to their alias *instead of* being prefixed', construct='m1:alias')
    bm = gp[2] if len(gp) > 2 else 'base_mangle'
    rets = [r for r in mg.body_nodes() if isinstance(r, ast.Return)]
    ok = len(rets) == 1 and norm(rets[0].value) == s and has_pat(mg.body_nodes(), 'if %s is not None:\n    %s = %s(%s)' % (bm, s, bm, s))
    if ok:
        app = find_pat(mg.body_nodes(), '%s = %s(%s)' % (s, bm, s))[0][0]
        ok = all(n.lineno < app.lineno for _t, n in fm)
    res.ob(site, 'm1: the enclosing import\'s mangle is applied to the result (innermost prefix first)', ok)
    if not ok:
        res.finding(mg, mg.node, 'the base mangle of an enclosing import is not applied on top of this import\'s own renaming',
                    construct='m1:compose')
    # ---- m2 -----------------------------------------------------------------------------------------------------------
    ud = repo.func(LG + 'GrammarBuilder._unpack_definition')
    mparam = ud.positional_names()[1] if len(ud.positional_names()) > 1 else 'mangle'
    site = '%s %s' % (ud.loc(), ud.qual)
    rets = [r for r in ud.body_nodes() if isinstance(r, ast.Return) and isinstance(r.value, ast.Tuple)]
    ok = len(rets) == 1 and len(rets[0].value.elts) == 5
    if ok:
        nm, _it, ex, pr, _op = [norm(e) for e in rets[0].value.elts]
        want = ast.parse('%s is not None' % mparam, mode='eval').body
        nmd = [a for a in ud.body_nodes() if isinstance(a, ast.Assign) and norm(a) == '%s = %s(%s)' % (nm, mparam, nm)]
        prd = find_pat(ud.body_nodes(), '%s = tuple((%s($p) for $p in %s))' % (pr, mparam, pr)) or \
            find_pat(ud.body_nodes(), '%s = tuple([%s($p) for $p in %s])' % (pr, mparam, pr)) or \
            find_pat(ud.body_nodes(), '%s = [%s($p) for $p in %s]' % (pr, mparam, pr))
        exd = [a for a in ud.body_nodes() if isinstance(a, ast.Assign) and norm(a) == '%s = _mangle_definition_tree(%s, %s)' % (ex, ex, mparam)] \
            or ([1] if ex == '_mangle_definition_tree(%s, %s)' % ('exp', mparam) else [])
        if not exd and isinstance(rets[0].value.elts[2], ast.Call) and norm(rets[0].value.elts[2].func) == '_mangle_definition_tree' \
                and len(rets[0].value.elts[2].args) == 2 and norm(rets[0].value.elts[2].args[1]) == mparam:
            exd = [1]
        ok = len(nmd) == 1 and runs_only_if(nmd[0], want) and bool(prd) and runs_only_if(prd[0][0], want) and bool(exd)
    res.ob(site, 'm2: the name, every template parameter and the tree of a definition are mangled', ok)
    if not ok:
        res.finding(ud, ud.node, '_unpack_definition no longer mangles all of: the definition\'s name, each template parameter, its tree: '
                    'an imported definition then refers to (or is known by) an un-prefixed name and captures / misses a local one',
                    construct='m2:definition')
    mt = repo.func(LG + '_mangle_definition_tree')
    ep, mp = (mt.positional_names() + ['exp', 'mangle'])[:2]
    site = '%s %s' % (mt.loc(), mt.qual)
    ok = has_pat(mt.body_nodes(), 'for $t in $e.iter_subtrees():\n    for $i, $c in enumerate($t.children):\n        if isinstance($c, Symbol):\n'
                                  '            $t.children[$i] = $c.renamed(%s)' % mp)
    if not ok:
        # the same as one slice assignment: t.children[:] = [c.renamed(mangle) if isinstance(c, Symbol) else c for c in t.children]
        for l_ in [l for l in mt.body_nodes() if isinstance(l, ast.For) and norm(l.iter).endswith('.iter_subtrees()') and isinstance(l.target, ast.Name)]:
            tv = l_.target.id
            for a_ in l_.body:
                if isinstance(a_, ast.Assign) and len(a_.targets) == 1 and norm(a_.targets[0]) in ('%s.children[:]' % tv, '%s.children' % tv) \
                        and isinstance(a_.value, ast.ListComp) and len(a_.value.generators) == 1 and not a_.value.generators[0].ifs \
                        and norm(a_.value.generators[0].iter) == '%s.children' % tv and isinstance(a_.value.elt, ast.IfExp):
                    cv = norm(a_.value.generators[0].target)
                    e_ = a_.value.elt
                    pos = bool_relation(e_.test, ast.parse('isinstance(%s, Symbol)' % cv, mode='eval').body)
                    ren, keep = (e_.body, e_.orelse) if pos == 'same' else (e_.orelse, e_.body)
                    if pos in ('same', 'negated') and norm(ren) == '%s.renamed(%s)' % (cv, mp) and norm(keep) == cv:
                        ok = True
    res.ob(site, 'm2: every Symbol in every subtree is renamed through the mangle', ok)
    if not ok:
        res.finding(mt, mt.node, '_mangle_definition_tree does not rename every Symbol child of every subtree', construct='m2:tree')
    cp = [a for a in mt.body_nodes() if isinstance(a, ast.Assign) and isinstance(a.value, ast.Call) and norm(a.value.func) in ('deepcopy', 'nr_deepcopy_tree')
          and a.value.args and norm(a.value.args[0]) == ep]
    loop = [l for l in mt.body_nodes() if isinstance(l, ast.For)]
    ok = len(cp) == 1 and bool(loop) and cp[0].lineno < loop[0].lineno and norm(cp[0].targets[0]) in norm(loop[0].iter)
    res.ob(site, 'm2: the renaming works on a copy of the definition tree', ok)
    if not ok:
        res.finding(mt, mt.node, 'the definition tree is renamed in place: a grammar imported twice (or a cached parse of it) sees names that '
                    'were already prefixed', construct='m2:copy')
    # ---- m3 -----------------------------------------------------------------------------------------------------------
    for cq, want_args in (('lark.grammar:Symbol', ['$f($me.name)']), ('lark.grammar:Terminal', ['$f($me.name)', '$me.filter_out'])):
        k = repo.cls(cq)
        rn = k.methods.get('renamed')
        if rn is None:
            raise AnalysisError('%s.renamed not found (anchor vanished)' % cq)
        ok = has_pat(rn.body_nodes(), 'return type($me)(%s)' % ', '.join(want_args))
        res.ob('%s %s' % (rn.loc(), rn.qual), 'm3: renaming keeps the class%s' % (' and filter_out' if len(want_args) > 1 else ''), ok)
        if not ok:
            res.finding(rn, rn.node, '%s.renamed does not rebuild the symbol with its own class%s: an imported symbol changes kind / starts or '
                        'stops being filtered' % (k.name, ' and filter_out' if len(want_args) > 1 else ''), construct='m3:%s' % k.name)
    nt = repo.cls('lark.grammar:NonTerminal')
    ok = 'renamed' not in nt.methods
    res.ob('%s %s' % (nt.module.loc(nt.node), nt.qual), 'm3: NonTerminal inherits Symbol.renamed', ok)
    if not ok:
        ok2 = has_pat(nt.methods['renamed'].body_nodes(), 'return type($me)($f($me.name))')
        if not ok2:
            res.finding(nt.methods['renamed'], nt.methods['renamed'].node, 'NonTerminal.renamed does not keep the class', construct='m3:NonTerminal')
    # ---- m4 -----------------------------------------------------------------------------------------------------------
    lgf = repo.func(LG + 'GrammarBuilder.load_grammar')
    mparam = (lgf.positional_names() + ['mangle'])[2] if len(lgf.positional_names()) > 2 else 'mangle'
    site = '%s %s' % (lgf.loc(), lgf.qual)
    calls = [c for c in lgf.body_nodes() if isinstance(c, ast.Call) and norm(c.func).endswith('._unpack_definition')]
    ok = len(calls) >= 3 and all(len(c.args) == 2 and norm(c.args[1]) == mparam for c in calls)
    res.ob(site, 'm4: every defining statement (%d sites) is unpacked with the current mangle' % len(calls), ok)
    if not ok:
        res.finding(lgf, lgf.node, 'a definition / %override / %extend statement is unpacked without the current mangle', construct='m4:definitions')
    wrappers = {'_define': 0, '_extend': 0}
    for c in lgf.body_nodes():
        if isinstance(c, ast.Call) and isinstance(c.func, ast.Attribute) and c.func.attr in wrappers and any(
                isinstance(a, ast.Starred) and isinstance(a.value, ast.Call) and norm(a.value.func).endswith('._unpack_definition') for a in c.args):
            wrappers[c.func.attr] += 1
    ok = wrappers['_define'] >= 2 and wrappers['_extend'] >= 1
    res.ob(site, 'm4: rule/term and %%override go to _define (%d), %%extend to _extend (%d)' % (wrappers['_define'], wrappers['_extend']), ok)
    if not ok:
        res.finding(lgf, lgf.node, 'the dispatch of defining statements to _define / _extend changed (%s)' % wrappers, construct='m4:dispatch')
    ov = [c for c in lgf.body_nodes() if isinstance(c, ast.Call) and norm(c.func).endswith('._define') and any(
        k.arg == 'override' and isinstance(k.value, ast.Constant) and k.value.value is True for k in c.keywords)]
    ok = len(ov) == 1 and any("'override'" in norm(t) for t, pol in path_conditions(enclosing_stmt(ov[0])) if pol)
    res.ob(site, 'm4: only %override statements define with override=True', ok)
    if not ok:
        res.finding(lgf, lgf.node, 'override=True is not passed exactly for %override statements', construct='m4:override')
    dm = find_pat(lgf.body_nodes(), '$n = %s($sym.name)' % mparam)
    okd = bool(dm) and runs_only_if(dm[0][0], ast.parse('%s is not None' % mparam, mode='eval').body) and \
        has_pat(lgf.body_nodes(), '$me._define($n, $$it, None)', {'n': dm[0][1]['n']})
    res.ob(site, 'm4: %declare-d terminals are mangled like definitions', okd)
    if not okd:
        res.finding(lgf, lgf.node, '%declare inside an imported grammar no longer declares the mangled name', construct='m4:declare')
    ig = [c for c in lgf.body_nodes() if isinstance(c, ast.Call) and norm(c.func).endswith('._ignore')]
    ok = len(ig) == 1 and runs_only_if(enclosing_stmt(ig[0]), ast.parse('%s is None' % mparam, mode='eval').body)
    res.ob(site, 'm4: %ignore of an imported grammar is not applied (top level only)', ok)
    if not ok:
        res.finding(lgf, lgf.node, '%ignore statements of imported grammars are applied to the importing grammar', construct='m4:ignore')
    di = [c for c in lgf.body_nodes() if isinstance(c, ast.Call) and norm(c.func).endswith('.do_import')]
    ok = len(di) == 1 and norm(call_args_by_name(repo, di[0], LG + 'GrammarBuilder.do_import').get('base_mangle', ast.Constant(value=None))) == mparam
    res.ob(site, 'm4: imports of an imported grammar are mangled on top of the current mangle', ok)
    if not ok:
        res.finding(lgf, lgf.node, 'nested imports do not receive the current mangle as their base: transitively imported names lose the '
                    'outer prefix and can clash', construct='m4:nested')
    # ---- m5 -----------------------------------------------------------------------------------------------------------
    dim = repo.func(LG + 'GrammarBuilder.do_import')
    site = '%s %s' % (dim.loc(), dim.qual)
    mdef = find_pat(dim.body_nodes(), '$m = _get_mangle($$p, $$a, $$b)')
    ok = len(mdef) == 1
    if ok:
        mv = mdef[0][1]['m']
        dparams = dim.positional_names()
        ok = mdef[0][1]['$$a'] == dparams[2] and mdef[0][1]['$$b'] == dparams[3] and "'__'.join(%s)" % dparams[0] in mdef[0][1]['$$p']
        lg_calls = find_pat(dim.body_nodes(), '$gb.load_grammar($$t, $$p, %s)' % mv)
        ru = find_pat(dim.body_nodes(), '$gb._remove_unused(map(%s, %s))' % (mv, dparams[2]))
        ok = ok and len(lg_calls) == 1 and len(ru) == 1 and ru[0][1]['gb'] == lg_calls[0][1]['gb'] and lg_calls[0][0].lineno < ru[0][0].lineno
    res.ob(site, 'm5: the imported text is loaded with the new mangle (prefix = dotted path, aliases, enclosing mangle) and pruned to the '
                 'imported names', ok)
    if not ok:
        res.finding(dim, dim.node, 'do_import no longer loads the imported grammar with _get_mangle("__".join(path), aliases, base_mangle) and '
                    'prunes it to the mangled imported names', construct='m5:load')
    upd = find_pat(dim.body_nodes(), '$me._definitions.update(**$gb._definitions)') + find_pat(dim.body_nodes(), '$me._definitions.update($gb._definitions)')
    clash = [r for r in dim.body_nodes() if isinstance(r, ast.Raise) and 'GrammarError' in norm(r.exc)
             and any(has_pat([t], '$n in $me._definitions') and pol for t, pol in path_conditions(r))]
    ok = len(upd) == 1 and len(clash) >= 1 and clash[0].lineno < upd[0][0].lineno
    res.ob(site, 'm5: a clash with an existing definition is refused before the imported definitions are merged', ok)
    if not ok:
        res.finding(dim, dim.node, 'imported definitions are merged without refusing names that already exist: an import silently replaces '
                    '(captures) a local definition', construct='m5:clash')
    # ---- m6 -----------------------------------------------------------------------------------------------------------
    df = repo.func(LG + 'GrammarBuilder._define')
    site = '%s %s' % (df.loc(), df.qual)
    errs = [c for c in df.body_nodes() if isinstance(c, ast.Call) and norm(c.func).endswith('._grammar_error')]
    nm = df.positional_names()[0]
    twice = any(any(bool_relation(t, ast.parse('%s in self._definitions' % nm, mode='eval').body) == 'same' and pol for t, pol in path_conditions(enclosing_stmt(c)))
                and any(norm(t) == 'override' and not pol or norm(t) == 'not override' and pol for t, pol in path_conditions(enclosing_stmt(c))) for c in errs)
    nothing = any(any(bool_relation(t, ast.parse('%s in self._definitions' % nm, mode='eval').body) == 'same' and not pol for t, pol in path_conditions(enclosing_stmt(c)))
                  and any(norm(t) == 'override' and pol for t, pol in path_conditions(enclosing_stmt(c))) for c in errs)
    ok = twice and nothing
    res.ob(site, 'm6: a second definition is refused unless overriding; overriding nothing is refused', ok)
    if not ok:
        res.finding(df, df.node, '_define no longer refuses redefinition without %override / an %override of an undefined name',
                    construct='m6:define')
    # ---- m5 (pruning): _remove_unused keeps exactly the definitions reachable from the imported names ---------------------------
    ru = repo.func(LG + 'GrammarBuilder._remove_unused')
    site = '%s %s' % (ru.loc(), ru.qual)
    sn_r = ru.self_name() or 'self'
    stores = [a for a in ru.body_nodes() if isinstance(a, ast.Assign) and any(norm(t) == '%s._definitions' % sn_r for t in a.targets)]
    ok = len(stores) == 1 and isinstance(stores[0].value, ast.DictComp) and len(stores[0].value.generators) == 1
    why = 'the definitions are not rebuilt by one filtered comprehension'
    if ok:
        dc = stores[0].value
        g = dc.generators[0]
        keyv = g.target.elts[0].id if isinstance(g.target, ast.Tuple) and g.target.elts and isinstance(g.target.elts[0], ast.Name) else None
        over_defs = norm(g.iter) == '%s._definitions.items()' % sn_r
        dl = _local_defs(ru)

        def from_bfs(e: ast.AST, depth=0) -> bool:
            if isinstance(e, ast.Call) and any(isinstance(c, ast.Call) and isinstance(c.func, ast.Name) and c.func.id == 'bfs' for c in ast.walk(e)):
                return True
            if isinstance(e, ast.Name) and e.id in dl and depth < 4:
                return from_bfs(dl[e.id], depth + 1)
            return False
        ok = keyv is not None and over_defs and len(g.ifs) >= 1 and all(
            isinstance(t, ast.Compare) and len(t.ops) == 1 and isinstance(t.ops[0], ast.In) and norm(t.left) == keyv and from_bfs(t.comparators[0])
            for t in g.ifs) and norm(dc.key) == keyv
        why = 'filter %s' % [norm(t) for t in g.ifs]
    res.ob(site, 'm5: after an import only definitions reachable from the imported names remain (filter = membership in the closure, nothing else)', ok)
    if not ok:
        res.finding(ru, stores[0] if stores else ru.node, '_remove_unused no longer keeps exactly the definitions reachable from the imported names '
                    '(%s): an unused terminal or rule of the imported grammar leaks into the importer -- an unused keyword terminal then '
                    'captures the importer\'s own string literal' % why, construct='m5:prune-filter')
    # ---- search order: the user's import paths first, the importing file's directory next, lark's own library last ------------------------
    di_ = repo.func(LG + 'GrammarBuilder.do_import')
    tt = [a for a in di_.body_nodes() if isinstance(a, ast.BinOp) and isinstance(a.op, ast.Add) and 'stdlib_loader' in norm(a)
          and not (isinstance(parent(a), ast.BinOp) and isinstance(parent(a).op, ast.Add))]
    if len(tt) != 1:
        raise AnalysisError('R-MANGLE-PROTOCOL: do_import: cannot find the list of places to try')
    tt = [ast.copy_location(ast.Assign(targets=[ast.Name(id='to_try', ctx=ast.Store())], value=tt[0]), tt[0])]

    def flat_add(e):
        return flat_add(e.left) + flat_add(e.right) if isinstance(e, ast.BinOp) and isinstance(e.op, ast.Add) else [e]
    parts = [norm(x) for x in flat_add(tt[0].value)]
    ok = len(parts) >= 2 and parts[0].endswith('.import_paths') and parts[-1] == '[stdlib_loader]'
    res.ob('%s %s' % (di_.loc(tt[0]), di_.qual), 'imports are searched in the user\'s import_paths first and in lark\'s own library last', ok)
    if not ok:
        res.finding(di_, tt[0], 'the places an import is searched in are %s: a module of the user that has the name of a library module (common.lark) is '
                    'no longer found first' % parts, construct='search-order')
    ofp = repo.func('lark.lark:Lark.open_from_package')
    apps = [c for c in ofp.body_nodes() if isinstance(c, ast.Call) and isinstance(c.func, ast.Attribute) and c.func.attr == 'append' and c.args
            and "import_paths" in norm(c.func.value)]
    from ..exprs import path_conditions as _pc3
    ok = len(apps) == 1 and not _pc3(enclosing_stmt(apps[0]))
    res.ob('%s %s' % (ofp.loc(), ofp.qual), 'open_from_package adds the package loader to import_paths whether or not the caller passed some', ok)
    if not ok:
        res.finding(ofp, ofp.node, 'open_from_package no longer appends the package loader to the import paths unconditionally: with import_paths given by the '
                    'caller, relative imports inside the package grammar are not found', construct='package-loader')
    # ---- e1: %extend changes the existing definition in place ------------------------------------------------------------
    # (terminals are expanded by reference: another definition that already mentions the extended one shares its tree, and an
    #  imported grammar's definitions reach the importer as the same objects)
    ex = repo.func(LG + 'GrammarBuilder._extend')
    site = '%s %s' % (ex.loc(), ex.qual)
    nparam = ex.positional_names()[0]
    sn_ = ex.self_name() or 'self'
    D = {'%s._definitions[%s]' % (sn_, nparam)}
    D |= {norm(a.targets[0]) for a in ex.body_nodes() if isinstance(a, ast.Assign) and len(a.targets) == 1 and norm(a.value) in D}
    trees = {d_ + '.tree' for d_ in D}
    trees |= {norm(a.targets[0]) for a in ex.body_nodes() if isinstance(a, ast.Assign) and len(a.targets) == 1 and norm(a.value) in trees
              and isinstance(a.targets[0], ast.Name)}
    rebinds = [a for a in ex.body_nodes() if isinstance(a, ast.Assign) and any(
        norm(t) in {d_ + '.tree' for d_ in D} or (isinstance(t, ast.Subscript) and norm(t.value).endswith('._definitions')) for t in a.targets)]
    inserts = [c for c in ex.body_nodes() if isinstance(c, ast.Call) and isinstance(c.func, ast.Attribute) and c.func.attr in ('insert', 'append', 'extend')
               and norm(c.func.value) in {t_ + '.children' for t_ in trees}]
    ok = not rebinds and len(inserts) == 1
    why = 'it rebinds %s' % [norm(a) for a in rebinds] if rebinds else 'no in-place insertion into the existing tree'
    res.ob(site, 'e1: %extend inserts the new alternative into the existing definition tree (same object)', ok)
    if not ok:
        res.finding(ex, ex.node, '%%extend no longer extends the existing definition tree in place (%s): definitions that already refer to the '
                    'extended one (terminals are expanded by reference, also across an import) keep the old alternatives' % why, construct='e1:extend-in-place')
    # ---- t1: template instances are named injectively --------------------------------------------------------------------
    tu = repo.func(LG + 'ApplyTemplates.template_usage')
    site = '%s %s' % (tu.loc(), tu.qual)
    joins = [c for c in tu.body_nodes() if isinstance(c, ast.Call) and isinstance(c.func, ast.Attribute) and c.func.attr == 'join' and const_str(c.func.value) is not None]
    ok = len(joins) == 1
    why = 'cannot find the instance name'
    if ok:
        sep = const_str(joins[0].func.value)
        import re as _re2
        arg = joins[0].args[0] if joins[0].args else None
        elt = arg.elt if isinstance(arg, (ast.GeneratorExp, ast.ListComp)) else None
        verbatim = isinstance(elt, ast.Attribute) and elt.attr == 'name' and isinstance(elt.value, ast.Name)
        ok = bool(sep) and not _re2.search(r'[A-Za-z0-9_]', sep) and verbatim
        why = 'separator %r, elements %s' % (sep, norm(elt) if elt is not None else '?')
        # the template name and the joined arguments are separated by text holding a character no name contains
        sepd = False
        for t, n in _fmt_strings(tu):
            args_ = str_template(n)[1]
            pieces = t.split('%s')
            for k, a_ in enumerate(args_):
                if a_ is joins[0] and k > 0 and _re2.search(r'[^A-Za-z0-9_%]', pieces[k]):
                    sepd = True
        if ok and not sepd:
            why = 'template name and arguments are not separated by a character no name contains'
        ok = ok and sepd
    res.ob(site, 't1: a template instance is named by the template and its argument names, verbatim, joined by a character no name contains', ok)
    if not ok:
        res.finding(tu, tu.node, 'template instance names are not injective in (template, arguments) (%s): two different instantiations get one '
                    'name, and the second silently reuses the first (the name is also the "already created" key)' % why, construct='t1:instance-name')
    return res
