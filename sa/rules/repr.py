"""Representation rules [C15 C06].

R-REPR-PARAM     elements / slices of the input text are compared with, searched for or split on a constant of
                 one representation (str or bytes) only under an isinstance(..., bytes) split, or through a
                 representation-parametric value.
R-WINDOW-BOUNDS  every regex call on a TextSlice passes the position and the window's end; loops over the
                 window are bounded by its end; counters start from the window.  The start side cannot be
                 enforced with re's `pos` (look-behind, ^, \\b see the text before the window): known finding.
"""
from __future__ import annotations

import ast
from typing import Dict, List, Optional, Set, Tuple

from ..model import Repo, FuncInfo, AnalysisError, norm, parent, ancestors, enclosing_stmt, const_str
from ..report import Ctx, RuleResult

# input-text carriers: (function qual, parameter or expression text)
CARRIERS = [
    ('lark.parsers.xearley:Parser._parse', 'stream'),
    ('lark.exceptions:UnexpectedCharacters.__init__', 'seq'),
    ('lark.exceptions:UnexpectedInput.get_context', 'text'),
    ('lark.lexer:LineCounter.feed', 'token'),
    ('lark.lexer:LineCounter.advance_to', 'text'),
    ('lark.lexer:LineCounter.from_text_slice', 'text_slice.text'),
    ('lark.parsers.lalr_parser:LALR_Parser.parse', 's.text.text'),
]
STR_METHODS = {'count', 'split', 'rsplit', 'index', 'rindex', 'find', 'rfind', 'startswith', 'endswith', 'partition',
               'rpartition', 'replace', 'strip', 'rstrip', 'lstrip', 'join'}


def _is_repr_const(n: ast.AST) -> bool:
    return isinstance(n, ast.Constant) and isinstance(n.value, (str, bytes)) and len(n.value) > 0


def _under_split(n: ast.AST, carrier: str) -> bool:
    """n sits in an arm of an if / conditional expression that tests isinstance(<carrier...>, bytes)."""
    root = carrier.split('.')[0]
    for a in ancestors(n):
        if isinstance(a, (ast.If, ast.IfExp)):
            for c in ast.walk(a.test):
                if isinstance(c, ast.Call) and isinstance(c.func, ast.Name) and c.func.id == 'isinstance' and len(c.args) == 2 \
                        and norm(c.args[1]) in ('bytes', 'str') and norm(c.args[0]).split('.')[0] == root:
                    return True
    return False


def _derived_names(f: FuncInfo, carrier: str) -> Set[str]:
    """locals holding the carrier, an element, or a slice of it (one level of def-use, closures included)."""
    names = {carrier}
    funcs = [f] + list(f.nested.values())
    for _ in range(3):
        for g in funcs:
            for n in g.body_nodes():
                if isinstance(n, ast.For) and norm(n.iter) in names and isinstance(n.target, ast.Name):
                    names.add(n.target.id)
                if isinstance(n, ast.Assign) and len(n.targets) == 1 and isinstance(n.targets[0], ast.Name):
                    v = n.value
                    if isinstance(v, ast.Subscript) and norm(v.value) in names:
                        names.add(n.targets[0].id)
                    # x = a[..].rsplit(..)[-1]  -> still text of the same representation
                    base = v
                    while isinstance(base, (ast.Subscript, ast.Call, ast.Attribute)):
                        if isinstance(base, ast.Call):
                            if isinstance(base.func, ast.Attribute) and base.func.attr in ('rsplit', 'split', 'expandtabs', 'strip'):
                                base = base.func.value
                            else:
                                break
                        elif isinstance(base, ast.Subscript):
                            base = base.value
                        else:
                            break
                    if base is not v and norm(base) in names:
                        names.add(n.targets[0].id)
    return names


def run_repr(ctx: Ctx) -> RuleResult:
    repo = ctx.repo
    res = RuleResult('R-REPR-PARAM', 'no representation-specific constant touches the input text outside an isinstance(bytes) split')
    n_sites = 0
    for fq, carrier in CARRIERS:
        f = repo.func(fq)
        names = _derived_names(f, carrier)
        funcs = [f] + list(f.nested.values())
        found_use = False
        for g in funcs:
            for n in g.body_nodes():
                # comparisons / membership
                if isinstance(n, ast.Compare):
                    parts = [n.left] + list(n.comparators)
                    if any(norm(p) in names or (isinstance(p, ast.Subscript) and norm(p.value) in names) for p in parts) \
                            and any(_is_repr_const(p) for p in parts):
                        n_sites += 1
                        found_use = True
                        ok = _under_split(n, carrier)
                        res.ob('%s %s' % (g.loc(n), g.qual), '%s: constant compared with input text under an isinstance split' % norm(n), ok)
                        if not ok:
                            res.finding(g, enclosing_stmt(n), 'input text (str or bytes: elements of bytes are ints) is compared with the '
                                        'constant %s: the test never succeeds for the other representation' % norm(
                                            [p for p in parts if _is_repr_const(p)][0]), construct='cmp:' + norm(n))
                    elif any(norm(p) in names for p in parts):
                        found_use = True
                        n_sites += 1
                        res.ob('%s %s' % (g.loc(n), g.qual), '%s: compared through a representation-parametric value' % norm(n), True)
                # string methods with constant arguments
                if isinstance(n, ast.Call) and isinstance(n.func, ast.Attribute) and n.func.attr in STR_METHODS:
                    recv = n.func.value
                    base = recv
                    while isinstance(base, ast.Subscript):
                        base = base.value
                    if norm(base) in names:
                        consts = [a for a in n.args if _is_repr_const(a)]
                        found_use = True
                        n_sites += 1
                        if consts:
                            ok = _under_split(n, carrier)
                            res.ob('%s %s' % (g.loc(n), g.qual), '%s: constant argument under an isinstance split' % norm(n)[:70], ok)
                            if not ok:
                                res.finding(g, enclosing_stmt(n), 'input text is searched/split with the constant %s outside an '
                                            'isinstance(bytes) split: TypeError or wrong result for the other representation'
                                            % norm(consts[0]), construct='call:' + norm(n)[:80])
                        else:
                            res.ob('%s %s' % (g.loc(n), g.qual), '%s: representation-parametric argument' % norm(n)[:70], True)
        if not found_use:
            res.notes.append('%s: carrier %s has no representation-sensitive use' % (fq, carrier))
    # the parametric newline values are themselves defined by an isinstance split
    for fq, var in (('lark.parsers.xearley:Parser._parse', None), ('lark.lexer:LineCounter.from_text_slice', None)):
        f = repo.func(fq)
        from ..exprs import cond_values, unify, pat
        splits = [(tgt, va, vb) for tgt, test, va, vb, _n in cond_values(f.body_nodes())
                  if unify(pat('isinstance($$t, bytes)'), test) is not None]
        ok = False
        for tgt, b, o in splits:
            # how is the value used?  compared with *elements* of the text (iteration yields ints for bytes) -> the bytes arm
            # must be an int; passed to count/rindex (substring search) -> the bytes arm must be b'\n'
            var = tgt if tgt.isidentifier() and tgt != 'return' else None
            elementwise = False
            if var is not None:
                loopvars = {n.target.id for n in f.body_nodes() if isinstance(n, ast.For) and isinstance(n.target, ast.Name)}
                for c in f.body_nodes():
                    if isinstance(c, ast.Compare) and var in {x.id for x in ast.walk(c) if isinstance(x, ast.Name)} \
                            and loopvars & {x.id for x in ast.walk(c) if isinstance(x, ast.Name)}:
                        elementwise = True
            if elementwise:
                okb = norm(b) in ("ord('\\n')", '10', "ord(b'\\n')")
            else:
                okb = isinstance(b, ast.Constant) and b.value == b'\n'
            oko = isinstance(o, ast.Constant) and o.value == '\n'
            if okb and oko:
                ok = True
        res.ob('%s %s' % (f.loc(), f.qual), 'newline value chosen by isinstance(text, bytes): bytes arm / str arm', ok)
        if not ok:
            res.finding(f, f.node, 'the newline character used for line counting is not chosen per representation '
                                   '(bytes vs str)', construct='newline-split')
    # what the line counter is fed is a piece of the input itself (same representation as the newline it counts):
    # a slice of the text, or the value matched from it -- never a display value (decoded character of an error)
    LC = 'C:lark.lexer:LineCounter'
    ty = ctx.typer
    n_feed = 0
    for f in repo.functions.values():
        if not f.module.name.startswith('lark') or f.module.name.startswith('lark.tools'):
            continue
        env = None
        for n in f.body_nodes():
            if not (isinstance(n, ast.Call) and isinstance(n.func, ast.Attribute) and n.func.attr == 'feed' and n.args):
                continue
            if env is None:
                env = ty.env(f)
            if LC not in ty.expr(f, n.func.value, env):
                continue
            n_feed += 1
            a = n.args[0]
            ok, why = False, norm(a)
            if isinstance(a, ast.Subscript) and isinstance(a.slice, ast.Slice):
                bt = ty.expr(f, a.value, env)
                # the sliced object is the text of a TextSlice (or the text itself)
                ok = norm(a.value).endswith('.text') or 'b:str' in bt or 'b:bytes' in bt
                why = 'slice of %s' % norm(a.value)
            elif isinstance(a, ast.Name):
                # value, type_ = <result of self.match(text, pos)>
                for d in f.body_nodes():
                    if isinstance(d, ast.Assign) and any(isinstance(t, ast.Tuple) and t.elts and isinstance(t.elts[0], ast.Name)
                                                         and t.elts[0].id == a.id for t in d.targets):
                        src = d.value
                        if isinstance(src, ast.Name):
                            for d2 in f.body_nodes():
                                if isinstance(d2, ast.Assign) and any(isinstance(t, ast.Name) and t.id == src.id for t in d2.targets) \
                                        and isinstance(d2.value, ast.Call) and isinstance(d2.value.func, ast.Attribute) \
                                        and d2.value.func.attr == 'match':
                                    ok, why = True, 'the text matched by %s' % norm(d2.value.func)
            res.ob('%s %s' % (f.module.loc(n), f.qual), 'the line counter is fed a piece of the input text (%s)' % why, ok)
            if not ok:
                res.finding(f, n, 'LineCounter.feed(%s): the argument is not a slice of the input / the matched text; a value of another '
                            'representation (the decoded character of an error message, an element of bytes) makes bytes input fail or '
                            'miscount where str input works' % norm(a), construct='feed-arg:' + ('attr' if isinstance(a, ast.Attribute) else type(a).__name__))
    res.require_instances(n_feed, 2, 'LineCounter.feed call sites')
    res.require_instances(n_sites, 8, 'representation-sensitive uses of input text')
    return res


def run_window(ctx: Ctx) -> RuleResult:
    repo, ty = ctx.repo, ctx.typer
    res = RuleResult('R-WINDOW-BOUNDS', 'regex calls on a TextSlice pass pos and the window end; loops are bounded by the end')
    TS = 'C:lark.utils:TextSlice'
    n_calls = 0
    for f in repo.functions.values():
        if f.module.name not in ('lark.lexer', 'lark.parser_frontends', 'lark.utils'):
            continue
        env = ty.env(f)
        for n in f.body_nodes():
            if isinstance(n, ast.Call) and isinstance(n.func, ast.Attribute) and n.func.attr in ('match', 'search', 'fullmatch', 'finditer') \
                    and n.args and isinstance(n.args[0], ast.Attribute) and n.args[0].attr == 'text':
                sl = n.args[0].value
                if TS not in ty.expr(f, sl, env) and 'C:lark.lexer:_TextSlice_WithLineCount' not in ty.expr(f, sl, env):
                    continue
                n_calls += 1
                site = '%s %s' % (f.loc(n), f.qual)
                ok = len(n.args) == 3 and norm(n.args[2]) == norm(sl) + '.end' and isinstance(n.args[1], ast.Name)
                res.ob(site, '%s: position and window end are passed' % norm(n), ok)
                if not ok:
                    res.finding(f, enclosing_stmt(n), 'the regex call on the window\'s buffer does not pass (pos, %s.end): matches run past '
                                'the window' % norm(sl), construct='bounds:' + norm(n))
                # start side: inherent to re's pos parameter
                res.ob(site, 'start side: `pos` does not hide the text before it from look-behind / ^ / \\b', False, props=['C15'])
                res.finding(f, enclosing_stmt(n), 'look-behind, ^ and \\b at the window start see the buffer before the window '
                            '(re\'s pos does not truncate): a window does not behave like the extracted substring for such terminals',
                            construct='lookbehind-sees-outside-window', props=['C15'])
    res.require_instances(n_calls, 2, 'regex calls on a TextSlice buffer')
    # loops over the window bounded by .end
    nt = repo.func('lark.lexer:BasicLexer.next_token')
    loops = [n for n in nt.body_nodes() if isinstance(n, ast.While)]
    from ..exprs import as_less
    lt_ = as_less(loops[0].test) if len(loops) == 1 else None
    ok = lt_ is not None and lt_[1] == '<' and norm(lt_[0]).endswith('.char_pos') and norm(lt_[2]).endswith('.text.end')
    res.ob('%s %s' % (nt.loc(), nt.qual), 'the token loop runs while char_pos < window end', ok)
    if not ok:
        res.finding(nt, loops[0] if loops else nt.node, 'the token loop is not bounded by the window\'s end', construct='loop-bound')
    # the match position is the counter's char_pos (absolute offset in the buffer)
    mcalls = [n for n in nt.body_nodes() if isinstance(n, ast.Call) and norm(n.func) == 'self.match']
    ok = len(mcalls) == 1 and len(mcalls[0].args) == 2 and norm(mcalls[0].args[0]).endswith('.text') \
        and norm(mcalls[0].args[1]).endswith('.char_pos')
    res.ob('%s %s' % (nt.loc(), nt.qual), 'matching starts at the counter\'s absolute offset', ok)
    if not ok:
        res.finding(nt, nt.node, 'next_token does not match at (window, counter offset)', construct='match-pos')
    # the lexer state of a window starts its counter from the window
    ls = repo.func('lark.lexer:LexerState.__init__')
    ok = any(isinstance(n, ast.Call) and norm(n.func) == 'LineCounter.from_text_slice' and norm(n.args[0]) == 'text' for n in ls.body_nodes())
    res.ob('%s %s' % (ls.loc(), ls.qual), 'the line counter of a window is initialised from the window (from_text_slice)', ok)
    if not ok:
        res.finding(ls, ls.node, 'LexerState does not initialise its counter from the text slice', construct='counter-init')
    fts = repo.func('lark.lexer:LineCounter.from_text_slice')
    adv = [n for n in fts.body_nodes() if isinstance(n, ast.Call) and norm(n.func).endswith('.advance_to')]
    ok = len(adv) == 1 and norm(adv[0].args[0]) == 'text_slice.text' and norm(adv[0].args[1]) == 'text_slice.start'
    res.ob('%s %s' % (fts.loc(), fts.qual), 'a window\'s counter counts the buffer up to the window start', ok)
    if not ok:
        res.finding(fts, fts.node, 'the counter of a window is not advanced over text[:start] of the underlying buffer', construct='prefix-count')
    # dynamic lexers refuse partial windows (they index the buffer from 0)
    pf = repo.func('lark.parser_frontends:ParsingFrontend.parse')
    ok = any(isinstance(n, ast.Raise) for n in pf.body_nodes()) and any(
        isinstance(n, ast.Call) and norm(n.func).endswith('is_complete_text') for n in pf.body_nodes())
    res.ob('%s %s' % (pf.loc(), pf.qual), 'dynamic lexers refuse partial windows', ok)
    if not ok:
        res.finding(pf, pf.node, 'a partial TextSlice reaches a dynamic lexer, which scans the whole buffer', construct='dynamic-slice')
    # ... and "partial" means exactly: not the whole buffer
    ict = repo.func('lark.utils:TextSlice.is_complete_text')
    sn_ = ict.self_name()
    rets = [n for n in ict.body_nodes() if isinstance(n, ast.Return)]
    got = set()
    if len(rets) == 1 and isinstance(rets[0].value, ast.BoolOp) and isinstance(rets[0].value.op, ast.And):
        for c in rets[0].value.values:
            if isinstance(c, ast.Compare) and len(c.ops) == 1 and isinstance(c.ops[0], ast.Eq):
                got.add(frozenset((norm(c.left), norm(c.comparators[0]))))
            else:
                got.add(frozenset(('?', norm(c))))
    want = {frozenset(('%s.start' % sn_, '0')), frozenset(('%s.end' % sn_, 'len(%s.text)' % sn_))}
    ok = got == want
    res.ob('%s %s' % (ict.loc(), ict.qual), 'is_complete_text == (start == 0 and end == len(text))', ok)
    if not ok:
        res.finding(ict, ict.node, 'TextSlice.is_complete_text is not exactly `start == 0 and end == len(text)`: a proper window passes '
                                   'for the whole text and reaches code that scans the whole buffer (dynamic lexers, error context)',
                    construct='is-complete-text')
    # TextSlice normalisation
    ts = repo.cls('lark.utils:TextSlice')
    from ..exprs import in_bool_context
    for m in ts.swept_methods():
        for n in m.body_nodes():
            if isinstance(n, ast.Attribute) and n.attr in ('start', 'end') and isinstance(n.value, ast.Name) and n.value.id == m.self_name() \
                    and isinstance(n.ctx, ast.Load) and in_bool_context(n):
                res.ob('%s %s' % (m.loc(n), m.qual), 'window bound %s is not tested by truthiness (0 is a valid offset)' % norm(n), False)
                res.finding(m, enclosing_stmt(n), 'the window bound %s is tested by truthiness: offset 0 is treated like "not given" '
                            '(the empty head window [0, 0) becomes the whole buffer)' % norm(n), construct='bound-truthiness:' + norm(n))
    pi = ts.methods.get('__post_init__')
    from ..exprs import as_less as _al
    def _strict_negative(attr):
        # exactly `self.<attr> < 0` (strict: 0 is an offset, not "from the end")
        for n_ in (pi.body_nodes() if pi else []):
            if isinstance(n_, ast.If) and _al(n_.test) is not None:
                lo, op_, hi = _al(n_.test)
                if norm(lo) == 'self.%s' % attr and norm(hi) == '0':
                    return op_ == '<'
        return None
    ok = pi is not None and any(isinstance(n, ast.If) and norm(n.test) == 'self.end is None' for n in pi.body_nodes()) \
        and _strict_negative('start') is True and _strict_negative('end') is True
    res.ob('%s TextSlice.__post_init__' % (pi.loc() if pi else ''), 'end=None means len(text); negative bounds count from the end', ok)
    if not ok:
        res.finding(pi or ts.qual, pi.node if pi else ts.node, 'TextSlice bound normalisation (None / negative) changed', construct='normalise',
                    module=ts.module)
    cf = ts.methods.get('cast_from')
    ok = cf is not None and any(isinstance(n, ast.Return) and norm(n.value) == 'cls(text, 0, len(text))' for n in cf.body_nodes())
    res.ob('%s %s' % (cf.loc() if cf else '', 'TextSlice.cast_from'), 'plain text is the window [0, len)', ok)
    if not ok:
        res.finding(cf or ts.qual, cf.node if cf else ts.node, 'cast_from does not wrap plain text as the complete window', construct='cast-from',
                    module=ts.module)
    return res
