"""Position rules [C06 C08 C14 C15]:

R-POS-AFFINITY   arguments / assignments of coordinates keep their family (start/line/column/end_*);
                 start coordinates are read before the counter advances, end coordinates after;
                 LineCounter mutators re-establish column = char_pos - line_start_pos + 1 (R-LINECTR-INV);
                 the dynamic Earley scanner's running coordinates have the roles the token fields expect.
R-NEWLINE-PRED   every LineCounter.feed call counts newlines unless a conservative predicate says the
                 token cannot contain one.
R-TOKEN-NONE-TEST  Optional[Token] values are tested with `is None`, never by truthiness.
R-META-TRIPLES   PropagatePositions copies like to like (start block from the first child, end block from the last).
"""
from __future__ import annotations

import ast
import re
from typing import Dict, List, Optional, Set, Tuple

from ..model import Repo, ClassInfo, FuncInfo, AnalysisError, norm, parent, ancestors, enclosing_stmt, const_str
from ..report import Ctx, RuleResult
from ..cfg import cfg_of
from ..exprs import linear, lin_add, lin_str, bind_call, dataclass_fields, is_dataclass, in_bool_context

FAMILY = {
    'start_pos': 'START', 'char_pos': 'START', 'lex_pos': 'START', 'pos_in_stream': 'START', 'start': 'START',
    'end_pos': 'END_POS', 'end': 'WEND',
    'line': 'LINE', 'column': 'COLUMN', 'end_line': 'END_LINE', 'end_column': 'END_COLUMN',
    'line_start_pos': 'LINE_START',
}
# an END_* target may take the running counter's START/LINE/COLUMN *after* the advance
AFTER_ADVANCE = {'END_POS': 'START', 'END_LINE': 'LINE', 'END_COLUMN': 'COLUMN'}

TOKEN = 'lark.lexer:Token'
LINECTR = 'lark.lexer:LineCounter'
UCHARS = 'lark.exceptions:UnexpectedCharacters'
TSWLC = 'lark.lexer:_TextSlice_WithLineCount'


# ------------------------------------------------------------------------------------------------
def _ctor_params(repo: Repo, k: ClassInfo) -> List[str]:
    """Positional parameter names of constructing k (without self/cls)."""
    if k.qual == TOKEN:
        fn = k.find_method('_future_new')
        new = k.find_method('__new__')
        if new is not None and new.node.args.vararg is None and len(new.positional_names()) > 1:
            return new.positional_names()
        if fn is None:
            raise AnalysisError('Token._future_new not found (anchor vanished)')
        return fn.positional_names()
    init = k.find_method('__init__')
    if init is not None:
        return init.positional_names()
    if is_dataclass(k):
        return dataclass_fields(k)
    return []


def _arg_family(f: FuncInfo, arg: ast.AST, roles: Dict[str, str]) -> Optional[str]:
    if isinstance(arg, ast.Attribute) and arg.attr in FAMILY:
        return FAMILY[arg.attr]
    if isinstance(arg, ast.Call) and isinstance(arg.func, ast.Name) and arg.func.id == 'getattr' and len(arg.args) >= 2:
        s = const_str(arg.args[1])
        if s in FAMILY:
            return FAMILY[s]
    if isinstance(arg, ast.Name):
        if arg.id in roles:
            return roles[arg.id]
        if arg.id in f.param_names() and arg.id in FAMILY:
            return FAMILY[arg.id]
    return None


def _xearley_roles(f: FuncInfo) -> Dict[str, str]:
    """Classify the running coordinates of a character loop by role:
    for <ch> in <stream>:  ...  if <ch> == <nl>: L += 1; C = 1  else: C += 1 ;  I += 1"""
    roles: Dict[str, str] = {}
    root = f
    while root.parent is not None:
        root = root.parent
    for n in ast.walk(root.node):
        if not isinstance(n, ast.For) or not isinstance(n.target, ast.Name):
            continue
        ch = n.target.id
        for st in n.body:
            if isinstance(st, ast.If) and isinstance(st.test, ast.Compare) and len(st.test.ops) == 1 and isinstance(st.test.ops[0], ast.Eq) \
                    and any(isinstance(o_, ast.Name) and o_.id == ch for o_ in (st.test.left, st.test.comparators[0])):
                inc_true = [s.target.id for s in st.body if isinstance(s, ast.AugAssign) and isinstance(s.op, ast.Add)
                            and isinstance(s.target, ast.Name) and isinstance(s.value, ast.Constant) and s.value.value == 1]
                set_true = [s.targets[0].id for s in st.body if isinstance(s, ast.Assign) and len(s.targets) == 1
                            and isinstance(s.targets[0], ast.Name) and isinstance(s.value, ast.Constant) and s.value.value == 1]
                inc_false = [s.target.id for s in st.orelse if isinstance(s, ast.AugAssign) and isinstance(s.op, ast.Add)
                             and isinstance(s.target, ast.Name) and isinstance(s.value, ast.Constant) and s.value.value == 1]
                for v in inc_true:
                    roles[v] = 'LINE'
                for v in set_true:
                    if v in inc_false:
                        roles[v] = 'COLUMN'
                roles['<newline-test>'] = norm(st.test)
                roles['<newline-if>'] = st   # type: ignore[assignment]
        for st in n.body:
            if isinstance(st, ast.AugAssign) and isinstance(st.op, ast.Add) and isinstance(st.target, ast.Name) \
                    and isinstance(st.value, ast.Constant) and st.value.value == 1 and st.target.id not in roles:
                roles[st.target.id] = 'START'
        if 'LINE' in roles.values():
            roles['<loop>'] = n   # type: ignore[assignment]
            break
    return roles


def run_affinity(ctx: Ctx) -> RuleResult:
    repo, ty = ctx.repo, ctx.typer
    res = RuleResult('R-POS-AFFINITY', 'coordinate families preserved at Token/UnexpectedCharacters/window '
                                       'constructors and end-field assignments; start read before, end after the advance; '
                                       'LineCounter invariant; dynamic-scanner coordinate roles')
    token = repo.cls(TOKEN)
    targets = {TOKEN: _ctor_params(repo, token)}
    for q in (UCHARS, TSWLC):
        targets[q] = _ctor_params(repo, repo.cls(q))
    res.tables['signatures'] = targets
    ctor_sites = 0
    assign_sites = 0
    for f in list(repo.functions.values()):
        if f.is_overload:
            continue
        roles: Dict[str, str] = {}
        if f.module.name == 'lark.parsers.xearley':
            roles = {k: v for k, v in _xearley_roles(f).items() if isinstance(v, str) and not k.startswith('<')}
        env = ty.env(f)
        for n in f.body_nodes():
            # -- constructor calls ---------------------------------------------------------
            if isinstance(n, ast.Call):
                callee_t = ty.expr(f, n.func, env)
                for cq, names in targets.items():
                    if ('T:' + cq) not in callee_t:
                        continue
                    if isinstance(n.func, ast.Name) and n.func.id == 'super':
                        continue
                    binds, exact = bind_call(n, names)
                    checked = 0
                    for pname, arg in binds.items():
                        pf = FAMILY.get(pname)
                        if pf is None:
                            continue
                        af = _arg_family(f, arg, roles)
                        if af is None:
                            continue
                        checked += 1
                        ok = (af == pf)
                        props = ['C06', 'C14'] if (pf in AFTER_ADVANCE and af in AFTER_ADVANCE) else None
                        res.ob('%s %s' % (f.loc(n), f.qual), '%s(%s=%s): %s <- %s' % (cq.split(':')[1], pname, norm(arg), pf, af), ok, props=props)
                        if not ok:
                            res.finding(f, n, 'argument %s of family %s is passed as %s (%s) of %s' % (
                                norm(arg), af, pname, pf, cq.split(':')[1]), construct='%s=%s' % (pname, norm(arg)), props=props)
                    if checked:
                        ctor_sites += 1
            # Token.__reduce__: (cls, (args...))
            if isinstance(n, ast.Return) and f.name == '__reduce__' and f.cls is not None and f.cls.qual == TOKEN \
                    and isinstance(n.value, ast.Tuple) and len(n.value.elts) == 2 and isinstance(n.value.elts[1], ast.Tuple):
                names = targets[TOKEN]
                for pname, arg in zip(names, n.value.elts[1].elts):
                    pf = FAMILY.get(pname)
                    af = _arg_family(f, arg, roles)
                    if pf and af:
                        ok = af == pf
                        res.ob('%s %s' % (f.loc(n), f.qual), '__reduce__ %s <- %s' % (pname, norm(arg)), ok)
                        if not ok:
                            res.finding(f, n, 'pickle tuple passes %s as %s' % (norm(arg), pname),
                                        construct='%s=%s' % (pname, norm(arg)))
                ctor_sites += 1
            # -- assignments to coordinate attributes ---------------------------------------
            if isinstance(n, ast.Assign) and len(n.targets) == 1 and isinstance(n.targets[0], ast.Attribute):
                t = n.targets[0]
                tf = FAMILY.get(t.attr)
                if tf is None or t.attr in ('start', 'end'):
                    continue
                recv_t = ty.expr(f, t.value, env)
                # only objects that carry coordinates: tokens, counters, exceptions, meta
                af = _arg_family(f, n.value, roles)
                if af is None:
                    # a token coordinate computed by arithmetic on other coordinates / lengths (outside the counters, which own that
                    # arithmetic): coordinates are observations of the line counter, not functions of the token's text -- a callback
                    # may change the text, an ignored stretch may lie inside
                    if ('C:' + TOKEN) in recv_t and isinstance(n.value, ast.BinOp) and any(
                            (isinstance(x, ast.Attribute) and x.attr in FAMILY) or (isinstance(x, ast.Call) and norm(x.func) == 'len')
                            for x in ast.walk(n.value)) and not f.qual.startswith(('lark.parsers.xearley:', LINECTR)):
                        assign_sites += 1
                        res.ob('%s %s' % (f.loc(n), f.qual), '%s is copied from a measured coordinate' % norm(t), False)
                        res.finding(f, n, 'the token coordinate %s is computed (%s) instead of being copied from the line counter / the token it '
                                    'borrows from: it stops describing where the token lies in the source as soon as the value and the '
                                    'source text differ (callbacks changing the value; scan() trusts end_pos)' % (norm(t), norm(n.value)),
                                    construct='computed-coordinate:%s' % t.attr)
                    continue
                if isinstance(n.value, ast.Name) and n.value.id in roles and tf in AFTER_ADVANCE:
                    continue      # dynamic scanner end fields: checked exactly by _xearley_coords
                assign_sites += 1
                ok = af == tf
                if not ok and AFTER_ADVANCE.get(tf) == af:
                    # running counter after the advance (ordering is checked separately)
                    src = n.value.value if isinstance(n.value, ast.Attribute) else None
                    ok = src is not None and ('C:' + LINECTR) in ty.expr(f, src, env)
                props = ['C06'] if tf in AFTER_ADVANCE else None
                res.ob('%s %s' % (f.loc(n), f.qual), '%s (%s) <- %s (%s)' % (norm(t), tf, norm(n.value), af), ok, props=props)
                if not ok:
                    res.finding(f, n, 'coordinate of family %s assigned to %s (%s)' % (af, norm(t), tf), props=props)
    res.require_instances(ctor_sites, 9, 'coordinate-carrying constructor call sites')
    res.require_instances(assign_sites, 12, 'coordinate attribute assignments')
    res.tables['counts'] = {'constructor_sites': ctor_sites, 'assignments': assign_sites}
    _ordering(ctx, res)
    _linectr_inv(ctx, res)
    _xearley_coords(ctx, res)
    return res


# ------------------------------------------------------------------------------------------------
def _ordering(ctx: Ctx, res: RuleResult):
    """In BasicLexer.next_token: start-field reads of the counter precede feed(), end-field reads follow."""
    repo, ty = ctx.repo, ctx.typer
    f = repo.func('lark.lexer:BasicLexer.next_token')
    env = ty.env(f)
    g = cfg_of(f.node)
    feeds = []
    for n in f.body_nodes():
        if isinstance(n, ast.Call) and isinstance(n.func, ast.Attribute) and n.func.attr in ('feed', 'advance_to') \
                and ('C:' + LINECTR) in ty.expr(f, n.func.value, env):
            feeds.append(n)
    if len(feeds) != 1:
        res.ob(f.loc(), 'exactly one advance of the line counter per token in next_token', False)
        res.finding(f, f.node, 'expected exactly one LineCounter.feed/advance_to call in the token loop, found %d'
                    % len(feeds), construct='feed-calls=%d' % len(feeds))
        return
    feed = feeds[0]
    feed_node = g.node_of(enclosing_stmt(feed))
    loops = [n.id for n in g.nodes if n.kind == 'loop' and g.dominates(n.id, feed_node)]
    head = loops[-1] if loops else g.entry
    ctr = norm(feed.func.value)
    starts, ends = 0, 0
    for n in f.body_nodes():
        # start reads: Token(...) arguments / raise arguments reading the counter
        if isinstance(n, ast.Call) and not (n is feed):
            callee_t = ty.expr(f, n.func, env)
            if ('T:' + TOKEN) in callee_t or ('T:' + UCHARS) in callee_t:
                reads = [a for a in ast.walk(n) if isinstance(a, ast.Attribute) and norm(a.value) == ctr and a.attr in FAMILY]
                if not reads:
                    continue
                nid = g.node_of(enclosing_stmt(n))
                after = nid in g.reachable([feed_node], avoid=[head])
                starts += 1
                res.ob(f.loc(n), 'start coordinates of %s read before the counter advances' % norm(n.func), not after)
                if after:
                    res.finding(f, n, 'token/exception start coordinates are read from the line counter after it has '
                                      'been advanced past the token', construct=norm(n.func) + '(...) after feed')
        if isinstance(n, ast.Assign) and len(n.targets) == 1 and isinstance(n.targets[0], ast.Attribute) \
                and n.targets[0].attr in ('end_line', 'end_column', 'end_pos') \
                and isinstance(n.value, ast.Attribute) and norm(n.value.value) == ctr:
            nid = g.node_of(n)
            ok = g.must_pass(head, [feed_node], [nid])
            ends += 1
            res.ob(f.loc(n), '%s assigned after the counter advances' % norm(n.targets[0]), ok, props=['C06'])
            if not ok:
                res.finding(f, n, 'end coordinate taken from the line counter before it has been advanced over the token', props=['C06'])
    if starts < 1 or ends < 3:
        res.ob(f.loc(), 'token start read (>=1) and three end fields assigned from the counter', False)
        res.finding(f, f.node, 'next_token no longer fills the token end coordinates from the line counter '
                               '(found %d start reads, %d end assignments)' % (starts, ends),
                    construct='starts=%d ends=%d' % (starts, ends))


def _inst_name(f: FuncInfo) -> Optional[str]:
    """Name of the instance being updated: `self`, or in a classmethod the local built from cls(...)."""
    if f.is_classmethod:
        cn = f.self_name()
        for n in f.body_nodes():
            if isinstance(n, ast.Assign) and len(n.targets) == 1 and isinstance(n.targets[0], ast.Name) \
                    and isinstance(n.value, ast.Call) and isinstance(n.value.func, ast.Name) and n.value.func.id == cn:
                return n.targets[0].id
        return None
    return f.self_name()


def _self_assigns(f: FuncInfo) -> List[Tuple[ast.AST, str, ast.AST, str]]:
    """(stmt, attr, value, op) for every assignment to self.<attr> in statement order (top-level walk)."""
    sn = _inst_name(f)
    out = []
    for n in f.body_nodes():
        if isinstance(n, ast.Assign):
            for t in n.targets:
                if isinstance(t, ast.Attribute) and isinstance(t.value, ast.Name) and t.value.id == sn:
                    out.append((n, t.attr, n.value, '='))
        elif isinstance(n, ast.AugAssign):
            t = n.target
            if isinstance(t, ast.Attribute) and isinstance(t.value, ast.Name) and t.value.id == sn:
                out.append((n, t.attr, n.value, type(n.op).__name__))
    out.sort(key=lambda x: (x[0].lineno, x[0].col_offset))
    return out


def _linectr_inv(ctx: Ctx, res: RuleResult):
    repo = ctx.repo
    k = repo.cls(LINECTR)
    mutators = []
    for m in k.swept_methods():
        if m.name == '__init__':
            continue
        asg = _self_assigns(m)
        if any(a == 'char_pos' for _, a, _, _ in asg):
            mutators.append((m, asg))
    res.require_instances(len(mutators), 3, 'LineCounter mutators (methods assigning char_pos)')
    for m, asg in mutators:
        sn = _inst_name(m)
        site = '%s %s' % (m.loc(), m.qual)
        cols = [(s, v) for s, a, v, op in asg if a == 'column' and op == '=']
        ok = bool(cols)
        if ok:
            # the column assignment that is last in the same block as the last char_pos assignment
            cp = [s for s, a, v, op in asg if a == 'char_pos']
            last_cp = cp[-1]
            col_stmt, col_val = cols[-1]
            blk_cp = parent(last_cp)
            ok = parent(col_stmt) is blk_cp and (col_stmt.lineno, col_stmt.col_offset) > (last_cp.lineno, last_cp.col_offset)
            # nothing assigns char_pos / line_start_pos after it in that block
            later = [s for s, a, v, op in asg if a in ('char_pos', 'line_start_pos')
                     and parent(s) is blk_cp and (s.lineno, s.col_offset) > (col_stmt.lineno, col_stmt.col_offset)]
            ok = ok and not later
            if ok:
                # current values of char_pos / line_start_pos in this block (if assigned with '=' before column)
                cur: Dict[str, Dict[str, int]] = {}
                for s, a, v, op in asg:
                    if parent(s) is blk_cp and op == '=' and a in ('char_pos', 'line_start_pos') \
                            and (s.lineno, s.col_offset) < (col_stmt.lineno, col_stmt.col_offset):
                        cur['%s.%s' % (sn, a)] = linear(v)
                actual = linear(col_val, cur)
                cpv = cur.get('%s.char_pos' % sn, {'%s.char_pos' % sn: 1})
                lsv = cur.get('%s.line_start_pos' % sn, {'%s.line_start_pos' % sn: 1})
                expected = lin_add(lin_add(cpv, lsv, -1), {'': 1})
                ok = actual == expected
                if not ok:
                    res.ob(site, 'column == char_pos - line_start_pos + 1 after the update', False)
                    res.finding(m, col_stmt, 'column is set to [%s] but the invariant requires [%s]' % (
                        lin_str(actual), lin_str(expected)), construct='column=' + lin_str(actual))
                    continue
        res.ob(site, 'column == char_pos - line_start_pos + 1 re-established after char_pos is assigned', ok)
        if not ok:
            res.finding(m, m.node, 'after assigning char_pos the method does not re-establish '
                                   'column = char_pos - line_start_pos + 1 as its last coordinate update',
                        construct='column-invariant')
    # the two counting siblings: line += count(nl...), line_start_pos = <last newline index> + 1
    counting = [(m, asg) for m, asg in mutators if any(a == 'line' and op == 'Add' for _, a, _, op in asg)]
    res.require_instances(len(counting), 2, 'LineCounter newline-counting mutators')
    for m, asg in counting:
        sn = _inst_name(m)
        site = '%s %s' % (m.loc(), m.qual)
        nl = '%s.newline_char' % sn
        # line += <count>
        line_inc = [(s, v) for s, a, v, op in asg if a == 'line' and op == 'Add']
        s_inc, v_inc = line_inc[-1]
        count_calls = [c for c in ast.walk(m.node) if isinstance(c, ast.Call) and isinstance(c.func, ast.Attribute)
                       and c.func.attr == 'count' and c.args and norm(c.args[0]) == nl]
        okc = len(count_calls) == 1
        cnt = count_calls[0] if okc else None
        if okc:
            # the increment is the count value (directly or through one local)
            if isinstance(v_inc, ast.Name):
                defs = [n for n in m.body_nodes() if isinstance(n, ast.Assign) and len(n.targets) == 1
                        and isinstance(n.targets[0], ast.Name) and n.targets[0].id == v_inc.id]
                # one definition, or the count in one arm and the constant 0 in the other (`n = t.count(nl) if test else 0`): the
                # increment runs under `if n:` so the zero arm adds nothing
                zero = [d_ for d_ in defs if isinstance(d_.value, ast.Constant) and d_.value.value == 0]
                real = [d_ for d_ in defs if d_ not in zero]
                okc = len(real) == 1 and real[0].value is cnt and len(zero) <= 1
            else:
                okc = v_inc is cnt
        res.ob(site, 'line += number of newline_char occurrences in the consumed text', okc)
        if not okc:
            res.finding(m, s_inc, 'the line increment is not the count of newline_char in the consumed text',
                        construct='line+=' + norm(v_inc))
        # line_start_pos = rindex(...) + 1 [+ char_pos when the index is relative to the token]
        lsp = [(s, v) for s, a, v, op in asg if a == 'line_start_pos' and op == '=']
        oks = len(lsp) == 1
        detail = ''
        if oks:
            s_l, v_l = lsp[0]
            rcalls = [c for c in ast.walk(v_l) if isinstance(c, ast.Call) and isinstance(c.func, ast.Attribute)
                      and c.func.attr in ('rindex', 'rfind', 'index', 'find')]
            oks = len(rcalls) == 1 and rcalls[0].func.attr == 'rindex' and rcalls[0].args and norm(rcalls[0].args[0]) == nl
            if oks and cnt is not None:
                rc = rcalls[0]
                # same receiver and same range as the count
                # (an absolute search may start anywhere at or before the count's start: the count is non-zero)
                same_end = [norm(a) for a in rc.args[2:]] == [norm(a) for a in cnt.args[2:]]
                same_start = [norm(a) for a in rc.args[1:2]] == [norm(a) for a in cnt.args[1:2]] or \
                    (len(rc.args) >= 2 and isinstance(rc.args[1], ast.Constant) and rc.args[1].value == 0)
                oks = norm(rc.func.value) == norm(cnt.func.value) and same_end and same_start
                detail = 'rindex range differs from count range'
            if oks:
                rc = rcalls[0]
                form = linear(v_l)
                exp = {norm(rc): 1, '': 1}
                relative = len(rc.args) == 1
                if relative:
                    exp['%s.char_pos' % sn] = 1
                oks = form == exp
                detail = 'line_start_pos = [%s], expected [%s]' % (lin_str(form), lin_str(exp))
                if oks and relative:
                    # must use the token's start offset: precede the char_pos update
                    cp = [s for s, a, v, op in asg if a == 'char_pos']
                    oks = all((s_l.lineno, s_l.col_offset) < (s.lineno, s.col_offset) for s in cp)
                    detail = 'relative newline index added to char_pos after char_pos was advanced'
                if oks:
                    # guarded by the count being non-zero (rindex raises otherwise)
                    guards = [a for a in ancestors(s_l) if isinstance(a, ast.If)]
                    oks = any(cnt is not None and (norm(g.test) == norm(cnt) or (isinstance(g.test, ast.Name) and isinstance(v_inc, ast.Name)
                              and g.test.id == v_inc.id)) for g in guards)
                    detail = 'rindex not guarded by a non-zero newline count'
        res.ob(site, 'line_start_pos = index of the last newline in the consumed text + 1', oks)
        if not oks:
            res.finding(m, lsp[0][0] if lsp else m.node, 'line_start_pos is not "offset just after the last newline '
                        'of the consumed text" (%s)' % detail, construct='line_start_pos=' + (norm(lsp[0][1]) if lsp else '?'))
        # char_pos update: += len(consumed) or = <pos param>
        cps = [(s, v, op) for s, a, v, op in asg if a == 'char_pos']
        s_c, v_c, op_c = cps[-1]
        params = m.positional_names()
        if op_c == 'Add':
            okp = isinstance(v_c, ast.Call) and isinstance(v_c.func, ast.Name) and v_c.func.id == 'len' \
                and cnt is not None and norm(v_c.args[0]) == norm(cnt.func.value)
        else:
            okp = isinstance(v_c, ast.Name) and v_c.id in params and cnt is not None and \
                len(cnt.args) == 3 and norm(cnt.args[2]) == v_c.id and norm(cnt.args[1]) == '%s.char_pos' % sn
        res.ob(site, 'char_pos advances by exactly the consumed text', okp)
        if not okp:
            res.finding(m, s_c, 'char_pos is not advanced by exactly the text whose newlines were counted',
                        construct='char_pos %s %s' % (op_c, norm(v_c)))


def _xearley_coords(ctx: Ctx, res: RuleResult):
    repo = ctx.repo
    f = repo.func('lark.parsers.xearley:Parser._parse')
    roles = _xearley_roles(f)
    site = '%s %s' % (f.loc(), f.qual)
    inv = {v: k for k, v in roles.items() if isinstance(v, str) and not k.startswith('<')}
    ok = {'LINE', 'COLUMN', 'START'} <= set(inv)
    res.ob(site, 'character loop maintains line (+=1 on newline), column (=1 on newline, else +=1) and index (+=1)', ok)
    if not ok:
        res.finding(f, f.node, 'the dynamic scanner\'s main loop does not maintain line/column/index in the expected '
                               'shape (found roles %s)' % {k: v for k, v in roles.items() if isinstance(v, str)},
                    construct='roles=%s' % sorted(inv))
        return
    L, C, I = inv['LINE'], inv['COLUMN'], inv['START']
    # initial values: line 1, column 1, index 0
    init = {}
    for n in f.body_nodes():
        if isinstance(n, ast.Assign) and len(n.targets) == 1 and isinstance(n.targets[0], ast.Name) \
                and n.targets[0].id in (L, C, I) and isinstance(n.value, ast.Constant) and parent(n) is f.node:
            init.setdefault(n.targets[0].id, n.value.value)
    oki = init.get(L) == 1 and init.get(C) == 1 and init.get(I) == 0
    res.ob(site, 'coordinates start at line 1, column 1, index 0', oki)
    if not oki:
        res.finding(f, f.node, 'initial coordinates are %s, expected line=1 column=1 index=0' % init, construct='init=%s' % sorted(init.items()))
    # the per-character update comes after the scan of that character
    loop = roles['<loop>']
    nlif = roles['<newline-if>']
    scan_calls = [s for s in loop.body if any(isinstance(c, ast.Call) and isinstance(c.func, ast.Name) and c.func.id == 'scan'
                                             for c in ast.walk(s))]
    oko = bool(scan_calls) and loop.body.index(scan_calls[0]) < loop.body.index(nlif)  # type: ignore[arg-type]
    res.ob(site, 'coordinates are advanced after the character has been scanned', oko)
    if not oko:
        res.finding(f, nlif, 'line/column are advanced before scan() uses them for the current character', construct='order')
    scan = f.nested.get('scan')
    if scan is None:
        raise AnalysisError('xearley Parser._parse.scan not found (anchor vanished)')
    want = {'end_line': {L: 1}, 'end_column': {C: 1, '': 1}, 'end_pos': {I: 1, '': 1}}
    seen = set()
    for n in scan.body_nodes():
        if isinstance(n, ast.Assign) and len(n.targets) == 1 and isinstance(n.targets[0], ast.Attribute) \
                and n.targets[0].attr in want:
            a = n.targets[0].attr
            seen.add(a)
            form = linear(n.value)
            ok = form == want[a]
            res.ob(scan.loc(n), 'token.%s == [%s] (coordinate after the last character of the token)' % (a, lin_str(want[a])), ok, props=['C06'])
            if not ok:
                res.finding(scan, n, 'token.%s is [%s], expected [%s]' % (a, lin_str(form), lin_str(want[a])), props=['C06'])
    okall = seen == set(want)
    res.ob(scan.loc(), 'all three end fields of a dynamic token are assigned', okall)
    if not okall:
        res.finding(scan, scan.node, 'dynamic scanner does not assign %s' % sorted(set(want) - seen), construct='missing-end-fields')


# ------------------------------------------------------------------------------------------------
_LF_CONSTRUCTS = [
    # (construct, example regex fragment that can match LF)
    ('literal LF', '\n'), ('escape \\n', '\\n'), ('class \\s', '\\s'), ('negated class [^...]', '[^a]'),
    ('dot under (?s)', '(?s:.)'), ('combined inline flags (?is)', '(?is:.)'), ('class \\D', '\\D'), ('class \\W', '\\W'),
    ('\\S negated inside a class [^\\S]', '[^\\S]'), ('hex escape \\x0a', '\\x0a'), ('octal escape \\012', '\\012'),
    ('range spanning LF [\\t-\\r]', '[\\t-\\r]'), ('dot under global DOTALL (g_regex_flags)', '.'),
]


def _predicate_verdict(repo: Repo, pred: FuncInfo) -> Tuple[bool, str]:
    """Is this 'may contain newline' predicate conservative?  Accepted forms:
    (a) returns True for every regexp-kind pattern (test of the kind tag against PatternRE.type) and a
        containment test of LF on the text of string-kind patterns;
    (b) constant True."""
    rets = [n for n in pred.body_nodes() if isinstance(n, ast.Return)]
    if len(rets) != 1 or rets[0].value is None:
        return False, 'predicate has %d return statements; cannot show it conservative' % len(rets)
    v = rets[0].value
    if isinstance(v, ast.Constant) and v.value is True:
        return True, 'constant True'
    re_tag = repo.cls('lark.lexer:PatternRE').literal_attr('type')
    params = pred.positional_names()
    disj = v.values if isinstance(v, ast.BoolOp) and isinstance(v.op, ast.Or) else [v]
    has_kind = False
    has_lf = False
    for d in disj:
        if isinstance(d, ast.Compare) and len(d.ops) == 1:
            if isinstance(d.ops[0], ast.Eq) and isinstance(d.left, ast.Attribute) and d.left.attr == 'type' \
                    and const_str(d.comparators[0]) == re_tag:
                has_kind = True
            if isinstance(d.ops[0], ast.In) and const_str(d.left) == '\n' and isinstance(d.comparators[0], ast.Attribute) \
                    and d.comparators[0].attr == 'value':
                has_lf = True
        if isinstance(d, ast.Call) and isinstance(d.func, ast.Name) and d.func.id == 'isinstance' and len(d.args) == 2 \
                and norm(d.args[1]) == 'PatternRE':
            has_kind = True
    if has_kind and has_lf:
        return True, 'true for every regexp pattern; exact containment test for string patterns'
    # string heuristic: which substrings does it look for?
    subs = []
    for d in ast.walk(v):
        if isinstance(d, ast.Compare) and len(d.ops) == 1 and isinstance(d.ops[0], ast.In):
            s = const_str(d.left)
            if s is not None:
                subs.append(s)
    if subs:
        missing = []
        for name, frag in _LF_CONSTRUCTS:
            hit = False
            for s in subs:
                if s in frag:
                    hit = True
            # conjunction '(?s' and '.' both needed for the dot case: approximate by requiring both
            if name.startswith('dot under (?s)'):
                hit = '(?s' in subs and '.' in subs
            if name.startswith('combined inline'):
                hit = False if '(?s' in subs else hit
            if name.startswith('dot under global'):
                hit = False
            if not hit:
                missing.append(name)
        if missing:
            return False, 'substring heuristic %s does not cover regex constructs that can match LF: %s' % (subs, missing)
    return False, 'predicate is neither constantly true for regexps nor recognisably conservative'


def run_newline_pred(ctx: Ctx) -> RuleResult:
    repo, ty = ctx.repo, ctx.typer
    res = RuleResult('R-NEWLINE-PRED', 'every LineCounter.feed counts newlines unless a conservative predicate '
                                       'over the terminal says the token cannot contain LF')
    feed = repo.func('lark.lexer:LineCounter.feed')
    names = feed.positional_names()
    if 'test_newline' not in names:
        # no optimisation parameter any more: every feed counts
        res.ob(feed.loc(), 'feed() always counts newlines (no opt-out parameter)', True)
        res.tables['feed_signature'] = names
    sites = 0
    for f in list(repo.functions.values()):
        env = ty.env(f)
        for n in f.body_nodes():
            if not (isinstance(n, ast.Call) and isinstance(n.func, ast.Attribute) and n.func.attr == 'feed'):
                continue
            if ('C:' + LINECTR) not in ty.expr(f, n.func.value, env):
                continue
            sites += 1
            binds, _ = bind_call(n, names)
            arg = binds.get('test_newline')
            site = '%s %s' % (f.loc(n), f.qual)
            if arg is None or (isinstance(arg, ast.Constant) and arg.value is True):
                res.ob(site, 'feed(%s): newline test not disabled' % norm(n.args[0]) if n.args else 'feed()', True)
                continue
            if isinstance(arg, ast.Constant):
                res.ob(site, 'feed(..., %s)' % norm(arg), False)
                res.finding(f, n, 'newline counting is switched off unconditionally', construct=norm(n))
                continue
            # chase: <x> in self.<field>
            ok, why = _chase_membership(ctx, f, arg)
            res.ob(site, 'feed(..., %s): %s' % (norm(arg), why), ok)
            if not ok:
                res.finding(f, n, 'tokens of some terminals skip newline counting although they can contain LF: ' + why,
                            construct='test_newline=' + norm(arg))
    res.require_instances(sites, 2, 'LineCounter.feed call sites')
    return res


def _chase_membership(ctx: Ctx, f: FuncInfo, arg: ast.AST) -> Tuple[bool, str]:
    repo = ctx.repo
    if not (isinstance(arg, ast.Compare) and len(arg.ops) == 1 and isinstance(arg.ops[0], ast.In)
            and isinstance(arg.comparators[0], ast.Attribute) and isinstance(arg.comparators[0].value, ast.Name)
            and arg.comparators[0].value.id == f.self_name()):
        return False, 'cannot trace the newline test %s to a per-terminal predicate' % norm(arg)
    field = arg.comparators[0].attr
    k = f.owner_class
    defs = []
    for c in (k.mro() if k else []):
        for m in c.swept_methods():
            for n in m.body_nodes():
                if isinstance(n, ast.Assign):
                    for t in n.targets:
                        if isinstance(t, ast.Attribute) and t.attr == field and isinstance(t.value, ast.Name) \
                                and t.value.id == m.self_name():
                            defs.append((m, n.value))
    if len(defs) != 1:
        return False, 'field %s has %d definitions' % (field, len(defs))
    m, v = defs[0]
    comps = [c for c in ast.walk(v) if isinstance(c, (ast.GeneratorExp, ast.SetComp, ast.ListComp))]
    if len(comps) != 1 or len(comps[0].generators) != 1:
        return False, 'field %s is not defined by a single comprehension over the terminals' % field
    gen = comps[0].generators[0]
    if not gen.ifs:
        return True, 'field %s contains every terminal' % field
    if len(gen.ifs) != 1 or not isinstance(gen.ifs[0], ast.Call) or not isinstance(gen.ifs[0].func, ast.Name):
        return False, 'filter of %s is not a single predicate call' % field
    r = repo.resolve_global(m.module, gen.ifs[0].func.id)
    if not isinstance(r, FuncInfo):
        return False, 'predicate %s is not a package function' % gen.ifs[0].func.id
    ok, why = _predicate_verdict(repo, r)
    return ok, '%s = {t | %s(t)}: %s' % (field, r.name, why)


# ------------------------------------------------------------------------------------------------
def run_token_none_test(ctx: Ctx) -> RuleResult:
    repo, ty = ctx.repo, ctx.typer
    res = RuleResult('R-TOKEN-NONE-TEST', 'values of type Optional[Token] are tested with `is None`, never by truthiness '
                                          '(Token is a str subclass; empty-valued tokens exist)')
    tok = 'C:' + TOKEN
    sites = 0
    pkg_scope = ('lark.lexer', 'lark.parsers.lalr_parser', 'lark.parsers.lalr_interactive_parser', 'lark.indenter',
                 'lark.parsers.lalr_parser_state', 'lark.parser_frontends', 'lark.parsers.xearley', 'lark.parsers.earley',
                 'lark.exceptions', 'lark.lark')
    for f in list(repo.functions.values()):
        if f.module.name not in pkg_scope:
            continue
        env = ty.env(f)
        for n in f.body_nodes():
            if not isinstance(n, (ast.Name, ast.Attribute)) or not isinstance(getattr(n, 'ctx', None), ast.Load):
                continue
            p = parent(n)
            ts = None
            if isinstance(p, ast.Compare) and p.left is n and len(p.ops) == 1 and isinstance(p.ops[0], (ast.Is, ast.IsNot)) \
                    and isinstance(p.comparators[0], ast.Constant) and p.comparators[0].value is None:
                ts = ty.expr(f, n, env)
                if tok in ts and 'b:none' in ts:
                    sites += 1
                    res.ob('%s %s' % (f.loc(n), f.qual), '%s compared with None by identity' % norm(n), True)
                continue
            if not in_bool_context(n):
                continue
            ts = ty.expr(f, n, env)
            if tok in ts and 'b:none' in ts:
                sites += 1
                props = ['C08', 'C18'] if f.module.name == 'lark.indenter' else ['C08']
                res.ob('%s %s' % (f.loc(n), f.qual), '%s (Optional[Token]) tested by truthiness' % norm(n), False, props=props)
                res.finding(f, enclosing_stmt(n), 'Optional[Token] %s is tested by truthiness: an empty-valued token '
                            '(e.g. a final _DEDENT) is treated as "no token"' % norm(n), construct='truthiness:' + norm(n), props=props)
    res.require_instances(sites, 4, 'None-tests on Optional[Token] values')
    return res


# ------------------------------------------------------------------------------------------------
def run_meta_triples(ctx: Ctx) -> RuleResult:
    repo = ctx.repo
    res = RuleResult('R-META-TRIPLES', 'PropagatePositions: res.A = getattr(M, container_A, M.A) with M = first child '
                                       'for start fields and last child for end fields')
    res.default_props = ['C06']
    f = repo.func('lark.parse_tree_builder:PropagatePositions.__call__')
    # which local is the first / last meta?
    first, last = None, None
    for n in f.body_nodes():
        if isinstance(n, ast.Assign) and len(n.targets) == 1 and isinstance(n.targets[0], ast.Name) \
                and isinstance(n.value, ast.Call) and isinstance(n.value.func, ast.Attribute) and n.value.func.attr == '_pp_get_meta':
            a = n.value.args[0] if n.value.args else None
            if isinstance(a, ast.Call) and isinstance(a.func, ast.Name) and a.func.id == 'reversed':
                last = n.targets[0].id
            elif isinstance(a, ast.Name):
                first = n.targets[0].id
    if first is None or last is None:
        res.ob(f.loc(), 'first/last meta taken from children and reversed(children)', False)
        res.finding(f, f.node, 'cannot find the first-child / last-child meta lookups (_pp_get_meta(children) and '
                               '_pp_get_meta(reversed(children)))', construct='first=%s last=%s' % (first, last))
        return res
    START_F = {'line', 'column', 'start_pos'}
    END_F = {'end_line', 'end_column', 'end_pos'}
    n_triples = 0
    covered = {'start': set(), 'end': set(), 'cstart': set(), 'cend': set()}
    META_FIELDS = START_F | END_F | {'container_' + x for x in START_F | END_F}
    res_names = {norm(n.targets[0]) for n in f.body_nodes() if isinstance(n, ast.Assign) and len(n.targets) == 1
                 and isinstance(n.targets[0], ast.Name) and isinstance(n.value, ast.Attribute) and n.value.attr == 'meta'}
    for n in f.body_nodes():
        if not (isinstance(n, ast.Assign) and len(n.targets) == 1 and isinstance(n.targets[0], ast.Attribute)):
            continue
        t = n.targets[0]
        v = n.value
        if not (isinstance(v, ast.Call) and isinstance(v.func, ast.Name) and v.func.id == 'getattr' and len(v.args) == 3):
            if t.attr in META_FIELDS and (norm(t.value) in res_names or (isinstance(t.value, ast.Attribute) and t.value.attr == 'meta')):
                # a coordinate of the result's meta assigned without the container fallback
                n_triples += 1
                res.ob(f.loc(n), '%s is copied as getattr(<child meta>, container_..., <child meta>....)' % norm(t), False)
                res.finding(f, n, 'meta field %s is assigned %s: the container_* fallback is missing, so inlined (?rule / _rule) '
                            'children report their own span instead of the span they occupy' % (t.attr, norm(v)))
                base0 = t.attr[len('container_'):] if t.attr.startswith('container_') else t.attr
                grp0 = ('c' if t.attr.startswith('container_') else '') + ('start' if base0 in START_F else 'end')
                covered[grp0].add(base0)
            continue
        n_triples += 1
        A = t.attr
        base = A[len('container_'):] if A.startswith('container_') else A
        M = v.args[0]
        B = const_str(v.args[1])
        Cn = v.args[2]
        site = f.loc(n)
        want_m = first if base in START_F else last if base in END_F else None
        ok = (want_m is not None and isinstance(M, ast.Name) and M.id == want_m and B == 'container_' + base
              and isinstance(Cn, ast.Attribute) and Cn.attr == base and isinstance(Cn.value, ast.Name) and Cn.value.id == want_m)
        res.ob(site, '%s = getattr(%s, container_%s, %s.%s)' % (norm(t), want_m, base, want_m, base), ok)
        if not ok:
            res.finding(f, n, 'meta field %s must come from the %s child\'s container_%s / %s' % (
                A, 'first' if base in START_F else 'last', base, base))
        grp = ('c' if A.startswith('container_') else '') + ('start' if base in START_F else 'end')
        covered[grp].add(base)
    res.require_instances(n_triples, 12, 'meta copy statements')
    for grp, want in (('start', START_F), ('cstart', START_F), ('end', END_F), ('cend', END_F)):
        ok = covered[grp] == want
        res.ob(f.loc(), '%s block covers %s' % (grp, sorted(want)), ok)
        if not ok:
            res.finding(f, f.node, 'the %s block copies %s, expected %s' % (grp, sorted(covered[grp]), sorted(want)),
                        construct='block:%s' % grp)
    # _pp_get_meta returns the child's own coordinates: Tree -> c.meta (non-empty), Token -> c
    g = repo.func('lark.parse_tree_builder:PropagatePositions._pp_get_meta')
    rets = [norm(n.value) for n in g.body_nodes() if isinstance(n, ast.Return) and n.value is not None]
    loopvars = [n.target.id for n in g.body_nodes() if isinstance(n, ast.For) and isinstance(n.target, ast.Name)]
    lv = loopvars[0] if loopvars else 'c'
    ok = ('%s.meta' % lv) in rets and lv in rets
    res.ob(g.loc(), '_pp_get_meta yields the first child with coordinates: Tree.meta (non-empty) or the Token itself', ok)
    if not ok:
        res.finding(g, g.node, '_pp_get_meta returns %s, expected the child\'s meta or the token itself' % rets, construct='returns')
    # the child returned as its own source of coordinates is a Token (a plain str has no line / column: a terminal callback of an
    # embedded transformer may return one)
    from ..exprs import path_conditions as _pc
    self_rets = [n for n in g.body_nodes() if isinstance(n, ast.Return) and n.value is not None and norm(n.value) == lv]
    okt = bool(self_rets)
    for r_ in self_rets:
        conds = [(norm(t), pol) for t, pol in _pc(r_)]
        okt = okt and ('isinstance(%s, Token)' % lv, True) in conds
    res.ob(g.loc(), 'a child is taken as its own coordinates only when it is a Token', okt, props=['C06', 'C16'])
    if not okt:
        res.finding(g, self_rets[0] if self_rets else g.node, '_pp_get_meta returns a child as the source of coordinates without testing that it is a '
                    'Token: a value without line / column (a str returned by a terminal callback) is read for positions', construct='returns:token-guard',
                    props=['C06', 'C16'])
    # the callable form of propagate_positions: a child the filter rejects is never the source of coordinates, one it accepts can be
    from ..exprs import satisfiable
    gs = g.self_name() or 'self'
    fcalls = [n for n in g.body_nodes() if isinstance(n, ast.Call) and norm(n.func) == '%s.node_filter' % gs and len(n.args) == 1 and norm(n.args[0]) == lv]
    if not fcalls:
        raise AnalysisError('R-META-TRIPLES: _pp_get_meta no longer calls %s.node_filter(%s)' % (gs, lv))
    A_ = ast.parse('%s.node_filter is not None' % gs, mode='eval').body
    B_ = fcalls[0]
    val_rets = [n for n in g.body_nodes() if isinstance(n, ast.Return) and n.value is not None and not (isinstance(n.value, ast.Constant) and n.value.value is None)]
    okf, whyf = bool(val_rets), 'no return'
    for r_ in val_rets:
        lits = list(_pc(r_))
        rej = satisfiable(lits + [(A_, True), (B_, False)])
        acc = satisfiable(lits + [(A_, True), (B_, True)])
        non = satisfiable(lits + [(A_, False)])
        if rej is None or acc is None:
            raise AnalysisError('R-META-TRIPLES: the conditions of `%s` in _pp_get_meta are too many to decide' % norm(r_))
        if rej or not acc or not non:
            okf = False
            whyf = '`%s` is %s' % (norm(r_), 'reachable for a child the filter rejects' if rej else
                                   ('not reachable for a child the filter accepts' if not acc else 'not reachable without a filter'))
    res.ob(g.loc(), 'with a callable propagate_positions, coordinates come from exactly the children the filter accepts', okf)
    if not okf:
        res.finding(g, fcalls[0], 'the node filter of propagate_positions is applied the wrong way round or not at all (%s): positions are taken from '
                    'the children the user excluded' % whyf, construct='returns:filter-polarity')
    # non-empty test on tree metas
    tests = [norm(n.test) for n in g.body_nodes() if isinstance(n, ast.If)]
    ok = any('meta.empty' in t and 'not' in t for t in tests)
    res.ob(g.loc(), 'empty subtrees are skipped when looking for the first/last coordinates', ok)
    if not ok:
        res.finding(g, g.node, 'empty subtrees (meta.empty) are not skipped', construct='empty-skip')
    return res
