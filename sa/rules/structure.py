"""General structural rules added after the third seeded-change round (DESIGN §3.9, §7).

R-CONFIG-FORWARD     an object that builds another object of its own class (a grammar builder loading an imported grammar)
                     hands every constructor parameter it keeps in a field of the same name on to the new object [C03].
R-OVERWRITTEN-STORE  a store into an item / attribute is not overwritten by the next statement before anything can read it
                     (an `else:` lost in front of a default assignment silently discards the conditional value) [C07 C10].
R-COPY-COVERS        a hand-written __copy__ / __deepcopy__ / copy() covers every field the constructor sets, deep copies are
                     unconditional, and ParserState.copy hands its lexer through so that the identity guard of
                     InteractiveParser.copy can recognise it [C13].
R-SPLIT-ARMS         where a function treats str and bytes in two arms of an isinstance(..., bytes) test and the arms are meant
                     to do the same thing (tabled sites), they are the same code up to the representation of constants and a
                     final decode [C15].
"""
from __future__ import annotations

import ast
import copy as _copy
from typing import Dict, List, Optional, Set, Tuple

from ..model import Repo, ClassInfo, FuncInfo, AnalysisError, norm, parent, ancestors, enclosing_stmt, const_str, core_stmts
from ..report import Ctx, RuleResult
from ..exprs import bind_call, cond_values, find_pat, has_pat, influences


# ------------------------------------------------------------------------------------------------
def run_config_forward(ctx: Ctx) -> RuleResult:
    repo, ty = ctx.repo, ctx.typer
    res = RuleResult('R-CONFIG-FORWARD', 'recursive construction forwards every configuration field to the nested object')
    n = 0
    for k in repo.classes.values():
        if not k.module.name.startswith('lark') or k.module.name.startswith('lark.tools'):
            continue
        init = k.methods.get('__init__')
        if init is None:
            continue
        sn = init.self_name()
        params = init.positional_names()
        # parameters kept as configuration: self.<p> = <p> (possibly `<p> or default`)
        kept: Set[str] = set()
        for a in init.body_nodes():
            if isinstance(a, ast.Assign) and len(a.targets) == 1 and isinstance(a.targets[0], ast.Attribute) \
                    and isinstance(a.targets[0].value, ast.Name) and a.targets[0].value.id == sn and a.targets[0].attr in params:
                if any(isinstance(x, ast.Name) and x.id == a.targets[0].attr for x in ast.walk(a.value)):
                    kept.add(a.targets[0].attr)
        if not kept:
            continue
        for m in k.swept_methods():
            if m.name in ('__init__', '__new__', 'copy', '__copy__', '__deepcopy__', '__reduce__'):
                continue
            msn = m.self_name()
            if msn is None:
                continue
            for c in m.body_nodes():
                if not (isinstance(c, ast.Call) and isinstance(c.func, ast.Name) and c.func.id == k.name):
                    continue
                n += 1
                bound, exact = bind_call(c, params)
                missing = []
                for p in sorted(kept):
                    a = bound.get(p)
                    if a is None or not any(isinstance(x, ast.Attribute) and x.attr == p and isinstance(x.value, ast.Name) and x.value.id == msn
                                            for x in ast.walk(a)):
                        missing.append(p)
                ok = not missing
                res.ob('%s %s' % (m.module.loc(c), m.qual), 'nested %s(...) receives this object\'s %s' % (k.name, sorted(kept)), ok)
                if not ok:
                    res.finding(m, c, 'the nested %s built here does not receive %s from the object that builds it: the nested object falls '
                                'back to the default, so a setting given to the outer object silently stops applying inside (e.g. '
                                'keep_all_tokens inside an imported grammar)' % (k.name, ', '.join('self.' + p for p in missing)),
                                construct='not-forwarded:%s:%s' % (k.name, ','.join(missing)))
    res.require_instances(n, 1, 'recursive construction sites')
    return res


# ------------------------------------------------------------------------------------------------
def _store_target(st: ast.AST) -> Optional[str]:
    if isinstance(st, ast.Assign) and len(st.targets) == 1 and isinstance(st.targets[0], (ast.Subscript, ast.Attribute)):
        return norm(st.targets[0])
    return None


def run_overwritten(ctx: Ctx) -> RuleResult:
    repo = ctx.repo
    res = RuleResult('R-OVERWRITTEN-STORE', 'no item / attribute store is overwritten by the next statement before it can be read')
    n = 0
    for f in repo.functions.values():
        if f.module.name.startswith('lark.tools') or isinstance(f.node, ast.Lambda):
            continue
        for node in ast.walk(f.node):
            if node is not f.node and isinstance(node, (ast.FunctionDef, ast.AsyncFunctionDef, ast.ClassDef)):
                continue
            for field in ('body', 'orelse', 'finalbody'):
                b = getattr(node, field, None)
                if not (isinstance(b, list) and b and isinstance(b[0], ast.stmt)):
                    continue
                b = core_stmts(b)
                for i in range(len(b) - 1):
                    a, c = b[i], b[i + 1]
                    t2 = _store_target(c)
                    if t2 is None:
                        continue
                    n += 1
                    first = None
                    if _store_target(a) == t2:
                        first = a
                    elif isinstance(a, ast.If) and a.body and _store_target(a.body[-1]) == t2 and (
                            not a.orelse or _store_target(a.orelse[-1]) == t2):
                        first = a.body[-1]
                    if first is None:
                        continue
                    # the second store may legitimately build on the first (x[k] = g(x[k])): then it reads it
                    reads = t2 in norm(c.value)
                    res.ob('%s %s' % (f.module.loc(c), f.qual), 'store to %s follows a store to the same place: it reads it first' % t2, reads)
                    if not reads:
                        res.finding(f, c, 'the value stored in %s just before (line %d) is overwritten here without having been read: the '
                                    'earlier, conditional value is lost (a missing `else:`?)' % (t2, first.lineno),
                                    construct='overwritten:%s' % t2)
    # the same for a local name: `if c: x = A` followed by an if/else that assigns x on every arm without reading it (an `elif` that
    # became `if`): the first, conditional value can never be seen
    def assigns_without_reading(stmts, name) -> bool:
        """the block's first mention of `name` is a plain store of it"""
        for st in stmts:
            names = [x for x in ast.walk(st) if isinstance(x, ast.Name) and x.id == name]
            if not names:
                continue
            if isinstance(st, ast.Assign) and len(st.targets) == 1 and isinstance(st.targets[0], ast.Name) and st.targets[0].id == name \
                    and not any(isinstance(x, ast.Name) and x.id == name for x in ast.walk(st.value)):
                return True
            if isinstance(st, ast.If) and st.orelse and not any(isinstance(x, ast.Name) and x.id == name for x in ast.walk(st.test)):
                return assigns_without_reading(st.body, name) and assigns_without_reading(st.orelse, name)
            return False
        return False
    n2 = 0
    for f in repo.functions.values():
        if f.module.name.startswith('lark.tools') or isinstance(f.node, ast.Lambda):
            continue
        for node in ast.walk(f.node):
            for field in ('body', 'orelse', 'finalbody'):
                b = getattr(node, field, None)
                if not (isinstance(b, list) and b and isinstance(b[0], ast.stmt)):
                    continue
                b = core_stmts(b)
                for i in range(len(b) - 1):
                    a, c = b[i], b[i + 1]
                    if not (isinstance(a, ast.If) and not a.orelse and a.body and isinstance(a.body[-1], ast.Assign) and len(a.body[-1].targets) == 1
                            and isinstance(a.body[-1].targets[0], ast.Name)):
                        continue
                    if any(isinstance(x, (ast.Return, ast.Raise, ast.Continue, ast.Break)) for x in a.body):
                        continue
                    name = a.body[-1].targets[0].id
                    n2 += 1
                    if isinstance(c, ast.If) and c.orelse and not any(isinstance(x, ast.Name) and x.id == name for x in ast.walk(c.test)) \
                            and assigns_without_reading(c.body, name) and assigns_without_reading(c.orelse, name):
                        res.ob('%s %s' % (f.module.loc(c), f.qual), 'the conditional value of `%s` can be read before it is assigned again' % name, False)
                        res.finding(f, c, 'the value given to `%s` under `%s` (line %d) is assigned again on every arm of the following if/else without '
                                    'having been read: the first case is lost (an `elif` that became `if`?)' % (name, norm(a.test)[:60], a.body[-1].lineno),
                                    construct='overwritten-local:%s' % name)
    res.notes.append('%d conditional stores to locals examined' % n2)
    res.require_instances(n, 100, 'item/attribute stores examined')
    return res


# ------------------------------------------------------------------------------------------------
COPY_METHODS = ('__copy__', '__deepcopy__', 'copy')
# fields a copy method leaves out on purpose (one symbol, one reason)
COPY_EXCEPTIONS = {
    ('lark.tree:Tree.copy', '_meta'): 'public shallow copy: documented to copy data and children only; forks use __deepcopy__',
    ('lark.parsers.lalr_interactive_parser:InteractiveParser.copy', 'result'): 'result of the last feed of an immutable parser: an output, not state',
}


def _init_fields(k: ClassInfo) -> List[str]:
    out: List[str] = []
    for c in reversed(k.mro()):
        init = c.methods.get('__init__')
        if init is None:
            continue
        sn = init.self_name()
        for a in init.body_nodes():
            tg = a.targets if isinstance(a, ast.Assign) else [a.target] if isinstance(a, (ast.AnnAssign, ast.AugAssign)) else []
            for t in tg:
                if isinstance(t, ast.Attribute) and isinstance(t.value, ast.Name) and t.value.id == sn and t.attr not in out:
                    out.append(t.attr)
    return out


def _ctor_sets(k: ClassInfo) -> Dict[str, Set[str]]:
    """constructor parameter -> fields whose value depends on it."""
    init = k.find_method('__init__')
    out: Dict[str, Set[str]] = {}
    if init is None:
        return out
    sn = init.self_name()
    for a in init.body_nodes():
        if isinstance(a, ast.Assign):
            for t in a.targets:
                if isinstance(t, ast.Attribute) and isinstance(t.value, ast.Name) and t.value.id == sn:
                    for x in ast.walk(a.value):
                        if isinstance(x, ast.Name) and x.id in init.positional_names():
                            out.setdefault(x.id, set()).add(t.attr)
    return out


def run_copy_covers(ctx: Ctx) -> RuleResult:
    repo = ctx.repo
    res = RuleResult('R-COPY-COVERS', 'hand-written copies cover every field; deep copies are unconditional; the state copy keeps its lexer '
                                     'recognisable')
    res.default_props = ['C13']
    scope = ('lark.lexer', 'lark.tree', 'lark.utils', 'lark.parsers.lalr_parser_state', 'lark.parsers.lalr_interactive_parser',
             'lark.parsers.lalr_parser')
    n = 0
    for k in repo.classes.values():
        if k.module.name not in scope:
            continue
        fields = _init_fields(k)
        slots = k.literal_attr('__slots__')
        if isinstance(slots, (list, tuple)):
            fields = [s for s in slots if isinstance(s, str) and not s.startswith('__')] or fields
        if not fields:
            continue
        for mname in COPY_METHODS:
            m = k.methods.get(mname)
            if m is None:
                continue
            sn = m.self_name()
            # the construction: type(self)(...) / cls(...) / ClassName(...)
            ctor = [c for c in m.body_nodes() if isinstance(c, ast.Call) and (
                norm(c.func) in ('type(%s)' % sn, k.name, 'self.__class__', '%s.__class__' % sn))]
            if len(ctor) != 1:
                continue
            n += 1
            c = ctor[0]
            init = k.find_method('__init__')
            bound, _ = bind_call(c, init.positional_names()) if init is not None else ({}, False)
            pset = _ctor_sets(k)
            covered: Set[str] = set()
            for p, a in bound.items():
                covered |= pset.get(p, set())
            # fields assigned on the new object afterwards:  new.<f> = ...
            st = enclosing_stmt(c)
            newvar = st.targets[0].id if isinstance(st, ast.Assign) and len(st.targets) == 1 and isinstance(st.targets[0], ast.Name) else None
            if newvar:
                for a in m.body_nodes():
                    if isinstance(a, ast.Assign):
                        for t in a.targets:
                            if isinstance(t, ast.Attribute) and isinstance(t.value, ast.Name) and t.value.id == newvar:
                                covered.add(t.attr)
            # fields the constructor derives without a parameter (constants, fresh containers) need no copying only if they never
            # change afterwards; a field that other methods assign must be carried over
            mutated: Set[str] = set()
            for c2 in k.mro():
                for m2 in c2.methods.values():
                    if m2.name in ('__init__',) + COPY_METHODS:
                        continue
                    s2 = m2.self_name()
                    for a in m2.body_nodes():
                        tg = a.targets if isinstance(a, ast.Assign) else [a.target] if isinstance(a, ast.AugAssign) else []
                        for t in tg:
                            if isinstance(t, ast.Attribute) and isinstance(t.value, ast.Name) and t.value.id == s2:
                                mutated.add(t.attr)
            missing = [f_ for f_ in fields if f_ not in covered and f_ in mutated and (m.qual, f_) not in COPY_EXCEPTIONS]
            ok = not missing
            res.ob('%s %s' % (m.loc(), m.qual), 'the copy carries over every field that changes after construction (%s)' % sorted(mutated & set(fields)), ok)
            if not ok:
                res.finding(m, m.node, '%s.%s builds the copy without %s: the copy starts with the constructor\'s default for a field the '
                            'original has since changed (positions / state of a fork are then wrong)' % (k.name, mname, ', '.join(missing)),
                            construct='copy-misses:%s' % ','.join(missing))
            # deep copies are unconditional: an argument that is a local must be a deep copy on every path
            if mname == '__deepcopy__':
                for p, a in bound.items():
                    if isinstance(a, ast.Name):
                        defs = [d for d in m.body_nodes() if isinstance(d, ast.Assign) and any(isinstance(t, ast.Name) and t.id == a.id for t in d.targets)]
                        shallow = [d for d in defs if not (isinstance(d.value, ast.Call) and norm(d.value.func) in ('deepcopy', 'copy.deepcopy'))
                                   and any(isinstance(x, ast.Attribute) and isinstance(x.value, ast.Name) and x.value.id == sn for x in ast.walk(d.value))]
                        okd = not shallow
                        res.ob('%s %s' % (m.loc(), m.qual), 'argument %s of the deep copy is a deep copy on every path' % a.id, okd)
                        if not okd:
                            res.finding(m, shallow[0], '%s.__deepcopy__ passes %s, which on some path is the original\'s own %s (not a copy): the copy '
                                        'and the original share it, and in-place updates of one show in the other' % (k.name, a.id, norm(shallow[0].value)),
                                        construct='deepcopy-conditional:%s' % a.id)
    # a copy built by calling the class's own constructor hands each parameter the field of the same name (Token(self.type, self.value, ...))
    for k in repo.classes.values():
        if not k.module.name.startswith('lark') or k.module.name.startswith('lark.tools'):
            continue
        ctor = k.methods.get('__new__') or k.methods.get('__init__')
        if ctor is None:
            continue
        cnames = ctor.positional_names()
        if k.methods.get('__new__') is ctor and cnames and cnames[0] == 'cls':
            cnames = cnames[1:]
        if not cnames:
            # __new__(cls, *args, **kwargs) that hands over to a constructor helper: the helper whose parameters become fields of the same name
            for h_ in k.methods.values():
                hp = h_.positional_names()
                stored = {t.attr for a in h_.body_nodes() if isinstance(a, ast.Assign) for t in a.targets if isinstance(t, ast.Attribute) and norm(a.value) == t.attr}
                if len(hp) >= 2 and len(stored) >= 2 and stored <= set(hp):
                    ctor, cnames = h_, hp
                    break
        if not cnames:
            continue
        fields_k = {t.attr for a in ctor.body_nodes() if isinstance(a, ast.Assign) for t in a.targets if isinstance(t, ast.Attribute)} | set(k.literal_attr('__slots__') or [])
        for mname in COPY_METHODS:
            m = k.methods.get(mname)
            if m is None:
                continue
            sn = m.self_name() or 'self'
            for c in m.body_nodes():
                if not (isinstance(c, ast.Call) and (norm(c.func) == k.name or norm(c.func) in ('type(%s)' % sn, '%s.__class__' % sn)) and c.args):
                    continue
                bound, _ex = bind_call(c, cnames)
                bad = []
                for p_, a_ in bound.items():
                    roots = [x for x in ast.walk(a_) if isinstance(x, ast.Name) and x.id == sn]
                    if not roots:
                        continue
                    attrs_ = {x.attr for x in ast.walk(a_) if isinstance(x, ast.Attribute) and isinstance(x.value, ast.Name) and x.value.id == sn}
                    bare = any(not isinstance(parent(x), ast.Attribute) for x in roots)
                    if bare or (attrs_ and not (attrs_ & {p_, '_' + p_}) and (p_ in fields_k or '_' + p_ in fields_k)):
                        bad.append((p_, norm(a_)))
                ok = not bad
                res.ob('%s %s' % (m.loc(c), m.qual), 'the copy hands every constructor parameter the field of its name', ok)
                if not ok:
                    res.finding(m, c, 'the copy passes %s for parameter `%s` of %s: the copied object carries the wrong value in that field (a token whose value is '
                                'the token itself, printed as its repr)' % (bad[0][1], bad[0][0], k.name), construct='copy-arg:%s.%s' % (k.name, bad[0][0]),
                                props=['C13', 'C15'])
    res.require_instances(n, 3, 'hand-written copy methods')
    # ParserState.copy hands the lexer through: InteractiveParser.copy replaces the copied state's lexer only when it *is* the
    # interactive parser's thread, so a state copy that copies the lexer itself leaves the fork with two threads
    ipc = repo.func('lark.parsers.lalr_interactive_parser:InteractiveParser.copy')
    guarded = has_pat(ipc.body_nodes(), 'if $ps.lexer is $me.lexer_thread:\n    $ps.lexer = $lt')
    psc = repo.func('lark.parsers.lalr_parser_state:ParserState.copy')
    ssn = psc.self_name()
    ctor = [c for c in psc.body_nodes() if isinstance(c, ast.Call) and norm(c.func) == 'type(%s)' % ssn]
    ok = True
    if guarded and ctor:
        init = repo.cls('lark.parsers.lalr_parser_state:ParserState').find_method('__init__')
        bound, _ = bind_call(ctor[0], init.positional_names())
        a = bound.get('lexer')
        ok = a is not None and norm(a) == '%s.lexer' % ssn
    res.ob('%s %s' % (psc.loc(), psc.qual), 'the state copy keeps the original lexer object (the interactive parser\'s copy replaces it, '
                                           'recognising it by identity)', ok)
    if not ok:
        res.finding(psc, ctor[0], 'ParserState.copy no longer passes its own lexer object on: InteractiveParser.copy recognises the lexer thread by '
                    'identity before replacing it with the forked thread, so the fork ends up with two different lexer threads (its state lexes '
                    'from one, the interactive parser advances the other)', construct='state-copy-lexer')
    return res


# ------------------------------------------------------------------------------------------------
SPLIT_SITES = {
    'lark.exceptions:UnexpectedInput.get_context': 'builds the same caret display for str and bytes',
}


class _Unrepr(ast.NodeTransformer):
    """bytes constants -> str constants; a trailing .decode(...) is dropped."""
    def visit_Constant(self, n):
        if isinstance(n.value, bytes):
            return ast.copy_location(ast.Constant(value=n.value.decode('latin-1')), n)
        return n

    def visit_Call(self, n):
        self.generic_visit(n)
        if isinstance(n.func, ast.Attribute) and n.func.attr == 'decode':
            return n.func.value
        return n


def run_split_arms(ctx: Ctx) -> RuleResult:
    repo = ctx.repo
    res = RuleResult('R-SPLIT-ARMS', 'the str arm and the bytes arm of a representation split do the same thing')
    n = 0
    for fq, why in SPLIT_SITES.items():
        f = repo.func(fq)
        for st in f.body_nodes():
            if not (isinstance(st, ast.If) and st.orelse and any(
                    isinstance(c, ast.Call) and norm(c.func) == 'isinstance' and len(c.args) == 2 and 'bytes' in norm(c.args[1]) or
                    (isinstance(c, ast.Call) and norm(c.func) == 'isinstance' and len(c.args) == 2 and norm(c.args[1]) == 'str')
                    for c in ast.walk(st.test))):
                continue
            n += 1
            a = [norm(_Unrepr().visit(_strip(s))) for s in core_stmts(st.body)]
            b = [norm(_Unrepr().visit(_strip(s))) for s in core_stmts(st.orelse)]
            ok = a == b
            res.ob('%s %s' % (f.module.loc(st), f.qual), 'both arms are the same code up to the representation of constants (%s)' % why, ok)
            if not ok:
                diff = [(x, y) for x, y in zip(a, b) if x != y][:1] or [(a[-1:], b[-1:])]
                res.finding(f, st, 'the str arm and the bytes arm differ beyond the representation of their constants: %s vs %s -- the same '
                            'input gives a different result as str and as bytes' % diff[0], construct='split-arms')
    # everywhere: a field that both arms of an isinstance(x, bytes) split assign from the input holds text in both -- the bytes arm
    # decodes what it stores (the field is compared / printed as str by users and by the other representation)
    n2 = 0
    for f in repo.functions.values():
        if not f.module.name.startswith('lark') or f.module.name.startswith('lark.tools'):
            continue
        for st in f.body_nodes():
            if not (isinstance(st, ast.If) and st.orelse and isinstance(st.test, ast.Call) and norm(st.test.func) == 'isinstance'
                    and len(st.test.args) == 2 and norm(st.test.args[1]) == 'bytes'):
                continue
            src = norm(st.test.args[0])

            def stores(arm):
                out = {}
                for s_ in arm:
                    if isinstance(s_, ast.Assign) and len(s_.targets) == 1 and isinstance(s_.targets[0], ast.Attribute):
                        if any(norm(x) == src for x in ast.walk(s_.value)):
                            out[norm(s_.targets[0])] = s_
                return out
            sb, ss_ = stores(st.body), stores(st.orelse)
            for fld in sorted(set(sb) & set(ss_)):
                n2 += 1
                enc_other = any(isinstance(c, ast.Call) and isinstance(c.func, ast.Attribute) and c.func.attr == 'encode' for c in ast.walk(ss_[fld].value))
                dec = any(isinstance(c, ast.Call) and isinstance(c.func, ast.Attribute) and c.func.attr == 'decode' for c in ast.walk(sb[fld].value))
                ok = dec or enc_other
                res.ob('%s %s' % (f.module.loc(st), f.qual), '%s holds text for both representations (the bytes arm decodes)' % fld, ok)
                if not ok:
                    res.finding(f, sb[fld], 'for bytes input %s is stored undecoded (%s) while the str arm stores text: the same error carries a '
                                'bytes object for one representation and a str for the other' % (fld, norm(sb[fld].value)[:80]),
                                construct='split-arms:undecoded:%s' % fld)
    res.require_instances(n2, 1, 'fields assigned from the input in both arms of a bytes split')
    res.require_instances(n, 1, 'representation splits with twin arms')
    return res


def _strip(s: ast.AST) -> ast.AST:
    """A private copy of a statement (re-parsed from its normalised text: the model's nodes carry parent links and are shared)."""
    return ast.parse(norm(s)).body[0]


# ------------------------------------------------------------------------------------------------
# R-PARAM-FORWARD: a function that delegates to a callee with a parameter of the same name as one of its own uses that parameter.
PARAM_FORWARD_EXCEPTIONS = {
    ('CustomLexerWrapper', 'lex', 'parser_state'): 'adapter around a user lexer with the old interface, which takes the text only',
}

# which properties a dropped argument bears on, by the module it is dropped in
_FORWARD_PROPS = [
    ('lark.lark', ['C13', 'C08', 'C10']), ('lark.parser_frontends', ['C13', 'C08', 'C10']), ('lark.parsers.lalr', ['C13', 'C08']),
    ('lark.lexer', ['C07', 'C14']), ('lark.load_grammar', ['C17', 'C03']), ('lark.parsers.earley', ['C04', 'C05']),
    ('lark.parsers.xearley', ['C04', 'C05']), ('lark.parse_tree_builder', ['C03', 'C06']), ('lark.visitors', ['C16']),
    ('lark.indenter', ['C18', 'C08']), ('lark.exceptions', ['C08']), ('lark.tools', ['C11']), ('lark.utils', ['C10']), ('lark.common', ['C10']), ('lark.tree', ['C16']),
]


def _is_stub(f: FuncInfo) -> bool:
    body = core_stmts(f.node.body)
    return all(isinstance(s, (ast.Pass, ast.Raise)) or (isinstance(s, ast.Expr) and isinstance(s.value, ast.Constant)) or
               (isinstance(s, ast.Return) and (s.value is None or isinstance(s.value, ast.Constant))) for s in body)


def run_param_forward(ctx: Ctx) -> RuleResult:
    repo = ctx.repo
    res = RuleResult('R-PARAM-FORWARD', 'a function that hands its work to a callee with a parameter of the same name passes that parameter on '
                                        '(or uses it): an argument of the public entry point is not silently dropped')
    byname: Dict[str, List[FuncInfo]] = {}
    for f in repo.functions.values():
        byname.setdefault(f.name, []).append(f)

    def all_params(h: FuncInfo) -> List[str]:
        a = h.node.args
        return [q.arg for q in list(a.posonlyargs) + list(a.args) + list(a.kwonlyargs)]
    n = 0
    for f in repo.functions.values():
        if not f.module.name.startswith('lark') or isinstance(f.node, ast.Lambda) or _is_stub(f):
            continue
        params = all_params(f)
        if f.cls is not None and params and not f.is_staticmethod:
            params = params[1:]
        params = [p for p in params if not p.startswith('_')]
        if not params:
            continue
        reads = {x.id for x in ast.walk(f.node) if isinstance(x, ast.Name) and isinstance(x.ctx, (ast.Load, ast.Del))}
        callees: Dict[str, ast.Call] = {}
        for c in ast.walk(f.node):
            if isinstance(c, ast.Call):
                g = c.func.attr if isinstance(c.func, ast.Attribute) else (c.func.id if isinstance(c.func, ast.Name) else None)
                if g is not None and g not in callees:
                    callees[g] = c
        for p in params:
            takers = sorted({g for g in callees for h in byname.get(g, []) if h is not f and p in all_params(h)})
            if not takers:
                continue
            n += 1
            if p in reads:
                continue
            k = f.cls.name.rstrip('0123456789') if f.cls is not None else ''
            if (k, f.name, p) in PARAM_FORWARD_EXCEPTIONS:
                res.ob('%s %s' % (f.loc(), f.qual), 'parameter `%s` unused: %s' % (p, PARAM_FORWARD_EXCEPTIONS[(k, f.name, p)]), True)
                continue
            props = next((pr for pre, pr in _FORWARD_PROPS if f.module.name.startswith(pre)), None)
            res.ob('%s %s' % (f.loc(), f.qual), 'parameter `%s` is used or passed on' % p, False)
            res.finding(f, callees[takers[0]], 'parameter `%s` of %s is never used, although the function delegates to %s(), which takes a '
                        'parameter of that name: what the caller asked for (%s=...) silently does not apply' % (p, f.qual, takers[0], p),
                        construct='dropped-parameter:%s->%s' % (p, takers[0]), props=props)
    res.notes.append('%d (function, parameter, same-named callee parameter) triples examined' % n)
    res.require_instances(n, 100, 'forwardable parameters')
    return res


# ------------------------------------------------------------------------------------------------
# R-CLASS-MUTABLE: a list / dict / set bound in a class body is one object shared by every instance (and by every later parser):
# it is never changed in place -- through `self.X += [...]`, a mutator call or an item store.
_MUTATORS = ('append', 'extend', 'insert', 'update', 'add', 'pop', 'remove', 'clear', 'setdefault', 'sort', 'discard', 'popitem', 'reverse')


def run_class_mutable(ctx: Ctx) -> RuleResult:
    repo = ctx.repo
    res = RuleResult('R-CLASS-MUTABLE', 'containers bound in a class body are never changed in place (they are shared by all instances)')
    n = 0
    for k in repo.classes.values():
        if not k.module.name.startswith('lark'):
            continue
        attrs: Dict[str, ast.AST] = {}
        for st in k.node.body:
            tgt, val = None, None
            if isinstance(st, ast.Assign) and len(st.targets) == 1 and isinstance(st.targets[0], ast.Name):
                tgt, val = st.targets[0].id, st.value
            elif isinstance(st, ast.AnnAssign) and isinstance(st.target, ast.Name) and st.value is not None:
                tgt, val = st.target.id, st.value
            if tgt is None:
                continue
            if isinstance(val, (ast.List, ast.Dict, ast.Set, ast.ListComp, ast.DictComp, ast.SetComp)) or \
                    (isinstance(val, ast.Call) and norm(val.func) in ('list', 'dict', 'set', 'defaultdict', 'OrderedDict', 'deque')):
                attrs[tgt] = st
        if not attrs:
            continue
        bad: Dict[str, List[Tuple[FuncInfo, ast.AST, str]]] = {a: [] for a in attrs}
        family = [k] + k.all_subclasses() + [b for b in k.mro() if b is not k]      # a base-class method run on an instance of k sees k's attribute
        for kk in family:
            for m in kk.methods.values():
                sn = m.self_name()
                recv_ok = {sn, 'cls', kk.name, k.name} - {None}
                # an instance attribute of the same name assigned earlier in the method hides the class one
                rebound = {t.attr for a in m.body_nodes() if isinstance(a, ast.Assign) for t in a.targets
                           if isinstance(t, ast.Attribute) and isinstance(t.value, ast.Name) and t.value.id == sn}
                for x in m.body_nodes():
                    if isinstance(x, ast.AugAssign) and isinstance(x.target, ast.Attribute) and x.target.attr in attrs \
                            and isinstance(x.target.value, ast.Name) and x.target.value.id in recv_ok:
                        bad[x.target.attr].append((m, x, 'augmented assignment changes the class\'s own object in place before rebinding'))
                    if isinstance(x, ast.Call) and isinstance(x.func, ast.Attribute) and x.func.attr in _MUTATORS \
                            and isinstance(x.func.value, ast.Attribute) and x.func.value.attr in attrs and isinstance(x.func.value.value, ast.Name) \
                            and x.func.value.value.id in recv_ok and x.func.value.attr not in rebound:
                        bad[x.func.value.attr].append((m, x, '.%s() on the class\'s own object' % x.func.attr))
                    if isinstance(x, (ast.Assign, ast.Delete)):
                        for t in x.targets:
                            if isinstance(t, ast.Subscript) and isinstance(t.value, ast.Attribute) and t.value.attr in attrs \
                                    and isinstance(t.value.value, ast.Name) and t.value.value.id in recv_ok and t.value.attr not in rebound:
                                bad[t.value.attr].append((m, x, 'item store into the class\'s own object'))
        for a, st in sorted(attrs.items()):
            n += 1
            ok = not bad[a]
            res.ob('%s %s.%s' % (k.module.loc(st), k.qual, a), 'class-level container is never changed in place', ok)
            for m, x, how in bad[a]:
                props = None
                res.finding(m, x, '%s.%s is bound in the class body, so it is one object for all instances; `%s`: %s -- the change is seen by '
                            'every other instance and every later one' % (k.name, a, norm(x)[:80], how),
                            construct='class-container:%s.%s' % (k.name, a), props=props)
    res.require_instances(n, 3, 'class-level containers')
    return res


# ------------------------------------------------------------------------------------------------
# R-GUARD-SAME-SET: `if x not in C[i]: C[j].add(x)` -- the set tested for "already there" is the set added to.
def run_guard_same_set(ctx: Ctx) -> RuleResult:
    repo = ctx.repo
    res = RuleResult('R-GUARD-SAME-SET', 'a "not already in" test guards insertion into the same member of an indexed family of sets')
    n = 0
    n_fam = 0
    for f in repo.functions.values():
        if not f.module.name.startswith('lark') or f.module.name.startswith('lark.tools'):
            continue
        # plain names for one member of a family (column = columns[i]), every definition the same
        defs_: Dict[str, Set[str]] = {}
        for a_ in f.body_nodes():
            if isinstance(a_, ast.Assign) and len(a_.targets) == 1 and isinstance(a_.targets[0], ast.Name):
                defs_.setdefault(a_.targets[0].id, set()).add(norm(a_.value) if isinstance(a_.value, ast.Subscript) else '<other>')
            elif isinstance(a_, (ast.AugAssign, ast.For, ast.comprehension)):
                for y in ast.walk(a_.target):
                    if isinstance(y, ast.Name):
                        defs_.setdefault(y.id, set()).add('<other>')
        member = {k: ast.parse(next(iter(v)), mode='eval').body for k, v in defs_.items() if len(v) == 1 and '<other>' not in v}

        def deref(e: ast.AST) -> ast.AST:
            return member[e.id] if isinstance(e, ast.Name) and e.id in member else e
        for st in f.body_nodes():
            if not isinstance(st, ast.If):
                continue
            for c in ast.walk(st.test):
                if not (isinstance(c, ast.Compare) and len(c.ops) == 1 and isinstance(c.ops[0], ast.NotIn)):
                    continue
                x, A = norm(c.left), deref(c.comparators[0])
                adds = [call for s_ in st.body for call in ast.walk(s_)
                        if isinstance(call, ast.Call) and isinstance(call.func, ast.Attribute) and call.func.attr in ('add', 'append')
                        and call.args and norm(call.args[0]) == x]
                if not adds:
                    continue
                n += 1
                if not isinstance(A, ast.Subscript):
                    continue
                fam = [a_ for a_ in adds if isinstance(deref(a_.func.value), ast.Subscript) and norm(deref(a_.func.value).value) == norm(A.value)]
                if not fam:
                    continue
                ok = any(norm(deref(a_.func.value)) == norm(A) for a_ in fam)
                n_fam += 1
                res.ob('%s %s' % (f.module.loc(st), f.qual), '`%s not in %s` guards insertion into that same set' % (x, norm(A)), ok)
                if not ok:
                    res.finding(f, st, '`%s` is tested for membership in %s but inserted into %s: an element already present in the set added to is '
                                'inserted again, or one that is only present elsewhere is dropped as a duplicate (lost Earley items = lost derivations)'
                                % (x, norm(A), norm(deref(fam[0].func.value))), construct='guard-other-set:%s' % norm(A.value))
    res.require_instances(n_fam, 2, 'guarded insertions into a member of an indexed family')
    return res


# ------------------------------------------------------------------------------------------------
# R-FLAG-DEFAULT: a keyword a caller passes only on one arm (`extra['k'] = V` under a condition, then `f(..., **extra)`) must differ
# from the default the callee gives that parameter -- otherwise the other arm behaves like this one.
def run_flag_default(ctx: Ctx) -> RuleResult:
    repo = ctx.repo
    res = RuleResult('R-FLAG-DEFAULT', 'a keyword passed only under a condition differs from the callee\'s default for it')
    byname: Dict[str, List[FuncInfo]] = {}
    for f in repo.functions.values():
        byname.setdefault(f.name, []).append(f)
    n = 0
    for f in repo.functions.values():
        if not f.module.name.startswith('lark') or f.module.name.startswith('lark.tools'):
            continue
        # dict locals splatted into a call
        for call in f.body_nodes():
            if not isinstance(call, ast.Call):
                continue
            for kw in call.keywords:
                if kw.arg is not None or not isinstance(kw.value, ast.Name):
                    continue
                d = kw.value.id
                init = [a for a in f.body_nodes() if isinstance(a, ast.Assign) and len(a.targets) == 1 and norm(a.targets[0]) == d
                        and isinstance(a.value, ast.Dict) and not a.value.keys]
                if len(init) != 1:
                    continue
                stores = [a for a in f.body_nodes() if isinstance(a, ast.Assign) and len(a.targets) == 1 and isinstance(a.targets[0], ast.Subscript)
                          and norm(a.targets[0].value) == d and const_str(a.targets[0].slice) is not None and isinstance(a.value, ast.Constant)]
                for st in stores:
                    if not any(isinstance(a_, ast.If) for a_ in ancestors(st)):
                        continue
                    key, val = const_str(st.targets[0].slice), st.value.value
                    # candidate callees: functions / constructors in the package taking a parameter of that name with a constant default
                    defaults = []
                    for g in repo.functions.values():
                        a = g.node.args
                        pos = list(a.posonlyargs) + list(a.args)
                        for p_, dflt in list(zip(pos[len(pos) - len(a.defaults):], a.defaults)) + [(p_, d_) for p_, d_ in zip(a.kwonlyargs, a.kw_defaults) if d_ is not None]:
                            if p_.arg == key and isinstance(dflt, ast.Constant):
                                defaults.append((g, dflt.value))
                    if not defaults:
                        continue
                    n += 1
                    bad = [(g, v) for g, v in defaults if v == val and type(v) is type(val)]
                    ok = not bad
                    res.ob('%s %s' % (f.loc(st), f.qual), '%s[%r] = %r is set only under a condition; the callee default differs (%s)'
                           % (d, key, val, sorted({repr(v) for _g, v in defaults})), ok)
                    if not ok:
                        g = bad[0][0]
                        res.finding(g, g.node, 'parameter `%s` of %s defaults to %r, the very value %s passes only under a condition (%s): the '
                                    'configurations that do not pass it now behave like the one that does' % (key, g.qual, val, f.qual, norm(st)),
                                    construct='flag-default:%s' % key)
    res.require_instances(n, 1, 'conditionally passed keywords')
    return res


# ------------------------------------------------------------------------------------------------
# R-FORMAT-ARITY: a '%'-format with a literal template gets as many values as it has holes (else the raise / log site itself fails
# with TypeError, which is not the exception the caller was promised).
_SPEC = __import__('re').compile(r'%(?:\(([^)]*)\))?[#0\- +]*(\*|\d+)?(?:\.(\*|\d+))?[hlL]?([diouxXeEfFgGcrsa%])')


def run_format_arity(ctx: Ctx) -> RuleResult:
    repo = ctx.repo
    res = RuleResult('R-FORMAT-ARITY', 'a %-format with a literal template receives as many values as it has holes')
    n = 0
    for f in repo.functions.values():
        if not f.module.name.startswith('lark') or isinstance(f.node, ast.Lambda):
            continue
        defs: Dict[str, List[ast.AST]] = {}
        for a in f.body_nodes():
            if isinstance(a, ast.Assign) and len(a.targets) == 1 and isinstance(a.targets[0], ast.Name):
                defs.setdefault(a.targets[0].id, []).append(a.value)
            elif isinstance(a, (ast.For, ast.comprehension, ast.AugAssign)):
                for x in ast.walk(a.target):
                    if isinstance(x, ast.Name):
                        defs.setdefault(x.id, []).append(None)

        def scalar(e: ast.AST) -> bool:
            """certainly not a tuple"""
            if isinstance(e, ast.Constant):
                return not isinstance(e.value, tuple)
            if isinstance(e, ast.BinOp) and isinstance(e.op, (ast.Add, ast.Sub, ast.Mult, ast.FloorDiv, ast.Mod)) and not isinstance(e.op, ast.Mod):
                return scalar(e.left) or scalar(e.right) or (isinstance(e.left, ast.Call) and isinstance(e.right, ast.BinOp))
            if isinstance(e, ast.Call) and norm(e.func) in ('len', 'int', 'str', 'repr', 'float', 'bool', 'ord', 'chr') or \
                    (isinstance(e, ast.Call) and isinstance(e.func, ast.Attribute) and e.func.attr in ('count', 'index', 'find', 'rfind', 'join', 'format', 'upper', 'lower', 'strip')):
                return True
            if isinstance(e, ast.BinOp) and isinstance(e.op, (ast.Add, ast.Sub, ast.Mult)):
                return any(isinstance(x, ast.Call) and isinstance(x.func, ast.Attribute) and x.func.attr in ('count', 'index', 'find') or
                           (isinstance(x, ast.Call) and norm(x.func) == 'len') for x in ast.walk(e))
            if isinstance(e, (ast.JoinedStr, ast.Compare, ast.BoolOp)) and not isinstance(e, ast.BoolOp):
                return True
            if isinstance(e, ast.Name) and e.id in defs and len(defs[e.id]) >= 1 and all(d is not None and scalar(d) for d in defs[e.id]):
                return True
            return False
        for b in f.body_nodes():
            if not (isinstance(b, ast.BinOp) and isinstance(b.op, ast.Mod) and isinstance(b.left, ast.Constant) and isinstance(b.left.value, str)):
                continue
            specs = _SPEC.findall(b.left.value)
            if any(s_[0] for s_ in specs) or any(s_[1] == '*' or s_[2] == '*' for s_ in specs):
                continue
            holes = sum(1 for s_ in specs if s_[3] != '%')
            r = b.right
            if isinstance(r, ast.Tuple):
                if any(isinstance(e, ast.Starred) for e in r.elts):
                    continue
                k = len(r.elts)
            elif holes >= 2 and scalar(r):
                k = 1
            elif holes == 0 and not isinstance(r, (ast.Dict,)):
                k = 1 if scalar(r) else None
                if k is None:
                    continue
            else:
                continue
            n += 1
            ok = k == holes
            if not ok:
                props = next((pr for pre, pr in _FORWARD_PROPS if f.module.name.startswith(pre)), None)
                if any(isinstance(a_, ast.Raise) for a_ in ancestors(b)) or True:
                    res.ob('%s %s' % (f.module.loc(b), f.qual), 'format %r gets %d value(s) for %d hole(s)' % (b.left.value[:40], k, holes), False)
                    res.finding(f, b, 'the template %r has %d hole(s) but is given %d value(s): evaluating it raises TypeError -- where it builds the message '
                                'of an exception, the caller gets TypeError instead of the promised exception' % (b.left.value[:60], holes, k),
                                construct='format-arity:%s' % b.left.value[:30], props=props)
    res.notes.append('%d literal %%-formats with a countable right-hand side examined' % n)
    res.require_instances(n, 25, 'literal %-formats')
    return res
