"""Apply a unified diff (git format) to file texts in memory: the seeded changes and the behaviour-preserving edits of
/verif/seeded and /verif/neutral become overlays of the tree under analysis, no worktree needed.
A hunk is placed by its context: first at the stated line, else at the nearest position where its old lines match
(the tree may have moved on since the patch was filed).  A patch with a hunk that fits nowhere does not apply (None)."""
from __future__ import annotations

import re
from typing import Dict, List, Optional, Tuple

Hunk = Tuple[int, List[str], List[str]]     # (old start line (1-based), old lines, new lines)

_HDR = re.compile(r'^@@ -(\d+)(?:,(\d+))? \+(\d+)(?:,(\d+))? @@')


def parse(diff_text: str) -> Dict[str, List[Hunk]]:
    files: Dict[str, List[Hunk]] = {}
    cur: Optional[str] = None
    old: List[str] = []
    new: List[str] = []
    start = 0
    in_hunk = False

    def flush():
        nonlocal old, new, in_hunk
        if cur is not None and in_hunk:
            files.setdefault(cur, []).append((start, old, new))
        old, new, in_hunk = [], [], False

    for line in diff_text.splitlines():
        if line.startswith('diff --git'):
            flush()
            cur = None
        elif line.startswith('+++ '):
            flush()
            path = line[4:].strip()
            cur = path[2:] if path.startswith('b/') else path
        elif line.startswith('--- ') and not in_hunk:
            continue
        else:
            m = _HDR.match(line)
            if m:
                flush()
                start = int(m.group(1))
                in_hunk = True
            elif in_hunk:
                if line.startswith('+'):
                    new.append(line[1:])
                elif line.startswith('-'):
                    old.append(line[1:])
                elif line.startswith(' ') or line == '':
                    old.append(line[1:])
                    new.append(line[1:])
                elif line.startswith('\\'):
                    continue
    flush()
    return files


def _find(lines: List[str], old: List[str], at: int) -> Optional[int]:
    if not old:
        return max(0, min(at, len(lines)))
    n = len(old)

    def fits(i: int) -> bool:
        return 0 <= i and i + n <= len(lines) and all(lines[i + k].rstrip() == old[k].rstrip() for k in range(n))
    if fits(at):
        return at
    for d in range(1, len(lines) + 1):
        for i in (at - d, at + d):
            if fits(i):
                return i
    return None


def apply_to(src: str, hunks: List[Hunk]) -> Optional[str]:
    lines = src.split('\n')
    shift = 0
    for start, old, new in hunks:
        # trailing context may run past a file without final newline: tolerate by trimming empty context at the end
        pos = _find(lines, old, start - 1 + shift)
        if pos is None:
            # retry with leading/trailing context reduced to one line
            k = 0
            while k < len(old) and k < len(new) and old[k] == new[k]:
                k += 1
            t = 0
            while t < len(old) - k and t < len(new) - k and old[len(old) - 1 - t] == new[len(new) - 1 - t]:
                t += 1
            lead = max(0, k - 1)
            trail = max(0, t - 1)
            old2, new2 = old[lead:len(old) - trail], new[lead:len(new) - trail]
            pos = _find(lines, old2, start - 1 + shift + lead)
            if pos is None:
                return None
            old, new = old2, new2
        lines[pos:pos + len(old)] = new
        shift += len(new) - len(old)
    return '\n'.join(lines)


def overlay_from_patch(root, diff_text: str) -> Optional[Dict[str, str]]:
    out: Dict[str, str] = {}
    for rel, hunks in parse(diff_text).items():
        p = root / rel
        if not p.exists():
            return None
        new = apply_to(p.read_text(encoding='utf8'), hunks)
        if new is None:
            return None
        out[rel] = new
    return out or None
