"""R-SCAN-PROGRESS [C14]: ordering, non-overlap, termination and full-text coordinates of Lark.scan().

Decides the structural part only: the search position moves strictly right on every iteration (to the
end of the match, or one past a failed candidate), the yielded range comes from the matched tokens,
the replay parser is fresh per match and fed exactly the accepted prefix, the exploratory parse runs
without callbacks, candidates are searched among non-ignored terminals, and the window handed to the
exploratory lexer carries the line state of the full text.
"""
from __future__ import annotations

import ast
from typing import Dict, List, Optional, Set, Tuple

from ..model import Repo, FuncInfo, AnalysisError, norm, parent, ancestors, enclosing_stmt, const_str
from ..report import Ctx, RuleResult
from ..exprs import has_pat, find_pat
from ..cfg import cfg_of
from ..exprs import linear, lin_str, bind_call

SCAN = 'lark.parser_frontends:ParsingFrontend._scan'


def _assigns(f: FuncInfo, name: str) -> List[ast.Assign]:
    return [n for n in f.body_nodes() if isinstance(n, ast.Assign)
            and any(isinstance(t, ast.Name) and t.id == name for t in n.targets)]


def run(ctx: Ctx) -> RuleResult:
    repo = ctx.repo
    res = RuleResult('R-SCAN-PROGRESS', 'scan(): position strictly increases; range from matched tokens; fresh replay parser fed the '
                                        'accepted prefix; exploratory parse without callbacks; search over non-ignored terminals; '
                                        'full-text line state')
    f = repo.func(SCAN)
    site = '%s %s' % (f.loc(), f.qual)
    g = cfg_of(f.node)
    text_param = f.positional_names()[0]

    def bad(node, msg, construct):
        res.finding(f, node, msg, construct=construct)

    loops = [n for n in f.node.body if isinstance(n, ast.While)]
    if len(loops) != 1:
        res.ob(site, 'one search loop', False)
        bad(f.node, 'expected one top-level search loop in _scan, found %d' % len(loops), 'loop')
        return res
    loop = loops[0]
    # ---- the candidate search ------------------------------------------------------------------
    searches = [n for n in f.body_nodes() if isinstance(n, ast.Call) and isinstance(n.func, ast.Attribute) and n.func.attr == 'search_start']
    ok = len(searches) == 1 and isinstance(enclosing_stmt(searches[0]), ast.Assign)
    res.ob(site, 'one search_start call per iteration, result kept in a local', ok)
    if not ok:
        bad(loop, 'cannot find the single search_start(...) call of the loop', 'search')
        return res
    search = searches[0]
    ms_var = enclosing_stmt(search).targets[0].id
    pos_args = [a for a in search.args if isinstance(a, ast.Name)]
    pos_var = norm(search.args[2]) if len(search.args) >= 3 else None
    ok = pos_var is not None and isinstance(search.args[2], ast.Name) and norm(search.args[0]) == text_param
    res.ob(f.loc(search), 'search_start(<whole window>, start_state, <pos>)', ok)
    if not ok:
        bad(enclosing_stmt(search), 'search_start is not called with the scanned window and the running position', 'search-args')
        return res
    # the candidate start is the search result for the whole round, and the loop ends only when the search finds nothing
    other_ms = [a for a in _assigns(f, ms_var) if a is not enclosing_stmt(search)]
    ok = not other_ms
    res.ob(site, 'the candidate start `%s` is assigned only by the search' % ms_var, ok)
    if not ok:
        bad(other_ms[0], 'the candidate start `%s` is changed after the search (%s): the next search no longer resumes one character after the failed start, and '
            'matches in between are skipped' % (ms_var, norm(other_ms[0])[:80]), 'match-start-reassigned')
    from ..exprs import path_conditions as _pcs2
    exits_ = [x for x in ast.walk(loop) if isinstance(x, (ast.Return, ast.Break))]
    bad_exits = [x for x in exits_ if not any(norm(t) == '%s is None' % ms_var and pol for t, pol in _pcs2(x))]
    ok = not bad_exits
    res.ob(site, 'the search loop ends only when search_start finds no further candidate', ok)
    if not ok:
        bad(bad_exits[0], 'the scan loop can end although a later candidate start may exist (exit under %s): matches after a failed candidate are not reported'
            % [('' if p_ else 'not ') + norm(t) for t, p_ in _pcs2(bad_exits[0])][-2:], 'loop-exit')
    # initial position = window start
    init = [a for a in _assigns(f, pos_var) if parent(a) is f.node]
    ok = len(init) == 1 and norm(init[0].value) == '%s.start' % text_param
    res.ob(site, 'the search starts at the window start', ok)
    if not ok:
        bad(init[0] if init else f.node, 'the running position is not initialised with %s.start' % text_param, 'pos-init')
    # None -> return
    ok = any(isinstance(n, ast.If) and norm(n.test) == '%s is None' % ms_var and any(isinstance(s, ast.Return) for s in n.body)
             for n in loop.body)
    res.ob(site, 'the loop ends when no candidate start is found', ok)
    if not ok:
        bad(loop, 'no `if %s is None: return` after the search' % ms_var, 'no-candidate')
    # ---- progress -----------------------------------------------------------------------------------
    in_loop = [a for a in _assigns(f, pos_var) if any(x is loop for x in ancestors(a))]
    matched_var = None
    kinds = []
    for a in in_loop:
        v = a.value
        lf = linear(v)
        if lf == {ms_var: 1, '': 1}:
            kinds.append(('skip', a))
        elif isinstance(v, ast.Attribute) and v.attr == 'end_pos' and isinstance(v.value, ast.Subscript) \
                and norm(v.value.slice) == '-1' and isinstance(v.value.value, ast.Name):
            matched_var = v.value.value.id
            kinds.append(('match', a))
        else:
            kinds.append(('other', a))
    ok = [k for k, _ in kinds].count('skip') == 1 and [k for k, _ in kinds].count('match') == 1 and len(kinds) == 2
    res.ob(site, 'position updates: one `pos = <last matched token>.end_pos`, one `pos = candidate + 1`, nothing else', ok)
    if not ok:
        for k, a in kinds:
            if k == 'other':
                bad(a, 'the search position is set to %s: neither the end of the match nor one past the failed candidate '
                       '(overlap, miss or non-termination)' % norm(a.value), 'pos=' + norm(a.value))
        if all(k != 'other' for k, _ in kinds):
            bad(loop, 'expected exactly one position update per outcome (match / no match), found %s' % [k for k, _ in kinds], 'pos-updates')
        return res
    head = g.node_of(loop)
    body_in = [s for s in g.succ[head] if g.label.get((head, s)) == 'true']
    upd = [g.node_of(a) for _, a in kinds]
    # every path through the body that comes back to the loop head passes a position update
    back_preds = [p for p in g.pred[head] if p in g.reachable(body_in)]
    ok = all(g.must_pass(body_in[0], upd, [p]) or p in upd for p in back_preds) if body_in else False
    res.ob(site, 'every iteration that continues has moved the position', ok)
    if not ok:
        bad(loop, 'some path through the loop body returns to the search without moving the position (non-termination)', 'no-progress')
    # the match/no-match split is on the number of accepted tokens
    match_upd = [a for k, a in kinds if k == 'match'][0]
    skip_upd = [a for k, a in kinds if k == 'skip'][0]
    ifs = [a for a in ancestors(match_upd) if isinstance(a, ast.If) and any(x is loop for x in ancestors(a))]
    split = ifs[0] if ifs else None
    ok = split is not None and any(skip_upd is x for s in split.orelse for x in ast.walk(s)) and isinstance(split.test, ast.Name)
    res.ob(site, 'match and skip are the two arms of one test on the accepted-prefix length', ok)
    if not ok:
        bad(loop, 'the position updates are not the two arms of `if <accepted prefix length>:`', 'split')
        return res
    lm_var = split.test.id
    # ---- the yielded match ------------------------------------------------------------------------------
    ys = [n for s in split.body for n in ast.walk(s) if isinstance(n, ast.Yield)]
    ok = len(ys) == 1 and isinstance(ys[0].value, ast.Call) and ys[0].value.args and isinstance(ys[0].value.args[0], ast.Tuple)
    if ok:
        rng = ys[0].value.args[0]
        ok = len(rng.elts) == 2 and norm(rng.elts[0]) == '%s[0].start_pos' % matched_var and norm(rng.elts[1]) == '%s[-1].end_pos' % matched_var
    res.ob(site, 'yielded range == (first matched token start, last matched token end)', ok)
    if not ok:
        bad(ys[0] if ys else split, 'the yielded range is not (%s[0].start_pos, %s[-1].end_pos)' % (matched_var, matched_var), 'range')
    # position update follows the yield
    if ys:
        ok = (match_upd.lineno, match_upd.col_offset) > (ys[0].lineno, ys[0].col_offset)
        res.ob(site, 'the position is advanced after the match has been yielded', ok)
        if not ok:
            bad(match_upd, 'position updated before the match is yielded', 'order')
    # matched = matched_tokens[:longest_match]
    md = [a for a in _assigns(f, matched_var)]
    ok = len(md) == 1 and isinstance(md[0].value, ast.Subscript) and isinstance(md[0].value.slice, ast.Slice) \
        and md[0].value.slice.lower is None and norm(md[0].value.slice.upper) == lm_var
    toks_var = norm(md[0].value.value) if ok else None
    res.ob(site, 'the replayed tokens are exactly the accepted prefix `%s[:%s]`' % (toks_var, lm_var), ok)
    if not ok:
        bad(md[0] if md else split, 'the replayed tokens are not `<lexed tokens>[:%s]`' % lm_var, 'prefix')
        return res
    # replay parser: created inside the match arm, without text, fed every token of matched, then feed_eof(last)
    rp = [a for s in split.body for a in ast.walk(s) if isinstance(a, ast.Assign) and isinstance(a.value, ast.Call)
          and norm(a.value.func).endswith('parse_interactive')]
    ok = len(rp) == 1 and not rp[0].value.args and all(k.arg == 'start' for k in rp[0].value.keywords)
    res.ob(site, 'a fresh replay parser (no text, own state) is created for every match', ok)
    if not ok:
        bad(split, 'the replay parser is not created afresh inside the match arm (found %d creations there)' % len(rp), 'replay-fresh')
        return res
    rv = rp[0].targets[0].id
    feeds = [n for s in split.body for n in ast.walk(s) if isinstance(n, ast.Call) and norm(n.func) == rv + '.feed_token']
    okf = len(feeds) == 1
    if okf:
        lp = [a for a in ancestors(feeds[0]) if isinstance(a, ast.For)]
        okf = bool(lp) and norm(lp[0].iter) == matched_var and norm(feeds[0].args[0]) == norm(lp[0].target)
    res.ob(site, 'every accepted token is replayed, in order', okf)
    if not okf:
        bad(split, 'the replay does not feed every token of the accepted prefix in order', 'replay-feed')
    eofs = [n for s in split.body for n in ast.walk(s) if isinstance(n, ast.Call) and norm(n.func) == rv + '.feed_eof']
    ok = len(eofs) == 1 and eofs[0].args and norm(eofs[0].args[0]) == '%s[-1]' % matched_var
    res.ob(site, 'the replay ends with feed_eof(<last matched token>) (so $END carries full-text coordinates)', ok)
    if not ok:
        bad(split, 'the replay does not end with feed_eof(%s[-1])' % matched_var, 'replay-eof')
    if eofs and ys:
        st = enclosing_stmt(eofs[0])
        resv = st.targets[0].id if isinstance(st, ast.Assign) and isinstance(st.targets[0], ast.Name) else None
        ok = resv is not None and len(ys[0].value.args) >= 2 and norm(ys[0].value.args[1]) == resv
        res.ob(site, 'the yielded value is the result of the replay', ok)
        if not ok:
            bad(ys[0], 'the yielded value is not the replay parser\'s result', 'value')
    # ---- the exploratory parse ----------------------------------------------------------------------------
    ex = [a for a in _assigns(f, '') if False]
    explor = [a for s in loop.body for a in ast.walk(s) if isinstance(a, ast.Assign) and isinstance(a.value, ast.Call)
              and norm(a.value.func).endswith('parse_interactive') and a not in rp]
    ok = len(explor) == 1 and explor[0].value.args
    res.ob(site, 'one exploratory parser per candidate, lexing from the candidate', ok)
    if not ok:
        bad(loop, 'cannot find the exploratory parser of the candidate', 'explore')
        return res
    ev = explor[0].targets[0].id
    wl_var = norm(explor[0].value.args[0])
    # window with line count: (text, match_start, end, line, line_start_pos)
    wl = [a for a in _assigns(f, wl_var)]
    if isinstance(explor[0].value.args[0], ast.Call):
        # the window is built in the argument itself
        wl = [ast.copy_location(ast.Assign(targets=[ast.Name(id='<window>', ctx=ast.Store())], value=explor[0].value.args[0]), explor[0])]
        wl[0]._parent = parent(explor[0])       # type: ignore[attr-defined]
        wl_anchor = explor[0]
    else:
        wl_anchor = wl[0] if wl else None
    ok = len(wl) == 1 and isinstance(wl[0].value, ast.Call) and len(wl[0].value.args) == 5
    if ok:
        a = wl[0].value.args
        ctr = norm(a[3].value) if isinstance(a[3], ast.Attribute) else None
        ok = norm(a[0]) == text_param + '.text' and norm(a[1]) == ms_var and norm(a[2]) == text_param + '.end' \
            and ctr is not None and norm(a[3]) == ctr + '.line' and norm(a[4]) == ctr + '.line_start_pos'
        if ok:
            adv = [n for s in loop.body for n in ast.walk(s) if isinstance(n, ast.Call) and norm(n.func) == ctr + '.advance_to']
            ok = len(adv) == 1 and len(adv[0].args) == 2 and norm(adv[0].args[0]) == text_param + '.text' and norm(adv[0].args[1]) == ms_var \
                and g.dominates(g.node_of(enclosing_stmt(adv[0])), g.node_of(wl_anchor))
            cinit = [x for x in _assigns(f, ctr) if parent(x) is f.node]
            ok = ok and len(cinit) == 1 and 'from_text_slice' in norm(cinit[0].value) and norm(cinit[0].value.args[0]) == text_param
    res.ob(site, 'the exploratory window is [candidate, window end) of the same buffer, with the line state of the full text '
                 '(one counter, advanced to the candidate)', ok)
    if not ok:
        bad(wl_anchor if wl_anchor is not None else loop, 'the window handed to the exploratory lexer does not start at the candidate with the full text\'s '
                                   'line/column state', 'window')
    # callbacks off before the first feed
    empt = [n for s in loop.body for n in ast.walk(s) if isinstance(n, ast.Assign) and len(n.targets) == 1
            and isinstance(n.targets[0], ast.Attribute) and n.targets[0].attr == 'callbacks' and norm(n.targets[0].value).startswith(ev + '.')
            and isinstance(n.value, ast.Dict) and not n.value.keys]
    efeeds = [n for s in loop.body for n in ast.walk(s) if isinstance(n, ast.Call) and norm(n.func) == ev + '.feed_token']
    ok = len(empt) == 1 and bool(efeeds) and all(g.dominates(g.node_of(empt[0]), g.node_of(enclosing_stmt(x))) for x in efeeds)
    res.ob(site, 'tree-building callbacks are switched off before the exploratory parser is fed', ok)
    if not ok:
        bad(loop, 'the exploratory parse may run user/tree callbacks (callbacks not emptied before feeding)', 'explore-callbacks')
    # the accepted-prefix length is only raised after a successful $END probe
    lms = [a for a in _assigns(f, lm_var) if any(x is loop for x in ancestors(a))]
    resets = [a for a in lms if isinstance(a.value, ast.Constant) and a.value.value == 0]
    raises = [a for a in lms if a not in resets]
    ok = len(resets) == 1 and len(raises) == 1 and norm(raises[0].value) == 'len(%s)' % toks_var
    if len(resets) == 1 and len(raises) == 1 and not ok and isinstance(raises[0].value, ast.Name):
        # the same count kept by the loop itself: `for n, token in enumerate(<stream>, 1)` where every iteration that reaches the
        # assignment has appended exactly one token (the append dominates it, checked below)
        for l_ in ancestors(raises[0]):
            if isinstance(l_, ast.For) and isinstance(l_.iter, ast.Call) and norm(l_.iter.func) == 'enumerate' and len(l_.iter.args) == 2 \
                    and norm(l_.iter.args[1]) == '1' and isinstance(l_.target, ast.Tuple) and norm(l_.target.elts[0]) == raises[0].value.id:
                only_jumps_before_append = True
                ok = True
    if ok:
        r = raises[0]
        # dominated by a feed of $END on a shallow state copy inside a try whose failure `continue`s
        probe = [n for s in loop.body for n in ast.walk(s) if isinstance(n, ast.Call) and isinstance(n.func, ast.Attribute)
                 and n.func.attr == 'feed_token' and "'$END'" in norm(n)]
        ok = len(probe) == 1 and g.dominates(g.node_of(enclosing_stmt(probe[0])), g.node_of(r))
        if ok:
            tr = [a for a in ancestors(probe[0]) if isinstance(a, ast.Try)]
            ok = bool(tr) and any(any(isinstance(x, ast.Continue) for x in h.body) and 'UnexpectedInput' in norm(h.type)
                                  for h in tr[0].handlers if h.type is not None) and not any(r is x for x in ast.walk(tr[0]) if False)
            # the append of the token precedes the length being recorded
            app = [n for s in loop.body for n in ast.walk(s) if isinstance(n, ast.Call) and norm(n.func) == toks_var + '.append']
            ok = ok and len(app) == 1 and g.dominates(g.node_of(enclosing_stmt(app[0])), g.node_of(r))
            # and the token was fed to the exploratory parser before being recorded
            ok = ok and all(g.dominates(g.node_of(enclosing_stmt(x)), g.node_of(enclosing_stmt(app[0]))) for x in efeeds)
    res.ob(site, 'the accepted-prefix length is reset per candidate and raised only after the parser accepted $END at that point', ok)
    if not ok:
        bad(loop, 'the longest-match bookkeeping does not follow "feed token, record it, probe $END on a throw-away state, then '
                  'raise the accepted length"', 'longest')
    # the lexed-token list is reset per candidate
    tk = [a for a in _assigns(f, toks_var) if any(x is loop for x in ancestors(a))]
    ok = len(tk) == 1 and isinstance(tk[0].value, ast.List) and not tk[0].value.elts
    res.ob(site, 'the token list is reset per candidate', ok)
    if not ok:
        bad(loop, 'tokens of an earlier candidate leak into the next one', 'tokens-reset')
    # ---- search scanner: non-ignored terminals only -----------------------------------------------------------
    ss = repo.func('lark.lexer:BasicLexer.search_scanner')
    comp = [n for n in ss.body_nodes() if isinstance(n, ast.ListComp)]
    ok = len(comp) == 1 and len(comp[0].generators) == 1 and len(comp[0].generators[0].ifs) == 1 \
        and norm(comp[0].generators[0].ifs[0]).replace(' ', '') == '%s.namenotinself.ignore_types' % norm(comp[0].generators[0].target) \
        and norm(comp[0].generators[0].iter) == 'self.terminals'
    if ok:
        # ... and that list is what the scanner is built from
        ctor = [c for c in ss.body_nodes() if isinstance(c, ast.Call) and norm(c.func) == 'Scanner' and c.args]
        loc_ = {a.targets[0].id: a.value for a in ss.body_nodes() if isinstance(a, ast.Assign) and len(a.targets) == 1 and isinstance(a.targets[0], ast.Name)}
        ok = len(ctor) == 1
        if ok:
            a0 = ctor[0].args[0]
            if isinstance(a0, ast.Name) and a0.id in loc_:
                a0 = loc_[a0.id]
            ok = a0 is comp[0]
    res.ob('%s %s' % (ss.loc(), ss.qual), 'candidates are searched among the non-ignored terminals only', ok)
    if not ok:
        bad_f = ss
        res.finding(ss, ss.node, 'the start search is not restricted to non-ignored terminals: a match hidden inside ignored text is '
                                 'skipped, or ignored text starts a match', construct='search-scanner')
    st = repo.func('lark.lexer:Scanner.search')
    sloops = [l for l in st.node.body if isinstance(l, ast.For)]
    if sloops:
        early = [r for r in ast.walk(st.node) if isinstance(r, ast.Return) and r.lineno < sloops[0].lineno] + [x for x in ast.walk(sloops[0]) if isinstance(x, (ast.Return, ast.Break))]
        oks = not early
        res.ob('%s %s' % (st.loc(), st.qual), 'Scanner.search answers only after every compiled alternation was searched', oks)
        if not oks:
            res.finding(st, early[0], 'Scanner.search can answer before all alternations were searched (%s): a match at the end of the text / in a later chunk of '
                        'terminals is missed' % norm(early[0])[:60], construct='search-early-answer')
    from ..exprs import as_less
    okm = any(as_less(n) is not None and as_less(n)[1] == '<' and norm(as_less(n)[0]).endswith('.start()') and norm(as_less(n)[2]).endswith('.start()')
              for n in st.body_nodes() if isinstance(n, ast.Compare))
    # (or the builtin: min over the .start() of the matches)
    okm = okm or any(isinstance(n, ast.Call) and isinstance(n.func, ast.Name) and n.func.id == 'min' and (
        '.start()' in norm(n) or any(isinstance(a_, ast.Name) and any(
            isinstance(d_, (ast.Assign, ast.Expr)) and '.start()' in norm(d_) and a_.id in norm(d_) for d_ in st.body_nodes() if isinstance(d_, (ast.Assign, ast.Expr)))
            for a_ in n.args)) for n in st.body_nodes())
    res.ob('%s %s' % (st.loc(), st.qual), 'the earliest match over all regex chunks is taken', okm)
    if not okm:
        res.finding(st, st.node, 'Scanner.search does not take the minimum start over its regex chunks', construct='search-min')
    # ---- the contextual lexer searches with the lexer of the state the scan starts in (the lexer that will lex there) ----
    cs = repo.func('lark.lexer:ContextualLexer.search_start')
    ps = cs.positional_names()
    ok = len(ps) >= 3 and has_pat(cs.body_nodes(), 'return $me.lexers[%s].search_start(%s, %s, %s)' % (ps[1], ps[0], ps[1], ps[2]))
    res.ob('%s %s' % (cs.loc(), cs.qual), 'candidates are searched with the per-state lexer of the start state (self.lexers[state])', ok)
    if not ok:
        res.finding(cs, cs.node, 'the contextual lexer does not search candidate starts with the lexer of the start state: terminals that the '
                                 'parser cannot accept there (root lexer) become candidates, or acceptable ones are missed', construct='search-state-lexer')
    bs = repo.func('lark.lexer:BasicLexer.search_start')
    ps = bs.positional_names()
    ok = len(ps) >= 3 and has_pat(bs.body_nodes(), 'return $me.search_scanner.search(%s, %s)' % (ps[0], ps[2]))
    res.ob('%s %s' % (bs.loc(), bs.qual), 'the basic lexer searches the given window from the given position', ok)
    if not ok:
        res.finding(bs, bs.node, 'BasicLexer.search_start does not search (text, pos) with its search scanner', construct='search-basic')
    return res
