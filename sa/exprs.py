"""Small expression utilities: linear normal forms (a dataflow value domain, not symbolic execution of
paths), argument binding, boolean-context detection."""
from __future__ import annotations

import ast
from typing import Dict, List, Optional, Tuple

from .model import norm, FuncInfo, ClassInfo, parent

Lin = Dict[str, int]     # atom text -> coefficient; '' is the constant term


def lin_add(a: Lin, b: Lin, sign: int = 1) -> Lin:
    out = dict(a)
    for k, v in b.items():
        out[k] = out.get(k, 0) + sign * v
        if out[k] == 0:
            del out[k]
    return out


def linear(e: ast.AST, subst: Optional[Dict[str, Lin]] = None) -> Lin:
    """Linear normal form of an integer expression.  Non-arithmetic sub-expressions are atoms keyed by
    their normalised text; `subst` maps atom text to a linear form to substitute (def-use chase)."""
    subst = subst or {}
    if isinstance(e, ast.Constant) and isinstance(e.value, int) and not isinstance(e.value, bool):
        return {'': e.value} if e.value else {}
    if isinstance(e, ast.BinOp) and isinstance(e.op, (ast.Add, ast.Sub)):
        return lin_add(linear(e.left, subst), linear(e.right, subst), 1 if isinstance(e.op, ast.Add) else -1)
    if isinstance(e, ast.UnaryOp) and isinstance(e.op, ast.USub):
        return lin_add({}, linear(e.operand, subst), -1)
    if isinstance(e, ast.UnaryOp) and isinstance(e.op, ast.UAdd):
        return linear(e.operand, subst)
    if isinstance(e, ast.BinOp) and isinstance(e.op, ast.Mult):
        l, r = linear(e.left, subst), linear(e.right, subst)
        if set(l) <= {''}:
            c = l.get('', 0)
            return {k: v * c for k, v in r.items() if v * c}
        if set(r) <= {''}:
            c = r.get('', 0)
            return {k: v * c for k, v in l.items() if v * c}
    key = norm(e)
    if key in subst:
        return dict(subst[key])
    return {key: 1}


def lin_str(l: Lin) -> str:
    if not l:
        return '0'
    parts = []
    for k in sorted(l, key=lambda x: (x == '', x)):
        v = l[k]
        if k == '':
            parts.append('%+d' % v)
        elif v == 1:
            parts.append('+' + k)
        elif v == -1:
            parts.append('-' + k)
        else:
            parts.append('%+d*%s' % (v, k))
    return ' '.join(parts).lstrip('+')


def dataclass_fields(k: ClassInfo) -> List[str]:
    out: List[str] = []
    for c in reversed(k.mro()):
        for n in c.node.body:
            if isinstance(n, ast.AnnAssign) and isinstance(n.target, ast.Name):
                ann = norm(n.annotation)
                if ann.startswith('ClassVar'):
                    continue
                if n.target.id not in out:
                    out.append(n.target.id)
    return out


def is_dataclass(k: ClassInfo) -> bool:
    for c in k.mro():
        for d in c.node.decorator_list:
            if 'dataclass' in norm(d):
                return True
    return False


def bind_call(call: ast.Call, names: List[str]) -> Tuple[Dict[str, ast.AST], bool]:
    """Bind the arguments of `call` to the positional parameter names `names`.
    Returns (param -> arg node, exact) where exact is False when *args / **kwargs prevent binding."""
    out: Dict[str, ast.AST] = {}
    exact = True
    for i, a in enumerate(call.args):
        if isinstance(a, ast.Starred):
            exact = False
            break
        if i < len(names):
            out[names[i]] = a
        else:
            exact = False
    for kw in call.keywords:
        if kw.arg is None:
            exact = False
        else:
            out[kw.arg] = kw.value
    return out, exact


def in_bool_context(n: ast.AST) -> bool:
    """Is expression node n evaluated for its truth value?"""
    p = parent(n)
    if isinstance(p, (ast.If, ast.While, ast.IfExp)) and p.test is n:
        return True
    if isinstance(p, ast.Assert) and p.test is n:
        return True
    if isinstance(p, ast.UnaryOp) and isinstance(p.op, ast.Not):
        return True
    if isinstance(p, ast.BoolOp):
        # every operand but the last is tested; the last is tested when the BoolOp itself is
        if p.values[-1] is not n:
            return True
        return in_bool_context(p)
    if isinstance(p, ast.comprehension) and n in p.ifs:
        return True
    if isinstance(p, ast.Call) and isinstance(p.func, ast.Name) and p.func.id == 'bool' and p.args and p.args[0] is n:
        return True
    return False
